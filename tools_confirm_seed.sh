#!/bin/bash
# usage: tools_confirm_seed.sh <worktree> <mutdir> ; confirms a seeded change: applies, builds, full suite passes, demo fails; reverted: demo passes
wt="$1"; md="$2"
cd "$wt" || exit 2
rm -rf out; git checkout -q -- . ; git clean -fdq
place=$(head -1 "$md/demo_test.go" | sed -n 's/.*place in:* *\([^ ]*\).*/\1/p'); [ -z "$place" ] && place=.
place=${place%%[^A-Za-z0-9_./-]*}; [ "$place" = "repository" ] && place=.
[ -d "$place" ] || place=.
res="$md/confirm.txt"; : > "$res"
tests=$(grep -o 'func Test[A-Za-z0-9_]*' "$md/demo_test.go" | sed 's/func //' | paste -sd'|')
runpat="^($tests)\$"
git apply "$md/patch.diff" || { echo "APPLY-FAIL" >> "$res"; exit 1; }
go build ./... >> "$res" 2>&1 && echo "BUILD-OK" >> "$res" || echo "BUILD-FAIL" >> "$res"
if go test -vet=off -count=1 ./... > "$md/suite.log" 2>&1; then echo "SUITE-PASS-WITH-PATCH" >> "$res"; else echo "SUITE-FAIL-WITH-PATCH" >> "$res"; grep -v "^ok\|no test files" "$md/suite.log" | head -20 >> "$res"; fi
cp "$md/demo_test.go" "$place/zz_seed_demo_test.go"
if (cd "$place" && go test -vet=off -count=1 -run "$runpat" . > "$md/demo_with.log" 2>&1); then echo "DEMO-PASS-WITH-PATCH(bad)" >> "$res"; else echo "DEMO-FAIL-WITH-PATCH(good)" >> "$res"; fi
git checkout -q -- .
if (cd "$place" && go test -vet=off -count=1 -run "$runpat" . > "$md/demo_without.log" 2>&1); then echo "DEMO-PASS-WITHOUT(good)" >> "$res"; else echo "DEMO-FAIL-WITHOUT(bad)" >> "$res"; fi
rm -f "$place/zz_seed_demo_test.go"
rm -rf out; git checkout -q -- . ; git clean -fdq
echo "place=$place" >> "$res"
cat "$res"
