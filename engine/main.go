package main

// vcheck: solver-based checking of gogpu/naga by symbolic execution of its
// go/ssa form. See /verif/DESIGN.md.

import (
	"encoding/json"
	"flag"
	"fmt"
	"os"
	"path/filepath"
	"regexp"
	"runtime"
	"sort"
	"strings"
	"time"

	"golang.org/x/tools/go/ssa"
)

func main() {
	if len(os.Args) < 2 {
		fmt.Fprintln(os.Stderr, "usage: vcheck run|selftest ...")
		os.Exit(2)
	}
	switch os.Args[1] {
	case "run":
		os.Exit(cmdRun(os.Args[2:]))
	case "selftest":
		os.Exit(cmdSelftest(os.Args[2:]))
	}
	fmt.Fprintln(os.Stderr, "unknown command", os.Args[1])
	os.Exit(2)
}

type knownFinding struct {
	Property string `json:"property"`
	Harness  string `json:"harness"` // regexp on harness name
	Cell     string `json:"cell"`    // regexp on witness cell
	Msg      string `json:"msg"`     // regexp on assertion message
	What     string `json:"what"`
	Status   string `json:"status"` // "open" or "fixed: <commit>"
}

type knownFile struct {
	Findings []knownFinding `json:"findings"`
}

func loadKnown(path string) []knownFinding {
	b, err := os.ReadFile(path)
	if err != nil {
		return nil
	}
	var kf knownFile
	if err := json.Unmarshal(b, &kf); err != nil {
		fmt.Fprintln(os.Stderr, "known_findings.json:", err)
		os.Exit(2)
	}
	return kf.Findings
}

func matchKnown(kfs []knownFinding, prop string, w *Witness) *knownFinding {
	for i := range kfs {
		k := &kfs[i]
		if k.Property != prop || strings.HasPrefix(k.Status, "fixed") {
			continue
		}
		if ok, _ := regexp.MatchString(k.Harness, w.Harness); !ok {
			continue
		}
		if ok, _ := regexp.MatchString("^(?:"+k.Cell+")$", w.Cell); !ok {
			continue
		}
		if k.Msg != "" {
			if ok, _ := regexp.MatchString(k.Msg, w.Msg); !ok {
				continue
			}
		}
		return k
	}
	return nil
}

func cmdRun(args []string) int {
	fs := flag.NewFlagSet("run", flag.ExitOnError)
	prop := fs.String("property", "", "property id (C01..C19)")
	tier := fs.String("tier", os.Getenv("VERIF_TIER"), "quick|thorough")
	repo := fs.String("repo", "/repo", "repository root")
	verif := fs.String("verif", "/verif", "verification root")
	only := fs.String("only", "", "regexp selecting harness functions")
	workers := fs.Int("workers", runtime.NumCPU(), "parallel workers")
	solver := fs.String("solver", "z3", "z3|z3-new|cvc5")
	timeout := fs.Int("timeout-ms", 0, "per-query solver timeout")
	noReplay := fs.Bool("no-replay", false, "skip native replay")
	noEvidence := fs.Bool("no-evidence", false, "do not write the evidence file")
	maxPaths := fs.Int64("max-paths", 0, "path limit per harness")
	fs.Parse(args)
	if *tier == "" {
		*tier = "quick"
	}
	if *prop == "" {
		fmt.Fprintln(os.Stderr, "missing -property")
		return 2
	}
	thorough := *tier == "thorough"
	if *timeout == 0 {
		*timeout = 30000
		if thorough {
			*timeout = 120000
		}
	}
	seed := int64(0)
	fmt.Sscanf(os.Getenv("VERIF_SEED"), "%d", &seed)
	t0 := time.Now()

	// overlay: zzverif + common + property files
	hroot := filepath.Join(*verif, "harness")
	all, err := readOverlayDir(hroot, *repo)
	if err != nil {
		fmt.Fprintln(os.Stderr, "reading harness dir:", err)
		return 2
	}
	pfx := "zz_" + strings.ToLower(*prop) + "_"
	overlay := map[string][]byte{}
	pkgDirs := map[string]bool{}
	for path, b := range all {
		base := filepath.Base(path)
		rel, _ := filepath.Rel(*repo, filepath.Dir(path))
		switch {
		case strings.Contains(path, "/internal/zzverif/"), strings.Contains(path, "/internal/zzspv/"), strings.Contains(path, "/internal/zzclike/"), strings.Contains(path, "/internal/zztpl/"), strings.Contains(path, "/internal/zzir/"):
			overlay[path] = b
		case strings.HasPrefix(base, pfx):
			overlay[path] = b
			pkgDirs["./"+rel] = true
		}
	}
	// common files only for directories that have property files
	for path, b := range all {
		base := filepath.Base(path)
		rel, _ := filepath.Rel(*repo, filepath.Dir(path))
		if strings.HasPrefix(base, "zz_common") && pkgDirs["./"+rel] {
			overlay[path] = b
		}
	}
	if len(pkgDirs) == 0 {
		fmt.Fprintf(os.Stderr, "no harness files for %s\n", *prop)
		return 2
	}
	var patterns []string
	for d := range pkgDirs {
		patterns = append(patterns, d)
	}
	sort.Strings(patterns)
	w, err := LoadWorld(*repo, overlay, patterns)
	if err != nil {
		fmt.Fprintln(os.Stderr, "load:", err)
		return 2
	}
	loadS := time.Since(t0).Seconds()

	// harness functions
	var fns []*ssa.Function
	re := regexp.MustCompile("^ZZ_" + *prop + "_")
	var onlyRe *regexp.Regexp
	if *only != "" {
		onlyRe = regexp.MustCompile(*only)
	}
	for _, p := range w.prog.AllPackages() {
		if !isModulePkg(p.Pkg.Path()) {
			continue
		}
		for name, m := range p.Members {
			f, ok := m.(*ssa.Function)
			if !ok || !re.MatchString(name) {
				continue
			}
			if strings.HasSuffix(name, "_T") && !thorough {
				continue // thorough-only harness
			}
			if onlyRe != nil && !onlyRe.MatchString(name) {
				continue
			}
			fns = append(fns, f)
		}
	}
	sort.Slice(fns, func(i, j int) bool { return fns[i].String() < fns[j].String() })
	if len(fns) == 0 {
		fmt.Fprintf(os.Stderr, "no harness functions for %s\n", *prop)
		return 2
	}
	cfg := RunConfig{Workers: *workers, TimeoutMs: *timeout, Solver: *solver, Thorough: thorough, MaxPaths: *maxPaths,
		PanicIsViol: true, Seed: seed}
	known := loadKnown(filepath.Join(*verif, "known_findings.json"))

	var results []*HarnessResult
	inconclusive := false
	var reasons []string
	var allWit []*Witness
	for _, fn := range fns {
		hr := runHarness(w, fn, cfg, false)
		// vacuity twin: an appended Assert(false) must be reported violated
		tcfg := cfg
		tcfg.StopOnViol = true
		tcfg.PanicIsViol = false
		tw := runHarness(w, fn, tcfg, true)
		for _, wt := range tw.Witnesses {
			if wt.Msg == "vacuity twin" {
				hr.TwinOK = true
			}
		}
		if !hr.TwinOK {
			hr.Vacuous = append(hr.Vacuous, "vacuity twin not violated: no path reaches the end of the harness")
		}
		if hr.Reach["end"] == 0 {
			hr.Vacuous = append(hr.Vacuous, "Reach(\"end\") never hit")
		}
		results = append(results, hr)
		if hr.Inconcl {
			inconclusive = true
			reasons = append(reasons, fmt.Sprintf("%s: unsupported=%v limits=%v unknown=%v %s", hr.Name, hr.Unsupported, hr.Limits, hr.Unknowns, hr.HitLimit))
		}
		if len(hr.Vacuous) > 0 {
			inconclusive = true
			reasons = append(reasons, fmt.Sprintf("%s: vacuous: %v", hr.Name, hr.Vacuous))
		}
		allWit = append(allWit, hr.Witnesses...)
		fmt.Fprintf(os.Stderr, "[%s] %s: paths=%d outcomes=%v decisions=%d wall=%.1fs witnesses=%d\n", *prop, fn.Name(), hr.Paths, hr.Outcomes, hr.Decisions, hr.WallS, len(hr.Witnesses))
	}

	// native replay of witnesses (and sample models)
	rep := &replayReport{}
	if !*noReplay {
		rep = nativeReplay(w, *repo, *verif, overlay, results, *prop)
	}
	violations := 0
	knownHits := 0
	printedKnown := map[string]bool{}
	var violLines []string
	for _, wt := range allWit {
		reproduced := *noReplay || rep.reproduced[wt]
		if !reproduced {
			inconclusive = true
			reasons = append(reasons, fmt.Sprintf("counterexample of %s (%s) did not reproduce natively: %s", wt.Harness, wt.Msg, rep.detail[wt]))
			continue
		}
		if k := matchKnown(known, *prop, wt); k != nil {
			knownHits++
			key := k.Harness + "|" + k.Cell + "|" + k.Msg
			if !printedKnown[key] {
				printedKnown[key] = true
				fmt.Printf("KNOWN-FINDING: property=%s %s\n", *prop, k.What)
			}
			continue
		}
		violations++
		path := writeReplayFile(*verif, *prop, wt)
		violLines = append(violLines, fmt.Sprintf("VIOLATION property=%s replay=%s", *prop, path))
		fmt.Fprintf(os.Stderr, "violation: %s: %s [cell %s] inputs=%v\n", wt.Harness, wt.Msg, wt.Cell, wt.Values)
	}
	wall := time.Since(t0).Seconds()
	if !*noEvidence {
		writeEvidence(*verif, *prop, *tier, seed, w, results, rep, violations, knownHits, inconclusive, reasons, wall, loadS, cfg)
	}
	for _, l := range violLines {
		fmt.Println(l)
	}
	if violations > 0 {
		return 1
	}
	if inconclusive {
		for _, r := range reasons {
			fmt.Fprintln(os.Stderr, "INCONCLUSIVE:", r)
		}
		return 2
	}
	fmt.Printf("OK property=%s tier=%s harnesses=%d paths=%d queries=%d wall=%.1fs\n", *prop, *tier, len(results), sumPaths(results), globalSolverStats.Queries, wall)
	return 0
}

func sumPaths(rs []*HarnessResult) int64 {
	var n int64
	for _, r := range rs {
		n += r.Paths
	}
	return n
}

func writeReplayFile(verif, prop string, wt *Witness) string {
	dir := filepath.Join(verif, "replays")
	os.MkdirAll(dir, 0o755)
	short := wt.Harness[strings.LastIndex(wt.Harness, ".")+1:]
	name := fmt.Sprintf("%s_%s_%x.json", prop, short, hashStr(fmt.Sprint(wt.Values)+wt.Msg)&0xffffff)
	path := filepath.Join(dir, name)
	b, _ := json.MarshalIndent(wt, "", " ")
	os.WriteFile(path, b, 0o644)
	return path
}

func hashStr(s string) uint32 {
	var h uint32 = 2166136261
	for i := 0; i < len(s); i++ {
		h ^= uint32(s[i])
		h *= 16777619
	}
	return h
}

func writeEvidence(verif, prop, tier string, seed int64, w *World, results []*HarnessResult, rep *replayReport,
	violations, knownHits int, inconclusive bool, reasons []string, wall, loadS float64, cfg RunConfig) {
	var paths, decisions, steps int64
	var samples []any
	funcs := map[string]bool{}
	var hsum []map[string]any
	for _, r := range results {
		paths += r.Paths
		decisions += r.Decisions
		steps += r.Steps
		for _, f := range r.SymFuncs {
			funcs[f] = true
		}
		for i, s := range r.Samples {
			if i < 3 {
				s["harness"] = r.Name
				samples = append(samples, s)
			}
		}
		hsum = append(hsum, map[string]any{"harness": r.Name, "paths": r.Paths, "outcomes": r.Outcomes, "decisions": r.Decisions,
			"max_decisions_on_a_path": r.MaxDepth, "ssa_instructions": r.Steps, "reach": r.Reach, "wall_s": r.WallS,
			"vacuity_twin_violated": r.TwinOK, "notes": r.Notes, "unsupported": r.Unsupported, "limits": r.Limits, "unknowns": r.Unknowns,
			"panics": r.Panics, "witnesses": len(r.Witnesses)})
	}
	var fl []string
	for f := range funcs {
		if !strings.Contains(f, "zzverif") {
			fl = append(fl, f)
		}
	}
	sort.Strings(fl)
	if len(samples) == 0 {
		samples = append(samples, map[string]any{"note": "no satisfiable sample model extracted"})
	}
	ev := map[string]any{
		"property_id": prop,
		"tier":        tier,
		"seed":        seed,
		"level":       "model_checking",
		"wall_s":      wall,
		"violations":  violations,
		"coverage": map[string]any{
			"states":                        paths,
			"transitions":                   decisions + paths,
			"traces_validated_against_impl": rep.total,
			"samples":                       samples,
			"explanation": "bounded symbolic execution of the real go/ssa code: states = explored feasible paths (each covers all input values satisfying its path condition), " +
				"transitions = solver-decided branch/value decisions + path completions; every path end is an unsat/sat solver verdict, not a sample",
			"harnesses":                            hsum,
			"functions_encoded_with_symbolic_data": fl,
			"ssa_functions_loaded":                 w.nFuncs,
			"ssa_instructions_executed":            steps,
			"solver":                               map[string]any{"backend": cfg.Solver, "queries": globalSolverStats.Queries, "sat": globalSolverStats.Sat, "unsat": globalSolverStats.Unsat, "unknown": globalSolverStats.Unknown, "fallback_backend": fallbackKind(cfg.Solver), "fallback_asked": globalSolverStats.FallbackAsked, "fallback_decided": globalSolverStats.FallbackDecided, "errors": globalSolverStats.Errors, "solver_time_s": float64(globalSolverStats.NanosSum) / 1e9, "per_query_timeout_ms": cfg.TimeoutMs},
			"native_replays":                       map[string]any{"run": rep.total, "agree": rep.agree, "disagree": rep.disagree, "detail": rep.summary},
			"known_finding_hits":                   knownHits,
			"inconclusive":                         inconclusive,
			"inconclusive_reasons":                 reasons,
			"load_and_ssa_build_s":                 loadS,
			"exhaustive":                           !inconclusive,
		},
		"assumptions": []string{
			"encoder: /verif/engine (go/ssa symbolic interpreter); SMT-LIB2 semantics of z3 4.8.12",
			"stdlib models listed in engine/extern.go and engine/mathext.go (fmt, strings.Builder, math, bytealg, sort.Slice)",
			"amd64 float->int conversion model (engine/sops.go floatToInt), validated by `vcheck selftest`",
			"bounds: stated per harness in /verif/harness/**/zz_" + strings.ToLower(prop) + "_*.go and DESIGN.md",
		},
	}
	os.MkdirAll(filepath.Join(verif, "evidence"), 0o755)
	b, _ := json.MarshalIndent(ev, "", " ")
	os.WriteFile(filepath.Join(verif, "evidence", prop+".json"), b, 0o644)
}
