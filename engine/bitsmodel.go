package main

// Term-level models of math/bits for symbolic operands (see extern.go); checked against the
// library on boundary and pseudo-random values by `vcheck selftest`.

func bitsBit(tp *TermPool, x *Term, i, wd int) *Term { // bit i of x as a wd-bit 0/1
	return tp.bvBin(OpBVAnd, tp.bvBin(OpBVLshr, x, tp.BV(uint64(i), wd)), tp.BV(1, wd))
}

func bitsOnesCount(tp *TermPool, x *Term, wd int) *Term {
	sum := tp.BV(0, wd)
	for i := 0; i < wd; i++ {
		sum = tp.bvBin(OpBVAdd, sum, bitsBit(tp, x, i, wd))
	}
	return sum
}

// bitsLen: index of the highest set bit + 1 (0 for 0).
func bitsLen(tp *TermPool, x *Term, wd int) *Term {
	r := tp.BV(0, wd)
	for i := 0; i < wd; i++ {
		r = tp.Ite(tp.Eq(bitsBit(tp, x, i, wd), tp.BV(1, wd)), tp.BV(uint64(i+1), wd), r)
	}
	return r
}

func bitsLeadingZeros(tp *TermPool, x *Term, wd int) *Term {
	return tp.bvBin(OpBVSub, tp.BV(uint64(wd), wd), bitsLen(tp, x, wd))
}

func bitsTrailingZeros(tp *TermPool, x *Term, wd int) *Term {
	r := tp.BV(uint64(wd), wd)
	for i := wd - 1; i >= 0; i-- {
		r = tp.Ite(tp.Eq(bitsBit(tp, x, i, wd), tp.BV(1, wd)), tp.BV(uint64(i), wd), r)
	}
	return r
}

func bitsReverse(tp *TermPool, x *Term, wd int) *Term {
	r := tp.BV(0, wd)
	for i := 0; i < wd; i++ {
		r = tp.bvBin(OpBVOr, r, tp.bvBin(OpBVShl, bitsBit(tp, x, i, wd), tp.BV(uint64(wd-1-i), wd)))
	}
	return r
}
