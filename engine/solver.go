package main

// Incremental SMT-LIB2 solver sessions over a pipe (z3 -in / cvc5 --incremental).
// One process is kept alive per worker; each path starts with (reset).

import (
	"bufio"
	"fmt"
	"io"
	"os"
	"os/exec"
	"strconv"
	"strings"
	"sync/atomic"
	"time"
)

type SolverStats struct {
	Queries  int64
	Sat      int64
	Unsat    int64
	Unknown  int64
	Errors   int64
	NanosSum int64
	// Fallback: queries the primary solver answered "unknown" that were re-asked to the
	// second solver (a fresh one-shot process fed the whole session), and how many of
	// those it decided.
	FallbackAsked   int64
	FallbackDecided int64
}

var globalSolverStats SolverStats

type Solver struct {
	kind      string // "z3", "z3-new", "cvc5"
	timeoutMs int
	cmd       *exec.Cmd
	in        *bufio.Writer
	inRaw     io.WriteCloser
	out       *bufio.Reader
	defined   map[int]bool
	declared  map[string]bool
	pool      *TermPool
	dump      *os.File
	dead      bool
	lastErr   string
	lastCheck string   // the last (check-sat...) line sent
	log       []string // every line sent since the last (reset): replayed into the fallback solver
	alt       *Solver  // fallback session that produced the last answer (nil: the primary did)
	noAlt     bool     // this IS a fallback session
}

func solverArgv(kind string, timeoutMs int) []string {
	switch kind {
	case "z3":
		return []string{"/usr/bin/z3", "-in", "-smt2"}
	case "z3-new":
		return []string{"z3-new", "-in", "-smt2"}
	case "cvc5":
		return []string{"cvc5", "--incremental", "--lang=smt2", "--fp-exp", "--produce-models", "--tlimit-per=" + strconv.Itoa(timeoutMs)}
	}
	panic("unknown solver " + kind)
}

func NewSolver(kind string, timeoutMs int) (*Solver, error) {
	s := &Solver{kind: kind, timeoutMs: timeoutMs}
	if err := s.start(); err != nil {
		return nil, err
	}
	return s, nil
}

func (s *Solver) start() error {
	argv := solverArgv(s.kind, s.timeoutMs)
	cmd := exec.Command(argv[0], argv[1:]...)
	in, err := cmd.StdinPipe()
	if err != nil {
		return err
	}
	out, err := cmd.StdoutPipe()
	if err != nil {
		return err
	}
	cmd.Stderr = nil
	if err := cmd.Start(); err != nil {
		return err
	}
	s.cmd = cmd
	s.inRaw = in
	s.in = bufio.NewWriterSize(in, 1<<16)
	s.out = bufio.NewReaderSize(out, 1<<16)
	s.dead = false
	if p := os.Getenv("SYMGO_SMT_DUMP"); p != "" && s.dump == nil {
		f, _ := os.CreateTemp("", "symgo-smt-*.smt2")
		s.dump = f
		_ = p
	}
	return nil
}

func (s *Solver) Close() {
	if s.alt != nil {
		s.alt.Close()
		s.alt = nil
	}
	if s.cmd != nil {
		s.inRaw.Close()
		s.cmd.Process.Kill()
		s.cmd.Wait()
		s.cmd = nil
	}
}

func (s *Solver) send(line string) {
	if s.dump != nil {
		s.dump.WriteString(line)
		s.dump.WriteString("\n")
	}
	if !s.noAlt {
		if strings.HasPrefix(line, "(check-sat") {
			s.lastCheck = line
		}
		if line == "(reset)" {
			s.log = s.log[:0]
		} else if !strings.HasPrefix(line, "(check-sat") && !strings.HasPrefix(line, "(get-value") {
			s.log = append(s.log, line)
		}
	}
	s.in.WriteString(line)
	s.in.WriteByte('\n')
}

// fallbackKind is the second solver asked when the primary answers "unknown".
func fallbackKind(kind string) string {
	if kind == "z3" {
		return "z3-new"
	}
	return "z3"
}

// Reset starts a fresh session for the given term pool.
func (s *Solver) Reset(pool *TermPool) {
	if s.alt != nil {
		s.alt.Close()
		s.alt = nil
	}
	if s.dead {
		s.Close()
		if err := s.start(); err != nil {
			panic("cannot restart solver: " + err.Error())
		}
	}
	s.pool = pool
	s.defined = map[int]bool{}
	s.declared = map[string]bool{}
	s.send("(reset)")
	s.send("(set-option :print-success false)")
	s.send("(set-option :produce-models true)")
	if s.kind != "cvc5" {
		s.send("(set-option :timeout " + strconv.Itoa(s.timeoutMs) + ")")
	}
	s.send("(set-logic ALL)")
}

// emit sends the definitions needed for t.
func (s *Solver) emit(t *Term) {
	type item struct {
		t    *Term
		done bool
	}
	stack := []item{{t, false}}
	for len(stack) > 0 {
		it := stack[len(stack)-1]
		stack = stack[:len(stack)-1]
		x := it.t
		switch x.Op {
		case OpConst:
			continue
		case OpVar:
			if !s.declared[x.Name] {
				s.declared[x.Name] = true
				s.send("(declare-const " + x.ref() + " " + x.Sort.String() + ")")
			}
			continue
		}
		if s.defined[x.id] {
			continue
		}
		if it.done {
			if x.Op == OpUF && !s.declared["uf:"+x.Name] {
				s.declared["uf:"+x.Name] = true
				s.send(s.pool.ufs[x.Name])
			}
			s.defined[x.id] = true
			s.send("(define-fun t" + strconv.Itoa(x.id) + " () " + x.Sort.String() + " " + x.body() + ")")
			continue
		}
		stack = append(stack, item{x, true})
		for _, a := range x.Args {
			if a.Op == OpConst || (a.Op != OpVar && s.defined[a.id]) {
				continue
			}
			stack = append(stack, item{a, false})
		}
	}
}

func (s *Solver) Assert(t *Term) {
	if t.isTrue() {
		return
	}
	s.emit(t)
	s.send("(assert " + t.ref() + ")")
}

func (s *Solver) readLine() (string, error) {
	if err := s.in.Flush(); err != nil {
		return "", err
	}
	line, err := s.out.ReadString('\n')
	return strings.TrimSpace(line), err
}

// readSexp reads one balanced s-expression (possibly multi-line).
func (s *Solver) readSexp() (string, error) {
	if err := s.in.Flush(); err != nil {
		return "", err
	}
	var sb strings.Builder
	depth := 0
	started := false
	inq := false
	for {
		c, err := s.out.ReadByte()
		if err != nil {
			return sb.String(), err
		}
		sb.WriteByte(c)
		if inq {
			if c == '"' {
				inq = false
			}
			continue
		}
		switch c {
		case '"':
			inq = true
		case '(':
			depth++
			started = true
		case ')':
			depth--
			if started && depth == 0 {
				return sb.String(), nil
			}
		case '\n':
			if !started && strings.TrimSpace(sb.String()) != "" {
				return sb.String(), nil
			}
		}
	}
}

// Check asks whether the asserted constraints together with `assume`
// (may be nil) are satisfiable. Returns "sat", "unsat" or "unknown".
func (s *Solver) Check(assume *Term) string {
	t0 := time.Now()
	if s.alt != nil {
		s.alt.Close()
		s.alt = nil
	}
	res := s.check1(assume)
	if res == "unknown" && !s.noAlt && !s.dead && os.Getenv("SYMGO_NO_FALLBACK") == "" {
		res = s.askFallback()
	}
	atomic.AddInt64(&globalSolverStats.Queries, 1)
	atomic.AddInt64(&globalSolverStats.NanosSum, int64(time.Since(t0)))
	switch res {
	case "sat":
		atomic.AddInt64(&globalSolverStats.Sat, 1)
	case "unsat":
		atomic.AddInt64(&globalSolverStats.Unsat, 1)
	default:
		atomic.AddInt64(&globalSolverStats.Unknown, 1)
	}
	return res
}

// askFallback replays the session into a fresh process of the second solver and repeats the
// last query there. Its answer is used only when it is sat or unsat; a sat answer keeps the
// process alive so that GetValues reads the model from it.
func (s *Solver) askFallback() string {
	atomic.AddInt64(&globalSolverStats.FallbackAsked, 1)
	alt := &Solver{kind: fallbackKind(s.kind), timeoutMs: s.timeoutMs, noAlt: true}
	if err := alt.start(); err != nil {
		return "unknown"
	}
	alt.declared = s.declared
	alt.send("(set-option :print-success false)")
	alt.send("(set-option :produce-models true)")
	if alt.kind != "cvc5" {
		alt.send("(set-option :timeout " + strconv.Itoa(s.timeoutMs) + ")")
	}
	for _, l := range s.log {
		if strings.HasPrefix(l, "(set-option") {
			continue
		}
		alt.send(l)
	}
	alt.send(s.lastCheck)
	alt.in.Flush()
	res := alt.readAnswer()
	switch res {
	case "sat":
		atomic.AddInt64(&globalSolverStats.FallbackDecided, 1)
		s.alt = alt
		return res
	case "unsat":
		atomic.AddInt64(&globalSolverStats.FallbackDecided, 1)
	}
	alt.Close()
	return res
}

// readAnswer reads one check-sat answer (used for the fallback process).
func (s *Solver) readAnswer() string {
	sawErr := false
	for {
		line, err := s.readLine()
		if err != nil {
			return "unknown"
		}
		switch {
		case line == "sat" || line == "unsat":
			if sawErr {
				return "unknown"
			}
			return line
		case line == "unknown" || strings.HasPrefix(line, "timeout"):
			return "unknown"
		case strings.HasPrefix(line, "(error"):
			sawErr = true
		}
	}
}

func (s *Solver) check1(assume *Term) string {
	if assume != nil {
		if assume.isFalse() {
			return "unsat"
		}
		s.emit(assume)
		if assume.isTrue() {
			s.send("(check-sat)")
		} else if assume.Op == OpNot && assume.Args[0].Op != OpConst {
			s.send("(check-sat-assuming ((not " + assume.Args[0].ref() + ")))")
		} else if assume.Op == OpVar || assume.Op != OpConst {
			// need a literal: define a named boolean
			s.send("(check-sat-assuming (" + assume.ref() + "))")
		}
	} else {
		s.send("(check-sat)")
	}
	sawErr := false
	for {
		line, err := s.readLine()
		if err != nil {
			s.dead = true
			s.lastErr = "solver died: " + err.Error()
			atomic.AddInt64(&globalSolverStats.Errors, 1)
			return "unknown"
		}
		switch {
		case line == "sat" || line == "unsat":
			if sawErr {
				return "unknown"
			}
			return line
		case line == "unknown" || strings.HasPrefix(line, "timeout"):
			return "unknown"
		case strings.HasPrefix(line, "(error"):
			sawErr = true
			s.lastErr = line
			atomic.AddInt64(&globalSolverStats.Errors, 1)
			fmt.Fprintln(os.Stderr, "SOLVER ERROR:", line)
		case line == "":
		default:
			// unexpected chatter
			s.lastErr = line
		}
	}
}

// GetValues returns the model values (as bit patterns) of the pool's input variables.
// Must follow a "sat" answer.
func (s *Solver) GetValues(vars []*Term) (Model, error) {
	if s.alt != nil {
		s.alt.declared = s.declared
		return s.alt.GetValues(vars)
	}
	m := Model{}
	var names []string
	for _, v := range vars {
		if s.declared[v.Name] {
			names = append(names, v.ref())
		}
	}
	if len(names) == 0 {
		return m, nil
	}
	s.send("(get-value (" + strings.Join(names, " ") + "))")
	txt, err := s.readSexp()
	if err != nil {
		s.dead = true
		return nil, err
	}
	if strings.Contains(txt, "(error") {
		return nil, fmt.Errorf("get-value: %s", txt)
	}
	toks := tokenizeSexp(txt)
	// expected: ( ( name value ) ( name value ) ... )
	i := 0
	if i < len(toks) && toks[i] == "(" {
		i++
	}
	for i < len(toks) && toks[i] == "(" {
		i++
		name := strings.Trim(toks[i], "|")
		i++
		// value: token or s-expression
		var val []string
		if toks[i] == "(" {
			d := 0
			for {
				val = append(val, toks[i])
				if toks[i] == "(" {
					d++
				} else if toks[i] == ")" {
					d--
				}
				i++
				if d == 0 {
					break
				}
			}
		} else {
			val = []string{toks[i]}
			i++
		}
		if i < len(toks) && toks[i] == ")" {
			i++
		}
		v, ok := parseModelValue(val)
		if !ok {
			return nil, fmt.Errorf("cannot parse model value for %s: %v", name, val)
		}
		m[name] = v
	}
	return m, nil
}

func tokenizeSexp(s string) []string {
	var toks []string
	i := 0
	for i < len(s) {
		c := s[i]
		switch {
		case c == '(' || c == ')':
			toks = append(toks, string(c))
			i++
		case c == ' ' || c == '\n' || c == '\t' || c == '\r':
			i++
		case c == '|':
			j := i + 1
			for j < len(s) && s[j] != '|' {
				j++
			}
			toks = append(toks, s[i:j+1])
			i = j + 1
		default:
			j := i
			for j < len(s) && !strings.ContainsRune("() \n\t\r", rune(s[j])) {
				j++
			}
			toks = append(toks, s[i:j])
			i = j
		}
	}
	return toks
}

func parseModelValue(val []string) (uint64, bool) {
	if len(val) == 1 {
		t := val[0]
		switch {
		case t == "true":
			return 1, true
		case t == "false":
			return 0, true
		case strings.HasPrefix(t, "#x"):
			v, err := strconv.ParseUint(t[2:], 16, 64)
			return v, err == nil
		case strings.HasPrefix(t, "#b"):
			v, err := strconv.ParseUint(t[2:], 2, 64)
			return v, err == nil
		}
		return 0, false
	}
	// (_ bvN W)
	if len(val) == 5 && val[1] == "_" && strings.HasPrefix(val[2], "bv") {
		v, err := strconv.ParseUint(val[2][2:], 10, 64)
		return v, err == nil
	}
	return 0, false
}
