package main

// Externals: engine implementations of functions that cannot (or should not)
// be interpreted from SSA: the zzverif harness API, fmt, strings.Builder,
// math intrinsics, bytealg, sort.Slice, and native fast paths for pure stdlib
// functions when all arguments are concrete.

import (
	"bytes"
	"crypto/md5"
	"fmt"
	"go/token"
	"go/types"
	"math"
	"math/bits"
	"reflect"
	"strconv"
	"strings"
	"unicode"
	"unicode/utf8"

	"golang.org/x/tools/go/ssa"
)

const zzPkg = modPath + "/internal/zzverif"

func registerExternals(w *World) {
	x := w.externals
	// ---- harness API ----
	symInput := func(kind types.BasicKind) externalFn {
		return func(fr *frame, args []value) (value, bool) {
			return fr.in.newInput(args[0].(string), kind), true
		}
	}
	x[zzPkg+".Bool"] = symInput(types.Bool)
	x[zzPkg+".U8"] = symInput(types.Uint8)
	x[zzPkg+".U16"] = symInput(types.Uint16)
	x[zzPkg+".U32"] = symInput(types.Uint32)
	x[zzPkg+".U64"] = symInput(types.Uint64)
	x[zzPkg+".I8"] = symInput(types.Int8)
	x[zzPkg+".I16"] = symInput(types.Int16)
	x[zzPkg+".I32"] = symInput(types.Int32)
	x[zzPkg+".I64"] = symInput(types.Int64)
	x[zzPkg+".Int"] = symInput(types.Int)
	x[zzPkg+".Uint"] = symInput(types.Uint)
	x[zzPkg+".F32"] = symInput(types.Float32)
	x[zzPkg+".F64"] = symInput(types.Float64)
	x[zzPkg+".Choice"] = func(fr *frame, args []value) (value, bool) {
		in := fr.in
		n := asInt64(args[1])
		if n <= 0 {
			panic(pathEnd{"Choice with n<=0"})
		}
		if n == 1 {
			return int(0), true
		}
		v := in.newInput(args[0].(string), types.Int).(*Sym)
		in.path.assume(in.tp.bvCmp(OpBVUlt, v.T, in.tp.BV(uint64(n), 64)))
		return in.concretize(v, "Choice "+args[0].(string)), true
	}
	x[zzPkg+".Bytes"] = func(fr *frame, args []value) (value, bool) {
		n := int(asInt64(args[1]))
		r := make([]value, n)
		for i := range r {
			r[i] = fr.in.newInput(fmt.Sprintf("%s[%d]", args[0].(string), i), types.Uint8)
		}
		return r, true
	}
	x[zzPkg+".Str"] = func(fr *frame, args []value) (value, bool) {
		n := int(asInt64(args[1]))
		r := make([]value, n)
		for i := range r {
			r[i] = fr.in.newInput(fmt.Sprintf("%s[%d]", args[0].(string), i), types.Uint8)
		}
		return mkStr(r), true
	}
	x[zzPkg+".Assume"] = func(fr *frame, args []value) (value, bool) {
		fr.in.path.assume(fr.in.termOf(args[0]))
		return nil, true
	}
	x[zzPkg+".Assert"] = func(fr *frame, args []value) (value, bool) {
		fr.in.assert(args[0], toGoString(args[1]))
		return nil, true
	}
	x[zzPkg+".Fail"] = func(fr *frame, args []value) (value, bool) {
		fr.in.assert(false, toGoString(args[0]))
		return nil, true
	}
	x[zzPkg+".Reach"] = func(fr *frame, args []value) (value, bool) {
		fr.in.reach[args[0].(string)] = true
		return nil, true
	}
	x[zzPkg+".Note"] = func(fr *frame, args []value) (value, bool) {
		fr.in.notes[toGoString(args[0])] = toGoString(args[1])
		return nil, true
	}
	x[zzPkg+".Cell"] = func(fr *frame, args []value) (value, bool) {
		fr.in.path.cells = []string{toGoString(args[0])}
		return nil, true
	}
	x[zzPkg+".Unwind"] = func(fr *frame, args []value) (value, bool) {
		fr.in.unwind = int(asInt64(args[0]))
		return nil, true
	}
	x[zzPkg+".Bounded"] = func(fr *frame, args []value) (value, bool) {
		in := fr.in
		steps, depth := asInt64(args[0]), int(asInt64(args[1]))
		if steps <= 0 {
			in.boundSteps, in.boundDepth, in.boundMsg = 0, 0, ""
			return nil, true
		}
		in.boundSteps, in.boundDepth, in.boundMsg = in.steps+steps, in.depth+depth, toGoString(args[2])
		return nil, true
	}
	x[zzPkg+".Thorough"] = func(fr *frame, args []value) (value, bool) { return fr.in.thorough, true }
	x[zzPkg+".PanicOK"] = func(fr *frame, args []value) (value, bool) {
		fr.in.panicOK = args[0].(bool)
		return nil, true
	}
	x[zzPkg+".Havoc"] = func(fr *frame, args []value) (value, bool) {
		name := args[0].(string)
		p := args[1].(iface)
		ptr, ok := p.v.(*value)
		if !ok || ptr == nil {
			panic(unsupported{"Havoc needs a non-nil pointer"})
		}
		*ptr = fr.in.havoc(mustDeref(p.t), name, 0)
		return nil, true
	}
	x[zzPkg+".SameState"] = func(fr *frame, args []value) (value, bool) {
		a, b := args[0].(iface), args[1].(iface)
		return fr.in.mk(types.Bool, fr.in.sameState(a.v, b.v, 0)), true
	}
	x[zzPkg+".MapHandles"] = func(fr *frame, args []value) (value, bool) {
		// MapHandles(x any, typeName string, table []uint32) any
		in := fr.in
		xv := args[0].(iface)
		typeName := args[1].(string)
		if !strings.Contains(typeName, "/") {
			typeName = modPath + "/" + typeName
		}
		table := args[2].([]value)
		f := func(v value) value {
			k, _ := kindOfValue(v)
			if s, ok := v.(*Sym); ok {
				if len(table) == 0 {
					return v
				}
				// out-of-table values are left unchanged (identity), in-table ones mapped
				w := kindWidth(s.K)
				inTab := in.tp.bvCmp(OpBVUlt, s.T, in.tp.BV(uint64(len(table)), w))
				r := s.T
				for i := len(table) - 1; i >= 0; i-- {
					r = in.tp.Ite(in.tp.Eq(s.T, in.tp.BV(uint64(i), w)), in.termOf(table[i]), r)
				}
				_ = inTab
				return in.mk(k, r)
			}
			i := asInt64(v)
			if i >= 0 && int(i) < len(table) {
				return table[i]
			}
			return v
		}
		if xv.t == nil {
			return xv, true
		}
		return iface{t: xv.t, v: in.mapNamed(xv.t, xv.v, typeName, f, 0)}, true
	}
	x[zzPkg+".CheckImplementors"] = func(fr *frame, args []value) (value, bool) {
		// CheckImplementors(ifaceName string, listed []any): every implementor must be listed
		in := fr.in
		want := in.w.implementors(args[0].(string))
		have := map[string]bool{}
		for _, e := range args[1].([]value) {
			if ev, ok := e.(iface); ok && ev.t != nil {
				s := ev.t.String()
				if i := strings.LastIndex(s, "."); i >= 0 {
					s = s[i+1:]
				}
				have[s] = true
			}
		}
		var missing []string
		for _, wn := range want {
			if !have[wn] {
				missing = append(missing, wn)
			}
		}
		if len(want) == 0 {
			panic(unsupported{"CheckImplementors: interface not found: " + args[0].(string)})
		}
		if len(missing) > 0 {
			in.notes["stale-harness:"+args[0].(string)] = strings.Join(missing, ",")
			panic(unsupported{"STALE-HARNESS: kinds implementing " + args[0].(string) + " not covered by the harness: " + strings.Join(missing, ",")})
		}
		return nil, true
	}
	x[zzPkg+".AtomConcretize"] = func(fr *frame, args []value) (value, bool) {
		fr.in.atomConcretize = args[0].(bool)
		return nil, true
	}
	x[zzPkg+".Native"] = func(fr *frame, args []value) (value, bool) { return false, true }
	x[zzPkg+".IsSymbolic"] = func(fr *frame, args []value) (value, bool) {
		a := args[0].(iface)
		return anySym(a.v, nil), true
	}
	x[zzPkg+".Freeze"] = func(fr *frame, args []value) (value, bool) {
		fr.in.freeze(args[0])
		return nil, true
	}
	x[zzPkg+".FrozenWrites"] = func(fr *frame, args []value) (value, bool) {
		return len(fr.in.freezeEv), true
	}
	x[zzPkg+".MapOrder"] = func(fr *frame, args []value) (value, bool) {
		fr.in.mapOrder = args[0].(bool)
		if fr.in.mapOrder && fr.in.mapOrderBudget == 0 {
			// every range over a map with >= 2 entries becomes a decision (natural or
			// reversed order); the budget bounds the number of such decisions per path
			fr.in.mapOrderBudget = 10
		}
		return nil, true
	}
	x[zzPkg+".UF64"] = func(fr *frame, args []value) (value, bool) {
		in := fr.in
		return in.mk(types.Float64, in.tp.UF("uf_"+args[0].(string), fpSort(64), in.termOf(args[1]))), true
	}
	x[zzPkg+".UFU32"] = func(fr *frame, args []value) (value, bool) {
		in := fr.in
		var ts []*Term
		for _, a := range args[1].([]value) {
			ts = append(ts, in.termOf(a))
		}
		return in.mk(types.Uint32, in.tp.UF("uf_"+args[0].(string), bvSort(32), ts...)), true
	}
	x[zzPkg+".UFU64"] = func(fr *frame, args []value) (value, bool) {
		in := fr.in
		var ts []*Term
		for _, a := range args[1].([]value) {
			ts = append(ts, in.termOf(a))
		}
		return in.mk(types.Uint64, in.tp.UF("uf_"+args[0].(string), bvSort(64), ts...)), true
	}
	x[zzPkg+".Override"] = func(fr *frame, args []value) (value, bool) {
		name := args[0].(string)
		f := args[1].(iface)
		if f.t == nil {
			delete(fr.in.overrides, name)
			return nil, true
		}
		found := false
		for _, fn := range []string{name, modPath + "/" + name} {
			if fr.in.w.funcByName(fn) != nil {
				fr.in.overrides[fn] = f.v
				found = true
			}
		}
		if !found {
			panic(unsupported{"Override: no such function " + name})
		}
		return nil, true
	}
	x[zzPkg+".Same"] = func(fr *frame, args []value) (value, bool) {
		// Same(a, b any) bool: structural equality of two values incl. symbolic parts (bit-equality for floats)
		a, b := args[0].(iface), args[1].(iface)
		return fr.in.mk(types.Bool, fr.in.sameTerm(a.v, b.v)), true
	}
	x[zzPkg+".Eq"] = x[zzPkg+".Same"]

	// ---- strings.Builder ----
	sbBuf := func(recv value) *value {
		p := recv.(*value)
		if p == nil {
			panic(runtimePanic{"nil *strings.Builder"})
		}
		return &(*p).(structure)[1]
	}
	sbAppend := func(fr *frame, recv value, elems []value) {
		b := sbBuf(recv)
		if fr.in.frozen != nil {
			fr.in.checkFrozen(fr, b)
		}
		cur, _ := (*b).([]value)
		*b = append(cur, elems...)
	}
	x["(*strings.Builder).WriteString"] = func(fr *frame, args []value) (value, bool) {
		e := strElems(args[1])
		sbAppend(fr, args[0], e)
		n := 0
		if s, ok := args[1].(string); ok {
			n = len(s)
		}
		return tuple{n, iface{}}, true
	}
	x["(*strings.Builder).WriteByte"] = func(fr *frame, args []value) (value, bool) {
		sbAppend(fr, args[0], []value{args[1]})
		return iface{}, true
	}
	x["(*strings.Builder).WriteRune"] = func(fr *frame, args []value) (value, bool) {
		r := fr.in.concretize(args[1], "WriteRune")
		s := string(r.(rune))
		sbAppend(fr, args[0], strElems(s))
		return tuple{len(s), iface{}}, true
	}
	x["(*strings.Builder).Write"] = func(fr *frame, args []value) (value, bool) {
		e := args[1].([]value)
		sbAppend(fr, args[0], e)
		return tuple{len(e), iface{}}, true
	}
	x["(*strings.Builder).String"] = func(fr *frame, args []value) (value, bool) {
		b := sbBuf(args[0])
		cur, _ := (*b).([]value)
		return mkStr(cur), true
	}
	x["(*strings.Builder).Len"] = func(fr *frame, args []value) (value, bool) {
		b := sbBuf(args[0])
		cur, _ := (*b).([]value)
		for _, e := range cur {
			if _, ok := e.(*Atom); ok {
				panic(unsupported{"Builder.Len with numeral atoms"})
			}
		}
		return len(cur), true
	}
	x["(*strings.Builder).Cap"] = func(fr *frame, args []value) (value, bool) {
		b := sbBuf(args[0])
		cur, _ := (*b).([]value)
		return cap(cur), true
	}
	x["(*strings.Builder).Reset"] = func(fr *frame, args []value) (value, bool) {
		b := sbBuf(args[0])
		if fr.in.frozen != nil {
			fr.in.checkFrozen(fr, b)
		}
		*b = []value(nil)
		return nil, true
	}
	x["(*strings.Builder).Grow"] = func(fr *frame, args []value) (value, bool) { return nil, true }

	// ---- fmt ----
	x["fmt.Sprintf"] = func(fr *frame, args []value) (value, bool) {
		return fr.in.format(fr, args[0], args[1].([]value), nil), true
	}
	x["fmt.Errorf"] = func(fr *frame, args []value) (value, bool) {
		var wrapped []value
		s := fr.in.format(fr, args[0], args[1].([]value), &wrapped)
		return fr.in.w.mkWrapError(s, wrapped), true
	}
	x["fmt.Sprint"] = func(fr *frame, args []value) (value, bool) {
		a := args[0].([]value)
		f := strings.Repeat("%v", len(a))
		return fr.in.format(fr, f, a, nil), true
	}
	x["fmt.Sprintln"] = func(fr *frame, args []value) (value, bool) {
		a := args[0].([]value)
		f := strings.TrimSuffix(strings.Repeat("%v ", len(a)), " ") + "\n"
		return fr.in.format(fr, f, a, nil), true
	}
	x["fmt.Fprintf"] = func(fr *frame, args []value) (value, bool) {
		s := fr.in.format(fr, args[1], args[2].([]value), nil)
		return fr.in.writeTo(fr, args[0].(iface), s), true
	}
	x["fmt.Fprint"] = func(fr *frame, args []value) (value, bool) {
		a := args[1].([]value)
		s := fr.in.format(fr, strings.Repeat("%v", len(a)), a, nil)
		return fr.in.writeTo(fr, args[0].(iface), s), true
	}
	x["fmt.Fprintln"] = func(fr *frame, args []value) (value, bool) {
		a := args[1].([]value)
		f := strings.TrimSuffix(strings.Repeat("%v ", len(a)), " ") + "\n"
		s := fr.in.format(fr, f, a, nil)
		return fr.in.writeTo(fr, args[0].(iface), s), true
	}
	x["fmt.Appendf"] = func(fr *frame, args []value) (value, bool) {
		s := fr.in.format(fr, args[1], args[2].([]value), nil)
		b, _ := args[0].([]value)
		return append(b, strElems(s)...), true
	}
	x["fmt.Printf"] = func(fr *frame, args []value) (value, bool) { return tuple{0, iface{}}, true }
	x["fmt.Println"] = func(fr *frame, args []value) (value, bool) { return tuple{0, iface{}}, true }
	x["fmt.Sscanf"] = extSscanf

	// ---- errors ----
	x["errors.Is"] = func(fr *frame, args []value) (value, bool) {
		return fr.in.errorsIs(fr, args[0].(iface), args[1].(iface)), true
	}
	x["errors.Unwrap"] = func(fr *frame, args []value) (value, bool) {
		return fr.in.errorsUnwrap(fr, args[0].(iface)), true
	}

	// ---- os ----
	x["os.Getenv"] = func(fr *frame, args []value) (value, bool) { return "", true }
	x["(*os.File).Write"] = func(fr *frame, args []value) (value, bool) {
		return tuple{len(args[1].([]value)), iface{}}, true
	}
	x["(*os.File).WriteString"] = func(fr *frame, args []value) (value, bool) {
		return tuple{0, iface{}}, true
	}

	// ---- sort ----
	sortSlice := func(fr *frame, args []value) (value, bool) {
		in := fr.in
		xs := args[0].(iface).v.([]value)
		less := args[1]
		// stable insertion sort driven by the interpreted less(i,j): operate in place with swaps
		for i := 1; i < len(xs); i++ {
			for j := i; j > 0; j-- {
				if !in.truth(in.call(fr, token.NoPos, less, []value{j, j - 1})) {
					break
				}
				xs[j], xs[j-1] = xs[j-1], xs[j]
			}
		}
		return nil, true
	}
	x["sort.Slice"] = sortSlice
	x["sort.SliceStable"] = sortSlice
	x["sort.Strings"] = func(fr *frame, args []value) (value, bool) {
		xs := args[0].([]value)
		for _, e := range xs {
			if _, ok := e.(string); !ok {
				return nil, false
			}
		}
		ss := make([]string, len(xs))
		for i := range xs {
			ss[i] = xs[i].(string)
		}
		sortStrings(ss)
		for i := range xs {
			xs[i] = ss[i]
		}
		return nil, true
	}

	// ---- math ----
	registerMath(w)

	// ---- bytealg & friends (reached when strings/bytes functions are interpreted) ----
	x["internal/bytealg.IndexByteString"] = func(fr *frame, args []value) (value, bool) {
		return fr.in.indexByte(strElems(args[0]), args[1]), true
	}
	x["internal/bytealg.IndexByte"] = func(fr *frame, args []value) (value, bool) {
		return fr.in.indexByte(args[0].([]value), args[1]), true
	}
	x["internal/bytealg.CountString"] = func(fr *frame, args []value) (value, bool) {
		return fr.in.countByte(strElems(args[0]), args[1]), true
	}
	x["internal/bytealg.Count"] = func(fr *frame, args []value) (value, bool) {
		return fr.in.countByte(args[0].([]value), args[1]), true
	}
	x["internal/bytealg.Equal"] = func(fr *frame, args []value) (value, bool) {
		return fr.in.mk(types.Bool, fr.in.strEq(mkStr(args[0].([]value)), mkStr(args[1].([]value)))), true
	}
	x["internal/bytealg.IndexString"] = func(fr *frame, args []value) (value, bool) {
		return fr.in.indexSub(strElems(args[0]), strElems(args[1])), true
	}
	x["internal/bytealg.Index"] = func(fr *frame, args []value) (value, bool) {
		return fr.in.indexSub(args[0].([]value), args[1].([]value)), true
	}
	x["internal/bytealg.MakeNoZero"] = func(fr *frame, args []value) (value, bool) {
		n := int(asInt64(args[0]))
		r := make([]value, n)
		for i := range r {
			r[i] = byte(0)
		}
		return r, true
	}
	x["internal/stringslite.Index"] = func(fr *frame, args []value) (value, bool) {
		return fr.in.indexSub(strElems(args[0]), strElems(args[1])), true
	}
	x["internal/stringslite.IndexByte"] = func(fr *frame, args []value) (value, bool) {
		return fr.in.indexByte(strElems(args[0]), args[1]), true
	}
	x["strings.Index"] = func(fr *frame, args []value) (value, bool) {
		if s, ok := args[0].(string); ok {
			if t, ok := args[1].(string); ok {
				return strings.Index(s, t), true
			}
		}
		return fr.in.indexSub(strElems(args[0]), strElems(args[1])), true
	}
	x["strings.IndexByte"] = func(fr *frame, args []value) (value, bool) {
		return fr.in.indexByte(strElems(args[0]), args[1]), true
	}
	x["strings.Contains"] = func(fr *frame, args []value) (value, bool) {
		if s, ok := args[0].(string); ok {
			if t, ok := args[1].(string); ok {
				return strings.Contains(s, t), true
			}
		}
		return asInt64(fr.in.indexSub(strElems(args[0]), strElems(args[1]))) >= 0, true
	}
	x["strings.HasPrefix"] = func(fr *frame, args []value) (value, bool) {
		a, b := strElems(args[0]), strElems(args[1])
		if len(a) < len(b) {
			return false, true
		}
		return fr.in.mk(types.Bool, fr.in.strEq(mkStr(a[:len(b)]), args[1])), true
	}
	x["strings.HasSuffix"] = func(fr *frame, args []value) (value, bool) {
		a, b := strElems(args[0]), strElems(args[1])
		if len(a) < len(b) {
			return false, true
		}
		return fr.in.mk(types.Bool, fr.in.strEq(mkStr(a[len(a)-len(b):]), args[1])), true
	}
	x["strings.Join"] = func(fr *frame, args []value) (value, bool) {
		parts := args[0].([]value)
		sep := strElems(args[1])
		var e []value
		for i, p := range parts {
			if i > 0 {
				e = append(e, sep...)
			}
			e = append(e, strElems(p)...)
		}
		return mkStr(e), true
	}
	x["strings.Repeat"] = func(fr *frame, args []value) (value, bool) {
		n := int(fr.in.asInt(args[1], "strings.Repeat count"))
		if n < 0 {
			panic(targetPanic{"strings: negative Repeat count"})
		}
		s := strElems(args[0])
		if int64(n)*int64(len(s)) > fr.in.w.maxAlloc {
			panic(limitHit{"strings.Repeat result too large"})
		}
		var e []value
		for i := 0; i < n; i++ {
			e = append(e, s...)
		}
		return mkStr(e), true
	}

	// ---- crypto/md5 ----
	x["crypto/md5.Sum"] = func(fr *frame, args []value) (value, bool) {
		b, ok := concreteBytes(args[0].([]value))
		if !ok {
			panic(unsupported{"md5.Sum of symbolic data"})
		}
		s := md5.Sum(b)
		r := make(array, 16)
		for i := range r {
			r[i] = s[i]
		}
		return r, true
	}

	// ---- strings functions on symbolic ASCII strings ----
	inSet := func(in *interp, e value, cutset string) bool {
		tp := in.tp
		c := tp.Bool(false)
		t := in.termOf(e)
		for i := 0; i < len(cutset); i++ {
			c = tp.Or(c, tp.Eq(t, tp.BV(uint64(cutset[i]), 8)))
		}
		return in.decide(c, "byte in cutset")
	}
	asciiCutset := func(v value) (string, bool) {
		cs, ok := v.(string)
		if !ok {
			return "", false
		}
		for i := 0; i < len(cs); i++ {
			if cs[i] >= 0x80 {
				return "", false
			}
		}
		return cs, true
	}
	noAtoms := func(e []value) bool {
		for _, x := range e {
			if _, isAtom := x.(*Atom); isAtom {
				return false
			}
		}
		return true
	}
	x["strings.TrimRight"] = func(fr *frame, args []value) (value, bool) {
		ss, ok := args[0].(*SymStr)
		cs, ok2 := asciiCutset(args[1])
		if !ok || !ok2 || !noAtoms(ss.E) {
			return nil, false
		}
		e := ss.E
		for len(e) > 0 && inSet(fr.in, e[len(e)-1], cs) {
			e = e[:len(e)-1]
		}
		return mkStr(e), true
	}
	x["strings.TrimLeft"] = func(fr *frame, args []value) (value, bool) {
		ss, ok := args[0].(*SymStr)
		cs, ok2 := asciiCutset(args[1])
		if !ok || !ok2 || !noAtoms(ss.E) {
			return nil, false
		}
		e := ss.E
		for len(e) > 0 && inSet(fr.in, e[0], cs) {
			e = e[1:]
		}
		return mkStr(e), true
	}
	x["strings.TrimSuffix"] = func(fr *frame, args []value) (value, bool) {
		if _, isSym := args[0].(*SymStr); !isSym {
			if _, isSym2 := args[1].(*SymStr); !isSym2 {
				return nil, false
			}
		}
		a, b := strElems(args[0]), strElems(args[1])
		if len(a) >= len(b) && fr.in.truth(fr.in.mk(types.Bool, fr.in.strEq(mkStr(a[len(a)-len(b):]), mkStr(b)))) {
			return mkStr(a[:len(a)-len(b)]), true
		}
		return args[0], true
	}
	x["strings.TrimPrefix"] = func(fr *frame, args []value) (value, bool) {
		if _, isSym := args[0].(*SymStr); !isSym {
			if _, isSym2 := args[1].(*SymStr); !isSym2 {
				return nil, false
			}
		}
		a, b := strElems(args[0]), strElems(args[1])
		if len(a) >= len(b) && fr.in.truth(fr.in.mk(types.Bool, fr.in.strEq(mkStr(a[:len(b)]), mkStr(b)))) {
			return mkStr(a[len(b):]), true
		}
		return args[0], true
	}
	caseMap := func(lower bool) externalFn {
		return func(fr *frame, args []value) (value, bool) {
			ss, ok := args[0].(*SymStr)
			if !ok || !noAtoms(ss.E) {
				return nil, false
			}
			in := fr.in
			tp := in.tp
			out := make([]value, len(ss.E))
			for i, e := range ss.E {
				t := in.termOf(e)
				if !in.decide(tp.bvCmp(OpBVUlt, t, tp.BV(0x80, 8)), "ASCII byte in case mapping") {
					panic(unsupported{"strings.ToLower/ToUpper on a symbolic non-ASCII byte"})
				}
				lo, hi, delta := byte('A'), byte('Z'), uint64(32)
				if !lower {
					lo, hi, delta = 'a', 'z', uint64(0x100-32)
				}
				isLetter := tp.And(tp.bvCmp(OpBVUle, tp.BV(uint64(lo), 8), t), tp.bvCmp(OpBVUle, t, tp.BV(uint64(hi), 8)))
				out[i] = in.mk(types.Uint8, tp.Ite(isLetter, tp.bvBin(OpBVAdd, t, tp.BV(delta, 8)), t))
			}
			return mkStr(out), true
		}
	}
	x["strings.ToLower"] = caseMap(true)
	x["strings.ToUpper"] = caseMap(false)

	// ---- strconv on symbolic integers: numeral atoms ----
	atomOf := func(in *interp, v value) (value, bool) {
		sv, ok := v.(*Sym)
		if !ok || !kindInt(sv.K) {
			return nil, false
		}
		return &Atom{T: sv.T, K: sv.K, Verb: "%d"}, true
	}
	x["strconv.Itoa"] = func(fr *frame, args []value) (value, bool) {
		if a, ok := atomOf(fr.in, args[0]); ok {
			return &SymStr{E: []value{a}}, true
		}
		return nil, false
	}
	fmtInt := func(fr *frame, args []value) (value, bool) {
		if a, ok := atomOf(fr.in, args[0]); ok {
			if b, isInt := args[1].(int); !isInt || b != 10 {
				panic(unsupported{"strconv.Format* of a symbolic number in a base other than 10"})
			}
			return &SymStr{E: []value{a}}, true
		}
		return nil, false
	}
	x["strconv.FormatInt"] = fmtInt
	x["strconv.FormatUint"] = fmtInt
	appInt := func(fr *frame, args []value) (value, bool) {
		if a, ok := atomOf(fr.in, args[1]); ok {
			if b, isInt := args[2].(int); !isInt || b != 10 {
				panic(unsupported{"strconv.Append* of a symbolic number in a base other than 10"})
			}
			dst, _ := args[0].([]value)
			return append(dst, a), true
		}
		return nil, false
	}
	x["strconv.AppendInt"] = appInt
	x["strconv.AppendUint"] = appInt

	// ---- native fast paths (concrete arguments only) ----
	// strconv.ParseUint / ParseInt / Atoi on a string that is exactly one decimal numeral atom
	// read the number back (used as fallback of the native bridges below)
	parseAtom := func(signedResult bool) externalFn {
		return func(fr *frame, args []value) (value, bool) {
			in := fr.in
			ss, isSym := args[0].(*SymStr)
			if isSym && len(ss.E) > 1 {
				// a numeral atom followed / preceded by a concrete non-digit byte ("<n>u"):
				// not a number in any base-10 reading
				for _, el := range ss.E {
					if b, isByte := el.(byte); isByte && (b < '0' || b > '9') && b != '-' && b != '+' && b != '_' {
						if signedResult {
							if len(args) < 3 {
								return tuple{0, fr.in.w.mkError("strconv.Atoi: invalid syntax")}, true
							}
							return tuple{int64(0), fr.in.w.mkError("strconv.ParseInt: invalid syntax")}, true
						}
						return tuple{uint64(0), fr.in.w.mkError("strconv.ParseUint: invalid syntax")}, true
					}
				}
			}
			if !isSym || len(ss.E) != 1 {
				panic(unsupported{"strconv.Parse* on a symbolic string that is not a single numeral atom"})
			}
			at, isAtom := ss.E[0].(*Atom)
			if !isAtom || !(at.Verb == "%d" || at.Verb == "%v") || !kindInt(at.K) {
				panic(unsupported{"strconv.Parse* on a symbolic string that is not a single numeral atom"})
			}
			bits := 64
			if len(args) >= 3 {
				if b := int(asInt64(args[1])); b != 10 && b != 0 {
					panic(unsupported{"strconv.Parse* of a numeral atom with a base other than 10"})
				}
				if bs := int(asInt64(args[2])); bs != 0 {
					bits = bs
				}
			} else if signedResult {
				bits = 64 // Atoi: int
			}
			tp := in.tp
			ws := kindWidth(at.K)
			var v64 *Term
			if kindSigned(at.K) {
				v64 = tp.SignExt(64-ws, at.T)
				if !signedResult {
					// a negative numeral is a syntax error for ParseUint
					neg := tp.bvCmp(OpBVSlt, at.T, tp.BV(0, ws))
					if in.decide(neg, "ParseUint sign") {
						return tuple{uint64(0), in.w.mkError("strconv.ParseUint: invalid syntax")}, true
					}
				}
			} else {
				v64 = tp.ZeroExt(64-ws, at.T)
			}
			if bits < 64 {
				var fits *Term
				if signedResult {
					lo, hi := tp.BV(uint64(-(int64(1) << (bits - 1))), 64), tp.BV(uint64(int64(1)<<(bits-1)-1), 64)
					fits = tp.And(tp.bvCmp(OpBVSle, lo, v64), tp.bvCmp(OpBVSle, v64, hi))
				} else {
					fits = tp.bvCmp(OpBVUlt, v64, tp.BV(uint64(1)<<bits, 64))
				}
				if !in.decide(fits, "strconv.Parse* range") {
					if signedResult {
						return tuple{int64(0), in.w.mkError("strconv.ParseInt: value out of range")}, true
					}
					return tuple{uint64(0), in.w.mkError("strconv.ParseUint: value out of range")}, true
				}
			} else if signedResult && !kindSigned(at.K) && ws == 64 {
				panic(unsupported{"strconv.ParseInt of a 64-bit unsigned numeral atom"})
			}
			if signedResult {
				if len(args) < 3 { // Atoi returns int
					return tuple{in.mk(types.Int, v64), iface{}}, true
				}
				return tuple{in.mk(types.Int64, v64), iface{}}, true
			}
			return tuple{in.mk(types.Uint64, v64), iface{}}, true
		}
	}
	x["strconv.ParseUint"] = parseAtom(false)
	x["strconv.ParseInt"] = parseAtom(true)
	x["strconv.Atoi"] = parseAtom(true)
	// math/bits on symbolic operands: term-level models (the library bodies index byte tables
	// with the operand, which turns every call into 4..8 256-way selects). The models are the
	// textbook definitions: a sum of bits, a priority chain over bit positions, a bit-by-bit
	// permutation. math/bits itself is trusted; concrete operands still run the real function.
	bitsModel := func(wd int, f func(tp *TermPool, x *Term, wd int) *Term, resKind types.BasicKind) externalFn {
		return func(fr *frame, args []value) (value, bool) {
			sy, ok := args[0].(*Sym)
			if !ok {
				return nil, false
			}
			tp := fr.in.tp
			r := f(tp, sy.T, wd)
			rw := kindWidth(resKind)
			if rw > wd {
				r = tp.ZeroExt(rw-wd, r)
			}
			return &Sym{K: resKind, T: r}, true
		}
	}
	x["math/bits.OnesCount32"] = bitsModel(32, bitsOnesCount, types.Int)
	x["math/bits.OnesCount64"] = bitsModel(64, bitsOnesCount, types.Int)
	x["math/bits.Len32"] = bitsModel(32, bitsLen, types.Int)
	x["math/bits.Len64"] = bitsModel(64, bitsLen, types.Int)
	x["math/bits.LeadingZeros32"] = bitsModel(32, bitsLeadingZeros, types.Int)
	x["math/bits.LeadingZeros64"] = bitsModel(64, bitsLeadingZeros, types.Int)
	x["math/bits.TrailingZeros32"] = bitsModel(32, bitsTrailingZeros, types.Int)
	x["math/bits.TrailingZeros64"] = bitsModel(64, bitsTrailingZeros, types.Int)
	x["math/bits.Reverse32"] = bitsModel(32, bitsReverse, types.Uint32)
	x["math/bits.Reverse64"] = bitsModel(64, bitsReverse, types.Uint64)
	nat := func(name string, fn any) {
		prev := x[name]
		x[name] = nativeBridge(w, fn, prev)
	}
	nat("strings.TrimRight", strings.TrimRight)
	nat("strings.TrimLeft", strings.TrimLeft)
	nat("strings.TrimSuffix", strings.TrimSuffix)
	nat("strings.TrimPrefix", strings.TrimPrefix)
	nat("strings.TrimSpace", strings.TrimSpace)
	nat("strings.Trim", strings.Trim)
	nat("strings.ToLower", strings.ToLower)
	nat("strings.ToUpper", strings.ToUpper)
	nat("strings.Replace", strings.Replace)
	nat("strings.ReplaceAll", strings.ReplaceAll)
	nat("strings.ContainsAny", strings.ContainsAny)
	nat("strings.ContainsRune", strings.ContainsRune)
	nat("strings.Split", strings.Split)
	nat("strings.Fields", strings.Fields)
	nat("strings.LastIndex", strings.LastIndex)
	nat("strings.LastIndexByte", strings.LastIndexByte)
	nat("strings.IndexRune", strings.IndexRune)
	nat("strings.IndexAny", strings.IndexAny)
	nat("strings.EqualFold", strings.EqualFold)
	nat("strings.Count", strings.Count)
	nat("strings.Compare", strings.Compare)
	nat("strings.Title", strings.Title)
	nat("strconv.ParseFloat", strconv.ParseFloat)
	nat("strconv.ParseUint", strconv.ParseUint)
	nat("strconv.ParseInt", strconv.ParseInt)
	nat("strconv.Atoi", strconv.Atoi)
	nat("strconv.Itoa", strconv.Itoa)
	nat("strconv.FormatInt", strconv.FormatInt)
	nat("strconv.FormatUint", strconv.FormatUint)
	nat("strconv.FormatFloat", strconv.FormatFloat)
	nat("strconv.AppendInt", strconv.AppendInt)
	nat("strconv.AppendUint", strconv.AppendUint)
	nat("strconv.Quote", strconv.Quote)
	nat("unicode.IsLetter", unicode.IsLetter)
	nat("unicode.IsDigit", unicode.IsDigit)
	nat("unicode.IsSpace", unicode.IsSpace)
	nat("unicode.IsUpper", unicode.IsUpper)
	nat("unicode.IsLower", unicode.IsLower)
	nat("unicode.ToLower", unicode.ToLower)
	nat("unicode.ToUpper", unicode.ToUpper)
	nat("unicode/utf8.DecodeRuneInString", utf8.DecodeRuneInString)
	nat("unicode/utf8.DecodeRune", utf8.DecodeRune)
	nat("unicode/utf8.RuneLen", utf8.RuneLen)
	nat("unicode/utf8.ValidString", utf8.ValidString)
	nat("unicode/utf8.RuneCountInString", utf8.RuneCountInString)
	nat("math/bits.LeadingZeros32", bits.LeadingZeros32)
	nat("math/bits.LeadingZeros64", bits.LeadingZeros64)
	nat("math/bits.TrailingZeros32", bits.TrailingZeros32)
	nat("math/bits.TrailingZeros64", bits.TrailingZeros64)
	nat("math/bits.OnesCount32", bits.OnesCount32)
	nat("math/bits.OnesCount64", bits.OnesCount64)
	nat("math/bits.Reverse32", bits.Reverse32)
	nat("math/bits.Reverse64", bits.Reverse64)
	nat("math/bits.Len32", bits.Len32)
	nat("math/bits.Len64", bits.Len64)
	nat("math/bits.Len", bits.Len)
}

func sortStrings(ss []string) {
	for i := 1; i < len(ss); i++ {
		for j := i; j > 0 && ss[j] < ss[j-1]; j-- {
			ss[j], ss[j-1] = ss[j-1], ss[j]
		}
	}
}

func concreteBytes(e []value) ([]byte, bool) {
	b := make([]byte, len(e))
	for i, x := range e {
		c, ok := x.(byte)
		if !ok {
			return nil, false
		}
		b[i] = c
	}
	return b, true
}

func toGoString(v value) string {
	switch s := v.(type) {
	case string:
		return s
	case *SymStr:
		return toString(s)
	}
	return fmt.Sprint(v)
}

// newInput creates a named symbolic input of the given kind.
func (in *interp) newInput(name string, k types.BasicKind) value {
	if in.path == nil {
		panic(unsupported{"symbolic input outside a path"})
	}
	var t *Term
	switch {
	case k == types.Bool:
		t = in.tp.Var(name, sortBool)
	case kindFloat(k):
		t = in.tp.FPFromBits(in.tp.Var(name, bvSort(kindWidth(k))))
	default:
		t = in.tp.Var(name, bvSort(kindWidth(k)))
	}
	in.path.inputs = append(in.path.inputs, inputVar{name, types.Typ[k].Name()})
	return &Sym{K: k, T: t}
}

// sameTerm: structural identity of two values (floats compared by SMT equality: NaN = NaN, +0 != -0).
func (in *interp) sameTerm(a, b value) *Term {
	tp := in.tp
	switch av := a.(type) {
	case structure:
		bv, ok := b.(structure)
		if !ok || len(av) != len(bv) {
			return tp.Bool(false)
		}
		r := tp.Bool(true)
		for i := range av {
			r = tp.And(r, in.sameTerm(av[i], bv[i]))
		}
		return r
	case array:
		bv, ok := b.(array)
		if !ok || len(av) != len(bv) {
			return tp.Bool(false)
		}
		r := tp.Bool(true)
		for i := range av {
			r = tp.And(r, in.sameTerm(av[i], bv[i]))
		}
		return r
	case []value:
		bv, ok := b.([]value)
		if !ok || len(av) != len(bv) {
			return tp.Bool(false)
		}
		r := tp.Bool(true)
		for i := range av {
			r = tp.And(r, in.sameTerm(av[i], bv[i]))
		}
		return r
	case iface:
		bv, ok := b.(iface)
		if !ok {
			return tp.Bool(false)
		}
		if av.t == nil || bv.t == nil {
			return tp.Bool(av.t == nil && bv.t == nil)
		}
		if !types.Identical(av.t, bv.t) {
			return tp.Bool(false)
		}
		return in.sameTerm(av.v, bv.v)
	case *value:
		bv, ok := b.(*value)
		if !ok {
			return tp.Bool(false)
		}
		if av == nil || bv == nil {
			return tp.Bool(av == bv)
		}
		if av == bv {
			return tp.Bool(true)
		}
		return in.sameTerm(*av, *bv)
	case string, *SymStr:
		switch b.(type) {
		case string, *SymStr:
			return in.strEq(a, b)
		}
		return tp.Bool(false)
	case *Map:
		bv, ok := b.(*Map)
		return tp.Bool(ok && av == bv)
	}
	ka, ok1 := kindOfValue(a)
	kb, ok2 := kindOfValue(b)
	if ok1 && ok2 {
		if ka != kb {
			return tp.Bool(false)
		}
		return tp.Eq(in.termOf(a), in.termOf(b))
	}
	return tp.Bool(reflect.DeepEqual(a, b))
}

// assert checks a harness assertion: a feasible violation is recorded with a model.
func (in *interp) assert(c value, msg string) {
	t := in.termOf(c)
	if t.isTrue() {
		return
	}
	p := in.path
	neg := in.tp.Not(t)
	r := "sat"
	if !neg.isTrue() {
		r = p.check(neg)
	} else {
		r = p.check(in.tp.Bool(true))
	}
	switch r {
	case "unsat":
		return
	case "unknown":
		panic(unknownHit{"solver unknown on assertion: " + msg})
	}
	m, err := p.model()
	if err != nil {
		panic(unknownHit{"model extraction failed: " + err.Error()})
	}
	in.recordWitness("assert", msg, m)
	// continue under the assumption that the assertion holds
	p.assume(t)
}

func (in *interp) recordWitness(kind, msg string, m Model) {
	p := in.path
	w := &Witness{Harness: in.harness, Kind: kind, Msg: msg, Values: map[string]uint64{}, Kinds: map[string]string{},
		Decisions: decisionString(p.trace), Stack: in.stackTrace(), Cell: strings.Join(p.cells, ",")}
	for _, iv := range p.inputs {
		if _, dup := w.Kinds[iv.name]; dup {
			continue
		}
		w.Values[iv.name] = m[iv.name]
		w.Kinds[iv.name] = iv.kind
		w.Order = append(w.Order, iv.name)
	}
	in.witnesses = append(in.witnesses, w)
}

// ---- byte search helpers over possibly-symbolic elements ----

func (in *interp) indexByte(e []value, c value) value {
	for i, x := range e {
		if _, ok := x.(*Atom); ok {
			panic(unsupported{"IndexByte over atom"})
		}
		if in.truth(in.mk(types.Bool, in.tp.Eq(in.termOf(x), in.termOf(c)))) {
			return i
		}
	}
	return -1
}

func (in *interp) countByte(e []value, c value) value {
	n := 0
	for _, x := range e {
		if in.truth(in.mk(types.Bool, in.tp.Eq(in.termOf(x), in.termOf(c)))) {
			n++
		}
	}
	return n
}

func (in *interp) indexSub(s, sub []value) value {
	if len(sub) == 0 {
		return 0
	}
	for i := 0; i+len(sub) <= len(s); i++ {
		if in.truth(in.mk(types.Bool, in.strEq(mkStr(s[i:i+len(sub)]), mkStr(sub)))) {
			return i
		}
	}
	return -1
}

// decodeRuneSym decodes one rune of a symbolic string at pos by running the
// interpreted unicode/utf8.DecodeRuneInString on the suffix.
func (in *interp) decodeRuneSym(s value, pos int) (value, int) {
	e := strElems(s)
	end := pos + 4
	if end > len(e) {
		end = len(e)
	}
	sub := mkStr(e[pos:end])
	if cs, ok := sub.(string); ok {
		r, n := utf8.DecodeRuneInString(cs)
		return r, n
	}
	f := in.w.ssaPkgs["unicode/utf8"].Func("DecodeRuneInString")
	res := in.callSSAnoExt(f, []value{sub}).(tuple)
	n := int(asInt64(in.concretize(res[1], "rune size")))
	return res[0], n
}

// callSSAnoExt interprets fn's body even if an external is registered.
func (in *interp) callSSAnoExt(fn0 value, args []value) value {
	fn := fn0.(interface{ String() string })
	name := fn.String()
	in.noExt = name
	defer func() { in.noExt = "" }()
	return in.call(in.top, token.NoPos, fn0, args)
}

// ---- io.Writer plumbing ----

func (in *interp) writeTo(fr *frame, w iface, s value) value {
	if w.t == nil {
		panic(runtimePanic{"nil io.Writer"})
	}
	ts := w.t.String()
	n := 0
	if cs, ok := s.(string); ok {
		n = len(cs)
	}
	switch ts {
	case "*strings.Builder":
		in.w.externals["(*strings.Builder).WriteString"](fr, []value{w.v, s})
		return tuple{n, iface{}}
	case "*os.File":
		return tuple{n, iface{}}
	}
	// generic: prefer WriteString, else Write([]byte)
	if m := in.lookupMethodByName(w.t, "WriteString"); m != nil {
		in.call(fr, token.NoPos, m, []value{w.v, s})
		return tuple{n, iface{}}
	}
	if m := in.lookupMethodByName(w.t, "Write"); m != nil {
		if ss, ok := s.(*SymStr); ok && ss.hasAtom() {
			panic(unsupported{"writing atom string through io.Writer.Write"})
		}
		e := strElems(s)
		b := make([]value, len(e))
		copy(b, e)
		in.call(fr, token.NoPos, m, []value{w.v, b})
		return tuple{n, iface{}}
	}
	panic(unsupported{"Fprintf to writer of type " + ts})
}

// ---- errors ----

func (w *World) mkWrapError(msg value, wrapped []value) value {
	if len(wrapped) == 1 {
		if fp := w.ssaPkgs["fmt"]; fp != nil {
			if t := fp.Type("wrapError"); t != nil {
				var cell value = structure{msg, wrapped[0]}
				return iface{t: types.NewPointer(t.Type()), v: &cell}
			}
		}
	}
	return w.mkError(msg)
}

func (in *interp) errorsUnwrap(fr *frame, e iface) value {
	if e.t == nil {
		return iface{}
	}
	m := in.lookupMethodByName(e.t, "Unwrap")
	if m == nil {
		return iface{}
	}
	if m.Signature.Results().Len() != 1 {
		return iface{}
	}
	if _, ok := m.Signature.Results().At(0).Type().Underlying().(*types.Interface); !ok {
		return iface{}
	}
	r := in.call(fr, token.NoPos, m, []value{e.v})
	return r
}

func (in *interp) errorsIs(fr *frame, err, target iface) value {
	for depth := 0; depth < 64; depth++ {
		if err.t == nil {
			return target.t == nil
		}
		if target.t != nil && types.Identical(err.t, target.t) && types.Comparable(err.t) {
			if in.truth(in.equals(err.t, err.v, target.v)) {
				return true
			}
		}
		if m := in.lookupMethodByName(err.t, "Is"); m != nil {
			if in.truth(in.call(fr, token.NoPos, m, []value{err.v, target})) {
				return true
			}
		}
		nx := in.errorsUnwrap(fr, err)
		ni, ok := nx.(iface)
		if !ok || ni.t == nil {
			return false
		}
		err = ni
	}
	return false
}

// ---- native bridge ----

func nativeBridge(w *World, fn any, fallback externalFn) externalFn {
	if fn == nil {
		return nil
	}
	rv := reflect.ValueOf(fn)
	rt := rv.Type()
	return func(fr *frame, args []value) (value, bool) {
		in := make([]reflect.Value, len(args))
		for i, a := range args {
			v, ok := toNative(a, rt.In(i))
			if !ok {
				if fallback != nil {
					return fallback(fr, args)
				}
				return nil, false
			}
			in[i] = v
		}
		out := rv.Call(in)
		res := make([]value, len(out))
		for i, o := range out {
			res[i] = fromNative(w, o)
		}
		switch len(res) {
		case 0:
			return nil, true
		case 1:
			return res[0], true
		}
		return tuple(res), true
	}
}

func toNative(a value, t reflect.Type) (reflect.Value, bool) {
	switch t.Kind() {
	case reflect.String:
		s, ok := a.(string)
		if !ok {
			return reflect.Value{}, false
		}
		return reflect.ValueOf(s), true
	case reflect.Slice:
		if t.Elem().Kind() == reflect.Uint8 {
			b, ok := concreteBytes(a.([]value))
			if !ok {
				return reflect.Value{}, false
			}
			if a.([]value) == nil {
				b = nil
			}
			return reflect.ValueOf(b), true
		}
		return reflect.Value{}, false
	case reflect.Bool, reflect.Int, reflect.Int8, reflect.Int16, reflect.Int32, reflect.Int64,
		reflect.Uint, reflect.Uint8, reflect.Uint16, reflect.Uint32, reflect.Uint64, reflect.Float32, reflect.Float64:
		if isSym(a) {
			return reflect.Value{}, false
		}
		return reflect.ValueOf(a).Convert(t), true
	}
	return reflect.Value{}, false
}

func fromNative(w *World, o reflect.Value) value {
	switch o.Kind() {
	case reflect.String:
		return o.String()
	case reflect.Bool:
		return o.Bool()
	case reflect.Int:
		return int(o.Int())
	case reflect.Int8:
		return int8(o.Int())
	case reflect.Int16:
		return int16(o.Int())
	case reflect.Int32:
		return int32(o.Int())
	case reflect.Int64:
		return o.Int()
	case reflect.Uint:
		return uint(o.Uint())
	case reflect.Uint8:
		return uint8(o.Uint())
	case reflect.Uint16:
		return uint16(o.Uint())
	case reflect.Uint32:
		return uint32(o.Uint())
	case reflect.Uint64:
		return o.Uint()
	case reflect.Float32:
		return float32(o.Float())
	case reflect.Float64:
		return o.Float()
	case reflect.Slice:
		if o.IsNil() {
			return []value(nil)
		}
		r := make([]value, o.Len())
		for i := range r {
			r[i] = fromNative(w, o.Index(i))
		}
		return r
	case reflect.Interface:
		if o.IsNil() {
			return iface{}
		}
		if e, ok := o.Interface().(error); ok {
			return w.mkError(e.Error())
		}
	}
	panic(fmt.Sprintf("fromNative: unsupported kind %v", o.Kind()))
}

// ---- fmt.Sscanf model (only the "%d" form used by the lowerer) ----

func extSscanf(fr *frame, args []value) (value, bool) {
	in := fr.in
	format, ok := args[1].(string)
	if !ok || format != "%d" {
		panic(unsupported{"fmt.Sscanf with format other than %d"})
	}
	dst := args[2].([]value)
	if len(dst) != 1 {
		panic(unsupported{"fmt.Sscanf arity"})
	}
	pi := dst[0].(iface)
	ptr := pi.v.(*value)
	elemT := mustDeref(pi.t)
	k, _ := basicKindOfType(elemT)
	if ss, isSym := args[0].(*SymStr); isSym {
		// a single decimal numeral atom: Sscanf("%d") reads back the number
		if len(ss.E) == 1 {
			if at, isAtom := ss.E[0].(*Atom); isAtom && (at.Verb == "%d" || at.Verb == "%v") && kindInt(at.K) && kindInt(k) {
				tp := in.tp
				ws, wd := kindWidth(at.K), kindWidth(k)
				// value must be representable in the destination, else Sscanf reports a range error
				var fits *Term
				var conv *Term
				switch {
				case kindSigned(at.K) == kindSigned(k) && wd >= ws:
					fits = tp.Bool(true)
					if kindSigned(k) {
						conv = tp.SignExt(wd-ws, at.T)
					} else {
						conv = tp.ZeroExt(wd-ws, at.T)
					}
				case !kindSigned(at.K) && kindSigned(k) && wd > ws:
					fits = tp.Bool(true)
					conv = tp.ZeroExt(wd-ws, at.T)
				default:
					panic(unsupported{"fmt.Sscanf of a numeral atom into a narrower/differently signed destination"})
				}
				if in.decide(fits, "Sscanf range") {
					*ptr = in.mk(k, conv)
					return tuple{1, iface{}}, true
				}
				return tuple{0, in.w.mkError("value out of range")}, true
			}
		}
		panic(unsupported{"fmt.Sscanf on symbolic string"})
	}
	s, ok := args[0].(string)
	if !ok {
		panic(unsupported{"fmt.Sscanf on symbolic string"})
	}
	var n int
	var err error
	switch k {
	case types.Int:
		var v int
		n, err = fmt.Sscanf(s, "%d", &v)
		if n == 1 {
			*ptr = v
		}
	case types.Int32:
		var v int32
		n, err = fmt.Sscanf(s, "%d", &v)
		if n == 1 {
			*ptr = v
		}
	case types.Uint32:
		var v uint32
		n, err = fmt.Sscanf(s, "%d", &v)
		if n == 1 {
			*ptr = v
		}
	case types.Int64:
		var v int64
		n, err = fmt.Sscanf(s, "%d", &v)
		if n == 1 {
			*ptr = v
		}
	case types.Uint64:
		var v uint64
		n, err = fmt.Sscanf(s, "%d", &v)
		if n == 1 {
			*ptr = v
		}
	case types.Uint:
		var v uint
		n, err = fmt.Sscanf(s, "%d", &v)
		if n == 1 {
			*ptr = v
		}
	default:
		panic(unsupported{"fmt.Sscanf destination kind"})
	}
	if err != nil {
		return tuple{n, in.w.mkError(err.Error())}, true
	}
	return tuple{n, iface{}}, true
}

var _ = bytes.Equal
var _ = math.Abs

// lookupMethodByName returns the exported method of t named name, or nil.
func (in *interp) lookupMethodByName(t types.Type, name string) *ssa.Function {
	if sel := in.prog.MethodSets.MethodSet(t).Lookup(nil, name); sel == nil {
		return nil
	}
	return in.prog.LookupMethod(t, nil, name)
}
