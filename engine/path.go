package main

// Path exploration by decision-prefix re-execution.

import (
	"fmt"
	"sort"
	"strings"
	"sync"
	"time"
)

type decKind uint8

const (
	dBool decKind = iota // boolean branch
	dVal                 // concretized value
	dExcl                // (prefix tail only) pick a value not in Excl
)

type decision struct {
	K    decKind
	B    bool
	V    uint64
	Excl []uint64
	// Forced is true when the other side was proved infeasible (no sibling).
	Forced bool
}

type outcomeKind int

const (
	oOK outcomeKind = iota
	oViolation
	oPanic
	oPruned      // assumption infeasible / no more values
	oUnsupported // engine limitation
	oLimit       // unwinding / step / depth bound hit
	oUnknown     // solver unknown / error on a needed query
)

var outcomeNames = []string{"ok", "violation", "panic", "pruned", "unsupported", "limit", "unknown"}

type Witness struct {
	Harness   string            `json:"harness"`
	Kind      string            `json:"kind"` // "assert" or "panic"
	Msg       string            `json:"msg"`
	Values    map[string]uint64 `json:"values"`
	Kinds     map[string]string `json:"kinds"`
	Order     []string          `json:"order"`
	Decisions string            `json:"decisions"`
	Stack     []string          `json:"stack,omitempty"`
	Cell      string            `json:"cell,omitempty"`
}

type pathResult struct {
	kind      outcomeKind
	msg       string
	witnesses []*Witness
	decisions int
	reach     map[string]bool
	notes     map[string]string
	steps     int64
	stack     []string
	model     Model // a model of the final path condition (sampled)
	prefixLen int
	forks     map[string]int
}

// Path is the per-execution exploration state.
type Path struct {
	ex      *Explorer
	solver  *Solver
	tp      *TermPool
	prefix  []decision
	pos     int
	trace   []decision
	pending []*Term // constraints not yet sent to the solver
	npc     int
	unknown bool
	inputs  []inputVar
	cells   []string
	where   func() string
	forks   map[string]int
}

type inputVar struct {
	name string
	kind string
}

type limitHit struct{ msg string }
type pathEnd struct{ why string }
type unknownHit struct{ msg string }

func (p *Path) addConstraint(c *Term) {
	if c.isTrue() {
		return
	}
	p.pending = append(p.pending, c)
	p.npc++
}

func (p *Path) flush() {
	for _, c := range p.pending {
		p.solver.Assert(c)
	}
	p.pending = p.pending[:0]
}

func (p *Path) check(c *Term) string {
	p.flush()
	r := p.solver.Check(c)
	return r
}

// decide returns the truth value of cond on this path, forking if both are
// feasible.
func (p *Path) decide(cond *Term, why string) bool {
	if cond.IsConst() {
		return cond.C == 1
	}
	if p.pos < len(p.prefix) {
		d := p.prefix[p.pos]
		p.pos++
		if d.K != dBool {
			panic(fmt.Sprintf("decision kind mismatch during replay at %d (%s): have %d", p.pos-1, why, d.K))
		}
		p.trace = append(p.trace, d)
		if !d.Forced {
			if d.B {
				p.addConstraint(cond)
			} else {
				p.addConstraint(p.tp.Not(cond))
			}
		}
		return d.B
	}
	if len(p.trace) >= p.ex.maxDecisions {
		panic(limitHit{fmt.Sprintf("more than %d decisions on one path", p.ex.maxDecisions)})
	}
	rt := p.check(cond)
	if rt == "unknown" {
		// try the other side: if it is unsat, cond is implied
		rf := p.check(p.tp.Not(cond))
		if rf == "unsat" {
			p.trace = append(p.trace, decision{K: dBool, B: true, Forced: true})
			p.pos++
			return true
		}
		panic(unknownHit{"solver unknown on branch condition: " + why})
	}
	if rt == "unsat" {
		p.trace = append(p.trace, decision{K: dBool, B: false, Forced: true})
		p.pos++
		return false
	}
	rf := p.check(p.tp.Not(cond))
	if rf == "unknown" {
		panic(unknownHit{"solver unknown on negated branch condition: " + why})
	}
	if rf == "unsat" {
		p.trace = append(p.trace, decision{K: dBool, B: true, Forced: true})
		p.pos++
		return true
	}
	// both feasible: fork
	if p.where != nil {
		if p.forks == nil {
			p.forks = map[string]int{}
		}
		p.forks[why+" @ "+p.where()]++
	}
	sib := make([]decision, len(p.trace)+1)
	copy(sib, p.trace)
	sib[len(p.trace)] = decision{K: dBool, B: false}
	p.ex.push(sib)
	p.trace = append(p.trace, decision{K: dBool, B: true})
	p.pos++
	p.addConstraint(cond)
	return true
}

// chooseValue concretizes a bit-vector term by enumerating its feasible values.
func (p *Path) chooseValue(t *Term, why string) uint64 {
	if t.IsConst() {
		return t.C
	}
	w := t.Sort.W
	if t.Sort.K == SBool {
		if p.decide(t, why) {
			return 1
		}
		return 0
	}
	var excl []uint64
	if p.pos < len(p.prefix) {
		d := p.prefix[p.pos]
		switch d.K {
		case dVal:
			p.pos++
			p.trace = append(p.trace, d)
			if !d.Forced {
				p.addConstraint(p.tp.Eq(t, p.tp.BV(d.V, w)))
			}
			return d.V
		case dExcl:
			p.pos++
			excl = d.Excl
		default:
			panic(fmt.Sprintf("decision kind mismatch during replay at %d (%s)", p.pos, why))
		}
	} else {
		p.pos++
	}
	if len(excl) >= p.ex.maxValues {
		panic(limitHit{fmt.Sprintf("more than %d feasible values when concretizing (%s)", p.ex.maxValues, why)})
	}
	if len(p.trace) >= p.ex.maxDecisions {
		panic(limitHit{fmt.Sprintf("more than %d decisions on one path", p.ex.maxDecisions)})
	}
	ne := p.tp.Bool(true)
	for _, v := range excl {
		ne = p.tp.And(ne, p.tp.Not(p.tp.Eq(t, p.tp.BV(v, w))))
	}
	r := p.check(ne)
	if r == "unknown" {
		panic(unknownHit{"solver unknown while concretizing: " + why})
	}
	if r == "unsat" {
		panic(pathEnd{"no further value"})
	}
	// obtain the value of t: define a helper variable equal to t
	hv := p.tp.Var(fmt.Sprintf("zz!cv%d", len(p.trace)), t.Sort)
	p.addConstraint(p.tp.Eq(hv, t))
	r = p.check(ne)
	if r != "sat" {
		panic(unknownHit{"solver did not confirm value while concretizing: " + why})
	}
	m, err := p.solver.GetValues([]*Term{hv})
	if err != nil {
		panic(unknownHit{"get-value failed: " + err.Error()})
	}
	v := m[hv.Name]
	// sibling: exclude this value too
	sib := make([]decision, len(p.trace)+1)
	copy(sib, p.trace)
	ex2 := append(append([]uint64{}, excl...), v)
	sib[len(p.trace)] = decision{K: dExcl, Excl: ex2}
	p.ex.push(sib)
	p.trace = append(p.trace, decision{K: dVal, V: v})
	p.addConstraint(p.tp.Eq(t, p.tp.BV(v, w)))
	return v
}

// assume constrains the path; ends it when infeasible.
func (p *Path) assume(cond *Term) {
	if cond.isTrue() {
		return
	}
	if cond.isFalse() {
		panic(pathEnd{"assumption false"})
	}
	if p.pos < len(p.prefix) {
		p.addConstraint(cond)
		return
	}
	r := p.check(cond)
	if r == "unsat" {
		panic(pathEnd{"assumption infeasible"})
	}
	if r == "unknown" {
		panic(unknownHit{"solver unknown on assumption"})
	}
	p.addConstraint(cond)
}

func (p *Path) model() (Model, error) {
	var vars []*Term
	vars = append(vars, p.tp.vars...)
	return p.solver.GetValues(vars)
}

func decisionString(tr []decision) string {
	var sb strings.Builder
	for _, d := range tr {
		switch d.K {
		case dBool:
			if d.B {
				sb.WriteByte('1')
			} else {
				sb.WriteByte('0')
			}
		case dVal:
			fmt.Fprintf(&sb, "[%d]", d.V)
		case dExcl:
			fmt.Fprintf(&sb, "[!%d]", len(d.Excl))
		}
	}
	return sb.String()
}

// ---- Explorer: work queue and workers ----

type Explorer struct {
	mu           sync.Mutex
	cond         *sync.Cond
	stack        [][]decision
	active       int
	stop         bool
	maxDecisions int
	maxValues    int
	maxPaths     int64
	deadline     time.Time

	// results
	paths            int64
	byKind           map[outcomeKind]int64
	witnesses        []*Witness
	witnessClasses   map[string]int
	witnessesDropped int
	reach            map[string]int64
	unsupp           map[string]int64
	limits           map[string]int64
	unknowns         map[string]int64
	panics           map[string]int64
	notes            map[string]string
	samples          []map[string]any
	steps            int64
	decisions        int64
	maxDepth         int
	hitLimit         string
	stopOnViol       bool
	forkSites        map[string]int64
}

func NewExplorer() *Explorer {
	e := &Explorer{maxDecisions: 4000, maxValues: 300, maxPaths: 2000000,
		byKind: map[outcomeKind]int64{}, reach: map[string]int64{}, unsupp: map[string]int64{},
		limits: map[string]int64{}, unknowns: map[string]int64{}, panics: map[string]int64{}, notes: map[string]string{}}
	e.cond = sync.NewCond(&e.mu)
	return e
}

func (e *Explorer) push(prefix []decision) {
	e.mu.Lock()
	e.stack = append(e.stack, prefix)
	e.mu.Unlock()
	e.cond.Signal()
}

// pop blocks until work is available or everything is done.
func (e *Explorer) pop() ([]decision, bool) {
	e.mu.Lock()
	defer e.mu.Unlock()
	for {
		if e.stop {
			return nil, false
		}
		if n := len(e.stack); n > 0 {
			p := e.stack[n-1]
			e.stack = e.stack[:n-1]
			e.active++
			return p, true
		}
		if e.active == 0 {
			e.cond.Broadcast()
			return nil, false
		}
		e.cond.Wait()
	}
}

func (e *Explorer) done(r *pathResult) {
	e.mu.Lock()
	defer e.mu.Unlock()
	e.active--
	e.paths++
	e.byKind[r.kind]++
	e.steps += r.steps
	e.decisions += int64(r.decisions)
	if r.decisions > e.maxDepth {
		e.maxDepth = r.decisions
	}
	for k := range r.reach {
		e.reach[k]++
	}
	for k, v := range r.notes {
		if _, ok := e.notes[k]; !ok && len(e.notes) < 64 {
			e.notes[k] = v
		}
	}
	where := ""
	if len(r.stack) > 0 {
		where = " @ " + r.stack[0]
	}
	switch r.kind {
	case oUnsupported:
		e.unsupp[r.msg+where]++
	case oLimit:
		e.limits[r.msg+where]++
	case oUnknown:
		e.unknowns[r.msg+where]++
	case oPanic:
		e.panics[r.msg+where]++
	}
	// keep at most 3 counterexamples per (cell, message) class: thousands of inputs for the
	// same failing shape add nothing, and the classes of listed known findings must not
	// exhaust the budget of the classes that are not listed
	for _, wt := range r.witnesses {
		key := wt.Cell + "\x00" + wt.Msg
		if e.witnessClasses == nil {
			e.witnessClasses = map[string]int{}
		}
		e.witnessClasses[key]++
		if e.witnessClasses[key] <= 3 {
			e.witnesses = append(e.witnesses, wt)
		} else {
			e.witnessesDropped++
		}
	}
	for k, v := range r.forks {
		if e.forkSites == nil {
			e.forkSites = map[string]int64{}
		}
		e.forkSites[k] += int64(v)
	}
	if e.stopOnViol {
		// the vacuity-twin run stops at the first path that reaches the appended assertion;
		// violations of the harness's own assertions (known findings, say) do not end it
		for _, wt := range r.witnesses {
			if wt.Msg == "vacuity twin" {
				e.stop = true
			}
		}
	}
	if len(e.witnessClasses) >= 40 {
		// enough distinct counterexample classes: exploring (and replaying) more adds nothing
		e.stop = true
		e.hitLimit = "stopped after 40 classes of counterexamples"
	}
	if r.model != nil && len(e.samples) < 8 {
		s := map[string]any{"outcome": outcomeNames[r.kind], "decisions": r.decisions}
		keys := make([]string, 0, len(r.model))
		for k := range r.model {
			if !strings.HasPrefix(k, "zz!") {
				keys = append(keys, k)
			}
		}
		sort.Strings(keys)
		vals := map[string]string{}
		for _, k := range keys {
			vals[k] = fmt.Sprintf("0x%x", r.model[k])
		}
		s["inputs"] = vals
		e.samples = append(e.samples, s)
	}
	if e.paths >= e.maxPaths {
		e.stop = true
		e.hitLimit = fmt.Sprintf("path limit %d reached", e.maxPaths)
	}
	if !e.deadline.IsZero() && time.Now().After(e.deadline) {
		e.stop = true
		e.hitLimit = "wall-clock limit reached"
	}
	if e.active == 0 && len(e.stack) == 0 {
		e.cond.Broadcast()
	} else if e.stop {
		e.cond.Broadcast()
	}
}
