package main

// fmt-style formatting over interpreter values. Concrete arguments are
// formatted by the real fmt package after conversion to native values
// (interpreted String()/Error() methods are evaluated first); symbolic
// integer arguments become numeral atoms.

import (
	"fmt"
	"go/token"
	"go/types"
	"strings"
)

type fmtVerb struct {
	spec string // e.g. "%08x"
	verb byte
}

// parseFormat splits a format string into literal text and verbs.
func parseFormat(f string) (lits []string, verbs []fmtVerb) {
	var cur strings.Builder
	i := 0
	for i < len(f) {
		c := f[i]
		if c != '%' {
			cur.WriteByte(c)
			i++
			continue
		}
		if i+1 < len(f) && f[i+1] == '%' {
			cur.WriteByte('%')
			i += 2
			continue
		}
		j := i + 1
		for j < len(f) && strings.IndexByte("+-# 0123456789.*[]", f[j]) >= 0 {
			j++
		}
		if j >= len(f) {
			cur.WriteString(f[i:])
			break
		}
		lits = append(lits, cur.String())
		cur.Reset()
		verbs = append(verbs, fmtVerb{spec: f[i : j+1], verb: f[j]})
		i = j + 1
	}
	lits = append(lits, cur.String())
	return
}

func (in *interp) format(fr *frame, f value, args []value, wrapped *[]value) value {
	fs, ok := f.(string)
	if !ok {
		panic(unsupported{"symbolic format string"})
	}
	lits, verbs := parseFormat(fs)
	var out []value
	addStr := func(s string) {
		for i := 0; i < len(s); i++ {
			out = append(out, s[i])
		}
	}
	ai := 0
	for vi, vb := range verbs {
		addStr(lits[vi])
		if strings.ContainsAny(vb.spec, "*[") {
			panic(unsupported{"fmt verb with * or explicit index: " + vb.spec})
		}
		if ai >= len(args) {
			addStr("%!" + string(vb.verb) + "(MISSING)")
			continue
		}
		arg := args[ai]
		ai++
		a, _ := arg.(iface)
		if vb.verb == 'w' {
			if wrapped != nil {
				*wrapped = append(*wrapped, arg)
			}
			vb = fmtVerb{spec: strings.Replace(vb.spec, "w", "v", 1), verb: 'v'}
		}
		out = append(out, in.formatArg(fr, vb, a)...)
	}
	addStr(lits[len(lits)-1])
	if ai < len(args) {
		addStr("%!(EXTRA)")
	}
	return mkStr(out)
}

func (in *interp) formatArg(fr *frame, vb fmtVerb, a iface) []value {
	if a.t == nil {
		return strElems(fmt.Sprintf(vb.spec, nil))
	}
	// Error() / String() methods take precedence for %v %s %q
	if vb.verb == 'v' || vb.verb == 's' || vb.verb == 'q' {
		if !strings.Contains(vb.spec, "#") {
			for _, mname := range []string{"Error", "String"} {
				if sel := in.prog.MethodSets.MethodSet(a.t).Lookup(nil, mname); sel == nil {
					continue
				}
				if m := in.prog.LookupMethod(a.t, nil, mname); m != nil {
					sig := m.Signature
					if sig.Params().Len() == 0 && sig.Results().Len() == 1 {
						if b, ok := sig.Results().At(0).Type().Underlying().(*types.Basic); ok && b.Kind() == types.String {
							if p, isPtr := a.v.(*value); isPtr && p == nil {
								return strElems("<nil>")
							}
							s := in.call(fr, token.NoPos, m, []value{a.v})
							if cs, ok := s.(string); ok {
								return strElems(fmt.Sprintf(vb.spec, cs))
							}
							return strElems(s)
						}
					}
				}
			}
		}
	}
	switch v := a.v.(type) {
	case *Sym:
		if v.K == types.Bool {
			b := in.truth(v)
			return strElems(fmt.Sprintf(vb.spec, b))
		}
		if digits, ok := in.fixedHex(vb, v); ok {
			return digits
		}
		return []value{&Atom{T: v.T, K: v.K, Verb: vb.spec}}
	case *SymStr:
		if vb.spec == "%s" || vb.spec == "%v" {
			return v.E
		}
		if vb.spec == "%q" {
			r := []value{byte('"')}
			r = append(r, v.E...)
			return append(r, byte('"'))
		}
		panic(unsupported{"formatting symbolic string with " + vb.spec})
	}
	n, ok := in.toNativeAny(a.t, a.v, 0)
	if !ok {
		return strElems("<" + a.t.String() + ">")
	}
	return strElems(fmt.Sprintf(vb.spec, n))
}

// toNativeAny converts an interpreter value into a native Go value whose fmt
// rendering is close to what the real program prints. Struct values lose their
// field names (only used for diagnostics text).
func (in *interp) toNativeAny(t types.Type, v value, depth int) (any, bool) {
	if depth > 4 {
		return "...", true
	}
	switch x := v.(type) {
	case bool, int, int8, int16, int32, int64, uint, uint8, uint16, uint32, uint64, uintptr, float32, float64, string, complex64, complex128:
		return x, true
	case *Sym, *SymStr:
		return toString(x), true
	case []value:
		var et types.Type
		if t != nil {
			if st, ok := t.Underlying().(*types.Slice); ok {
				et = st.Elem()
			}
		}
		if et != nil {
			if b, ok := et.Underlying().(*types.Basic); ok && b.Kind() == types.Uint8 {
				if bs, ok := concreteBytes(x); ok {
					return bs, true
				}
			}
			if b, ok := et.Underlying().(*types.Basic); ok && b.Kind() == types.String {
				r := make([]string, len(x))
				for i, e := range x {
					s, ok := e.(string)
					if !ok {
						return nil, false
					}
					r[i] = s
				}
				return r, true
			}
		}
		r := make([]any, len(x))
		for i, e := range x {
			n, ok := in.toNativeAny(et, e, depth+1)
			if !ok {
				return nil, false
			}
			r[i] = n
		}
		return r, true
	case array:
		r := make([]any, len(x))
		for i, e := range x {
			n, ok := in.toNativeAny(nil, e, depth+1)
			if !ok {
				return nil, false
			}
			r[i] = n
		}
		return r, true
	case structure:
		r := make([]any, len(x))
		for i, e := range x {
			n, ok := in.toNativeAny(nil, e, depth+1)
			if !ok {
				return nil, false
			}
			r[i] = n
		}
		return r, true
	case iface:
		if x.t == nil {
			return nil, true
		}
		return in.toNativeAny(x.t, x.v, depth+1)
	case *value:
		if x == nil {
			return nil, true
		}
		return fmt.Sprintf("%p", x), true
	case *Map:
		return fmt.Sprintf("map[%d entries]", x.Len()), true
	}
	return nil, false
}

// fixedHex renders %0Nx / %0NX of a symbolic integer as N symbolic hex-digit bytes when the
// value is known (on this path) to fit in N digits.
func (in *interp) fixedHex(vb fmtVerb, v *Sym) ([]value, bool) {
	if (vb.verb != 'x' && vb.verb != 'X') || len(vb.spec) != 4 || vb.spec[1] != '0' || vb.spec[2] < '1' || vb.spec[2] > '8' || !kindInt(v.K) {
		return nil, false
	}
	n := int(vb.spec[2] - '0')
	tp := in.tp
	w := kindWidth(v.K)
	if 4*n < w {
		fits := tp.bvCmp(OpBVUlt, v.T, tp.BV(uint64(1)<<uint(4*n), w))
		if !in.decide(fits, "value fits in the fixed hex width") {
			return nil, false
		}
	}
	out := make([]value, n)
	for i := 0; i < n; i++ {
		sh := 4 * (n - 1 - i)
		var nib *Term
		if sh+3 < w {
			nib = tp.Extract(sh+3, sh, v.T)
		} else {
			nib = tp.BV(0, 4)
		}
		n8 := tp.ZeroExt(4, nib)
		base := uint64('a' - 10)
		if vb.verb == 'X' {
			base = 'A' - 10
		}
		isDigit := tp.bvCmp(OpBVUlt, n8, tp.BV(10, 8))
		out[i] = in.mk(types.Uint8, tp.Ite(isDigit, tp.bvBin(OpBVAdd, n8, tp.BV('0', 8)), tp.bvBin(OpBVAdd, n8, tp.BV(base, 8))))
	}
	return out, true
}
