package main

// Value model: the boxed representation of golang.org/x/tools/go/ssa/interp
// (bool, sized ints, floats, string, []value, structure, array, *value, iface,
// closures, tuples) extended with symbolic scalars (*Sym), strings/byte
// sequences with symbolic elements (*SymStr) and an insertion-ordered map
// (*Map) that supports symbolic keys.

import (
	"bytes"
	"fmt"
	"go/types"
	"math"
	"strings"
	"unsafe"

	"golang.org/x/tools/go/ssa"
)

type value = any

type tuple []value
type array []value
type structure []value

type iface struct {
	t types.Type // never an "untyped" type
	v value
}

type closure struct {
	Fn  *ssa.Function
	Env []value
}

type bad struct{}

// iter is implemented by range iterators over maps and strings.
type iter interface {
	next(in *interp) tuple
}

// Sym is a symbolic scalar of Go basic kind K.
type Sym struct {
	K types.BasicKind
	T *Term
}

// Atom is a string element standing for the textual rendering of a symbolic
// number (e.g. decimal digits of T). Its length is unknown.
type Atom struct {
	T    *Term
	K    types.BasicKind
	Verb string
}

// SymStr is a string with at least one symbolic element. Elements are
// byte, *Sym (Uint8) or *Atom.
type SymStr struct {
	E []value
}

func (s *SymStr) hasAtom() bool {
	for _, e := range s.E {
		if _, ok := e.(*Atom); ok {
			return true
		}
	}
	return false
}

func isSym(v value) bool {
	_, ok := v.(*Sym)
	return ok
}

func mustDeref(t types.Type) types.Type {
	if p, ok := t.Underlying().(*types.Pointer); ok {
		return p.Elem()
	}
	panic(fmt.Sprintf("mustDeref: not a pointer: %v", t))
}

// ---- kinds ----

func kindWidth(k types.BasicKind) int {
	switch k {
	case types.Bool:
		return 1
	case types.Int8, types.Uint8:
		return 8
	case types.Int16, types.Uint16:
		return 16
	case types.Int32, types.Uint32, types.Float32:
		return 32
	case types.Int, types.Uint, types.Int64, types.Uint64, types.Uintptr, types.Float64:
		return 64
	}
	panic(fmt.Sprintf("kindWidth: %v", k))
}

func kindSigned(k types.BasicKind) bool {
	switch k {
	case types.Int, types.Int8, types.Int16, types.Int32, types.Int64:
		return true
	}
	return false
}

func kindFloat(k types.BasicKind) bool { return k == types.Float32 || k == types.Float64 }
func kindInt(k types.BasicKind) bool {
	switch k {
	case types.Int, types.Int8, types.Int16, types.Int32, types.Int64,
		types.Uint, types.Uint8, types.Uint16, types.Uint32, types.Uint64, types.Uintptr:
		return true
	}
	return false
}

func kindSort(k types.BasicKind) Sort {
	switch {
	case k == types.Bool:
		return sortBool
	case kindFloat(k):
		return fpSort(kindWidth(k))
	}
	return bvSort(kindWidth(k))
}

// kindOfValue returns the basic kind of a scalar value (concrete or symbolic).
func kindOfValue(v value) (types.BasicKind, bool) {
	switch v := v.(type) {
	case *Sym:
		return v.K, true
	case bool:
		return types.Bool, true
	case int:
		return types.Int, true
	case int8:
		return types.Int8, true
	case int16:
		return types.Int16, true
	case int32:
		return types.Int32, true
	case int64:
		return types.Int64, true
	case uint:
		return types.Uint, true
	case uint8:
		return types.Uint8, true
	case uint16:
		return types.Uint16, true
	case uint32:
		return types.Uint32, true
	case uint64:
		return types.Uint64, true
	case uintptr:
		return types.Uintptr, true
	case float32:
		return types.Float32, true
	case float64:
		return types.Float64, true
	}
	return 0, false
}

// bitsOfConcrete returns the bit pattern of a concrete scalar.
func bitsOfConcrete(v value) uint64 {
	switch v := v.(type) {
	case bool:
		if v {
			return 1
		}
		return 0
	case int:
		return uint64(v)
	case int8:
		return uint64(uint8(v))
	case int16:
		return uint64(uint16(v))
	case int32:
		return uint64(uint32(v))
	case int64:
		return uint64(v)
	case uint:
		return uint64(v)
	case uint8:
		return uint64(v)
	case uint16:
		return uint64(v)
	case uint32:
		return uint64(v)
	case uint64:
		return v
	case uintptr:
		return uint64(v)
	case float32:
		return uint64(math.Float32bits(v))
	case float64:
		return math.Float64bits(v)
	}
	panic(fmt.Sprintf("bitsOfConcrete: %T", v))
}

// concreteOfBits builds a native scalar of kind k from a bit pattern.
func concreteOfBits(k types.BasicKind, b uint64) value {
	switch k {
	case types.Bool:
		return b&1 == 1
	case types.Int:
		return int(b)
	case types.Int8:
		return int8(b)
	case types.Int16:
		return int16(b)
	case types.Int32:
		return int32(b)
	case types.Int64:
		return int64(b)
	case types.Uint:
		return uint(b)
	case types.Uint8:
		return uint8(b)
	case types.Uint16:
		return uint16(b)
	case types.Uint32:
		return uint32(b)
	case types.Uint64:
		return b
	case types.Uintptr:
		return uintptr(b)
	case types.Float32:
		return math.Float32frombits(uint32(b))
	case types.Float64:
		return math.Float64frombits(b)
	}
	panic(fmt.Sprintf("concreteOfBits: kind %v", k))
}

// termOf converts a scalar value to a term.
func (in *interp) termOf(v value) *Term {
	if s, ok := v.(*Sym); ok {
		return s.T
	}
	k, ok := kindOfValue(v)
	if !ok {
		panic(unsupported{fmt.Sprintf("termOf: not a scalar: %T", v)})
	}
	b := bitsOfConcrete(v)
	switch {
	case k == types.Bool:
		return in.tp.Bool(b == 1)
	case kindFloat(k):
		return in.tp.FPBits(b, kindWidth(k))
	}
	return in.tp.BV(b, kindWidth(k))
}

// mk wraps a term as a value of kind k, folding constants to native values.
func (in *interp) mk(k types.BasicKind, t *Term) value {
	if t.Sort != kindSort(k) {
		panic(fmt.Sprintf("mk: sort %v does not match kind %v", t.Sort, k))
	}
	if t.IsConst() {
		return concreteOfBits(k, t.C)
	}
	return &Sym{K: k, T: t}
}

func basicKindOfType(t types.Type) (types.BasicKind, bool) {
	b, ok := t.Underlying().(*types.Basic)
	if !ok {
		return 0, false
	}
	k := b.Kind()
	switch k {
	case types.UntypedBool:
		k = types.Bool
	case types.UntypedInt:
		k = types.Int
	case types.UntypedRune:
		k = types.Int32
	case types.UntypedFloat:
		k = types.Float64
	}
	return k, true
}

// ---- strings ----

// strElems returns the elements of a string value.
func strElems(v value) []value {
	switch s := v.(type) {
	case string:
		e := make([]value, len(s))
		for i := 0; i < len(s); i++ {
			e[i] = s[i]
		}
		return e
	case *SymStr:
		return s.E
	}
	panic(fmt.Sprintf("strElems: %T", v))
}

// mkStr builds a string value from elements, returning a Go string when all
// elements are concrete bytes.
func mkStr(e []value) value {
	allc := true
	for _, x := range e {
		if _, ok := x.(byte); !ok {
			allc = false
			break
		}
	}
	if allc {
		b := make([]byte, len(e))
		for i, x := range e {
			b[i] = x.(byte)
		}
		return string(b)
	}
	cp := make([]value, len(e))
	copy(cp, e)
	return &SymStr{E: cp}
}

func strLen(in *interp, v value) int {
	switch s := v.(type) {
	case string:
		return len(s)
	case *SymStr:
		if s.hasAtom() {
			panic(unsupported{"len of string containing a numeral atom"})
		}
		return len(s.E)
	}
	panic(fmt.Sprintf("strLen: %T", v))
}

// ---- maps ----

type Map struct {
	keyT   types.Type
	keys   []value
	vals   []value
	live   []bool
	n      int
	idx    map[any]int // concrete key -> slot
	symKey int         // number of live symbolic keys
}

func newMap(kt types.Type) *Map {
	return &Map{keyT: kt, idx: map[any]int{}}
}

// hashKey returns a comparable Go value representing a concrete key, or
// ok=false if the key contains symbolic parts.
func hashKey(v value) (any, bool) {
	switch v := v.(type) {
	case bool, int, int8, int16, int32, int64, uint, uint8, uint16, uint32, uint64, uintptr, string, *value:
		return v, true
	case float32:
		if v != v {
			return nil, false
		}
		return v, true
	case float64:
		if v != v {
			return nil, false
		}
		return v, true
	case *Sym, *SymStr:
		return nil, false
	case structure:
		var sb strings.Builder
		sb.WriteString("{")
		for _, f := range v {
			k, ok := hashKey(f)
			if !ok {
				return nil, false
			}
			fmt.Fprintf(&sb, "%T:%v;", k, k)
		}
		sb.WriteString("}")
		return sb.String(), true
	case array:
		var sb strings.Builder
		sb.WriteString("[")
		for _, f := range v {
			k, ok := hashKey(f)
			if !ok {
				return nil, false
			}
			fmt.Fprintf(&sb, "%T:%v;", k, k)
		}
		sb.WriteString("]")
		return sb.String(), true
	case iface:
		if v.t == nil {
			return "iface(nil)", true
		}
		k, ok := hashKey(v.v)
		if !ok {
			return nil, false
		}
		return fmt.Sprintf("iface(%s|%T:%v)", v.t.String(), k, k), true
	case *Map:
		return v, true
	case *ssa.Function:
		return v, true
	case *closure:
		return v, true
	case unsafe.Pointer:
		return v, true
	}
	panic(fmt.Sprintf("hashKey: unhashable %T", v))
}

func (m *Map) Len() int {
	if m == nil {
		return 0
	}
	return m.n
}

// find returns the slot of key k, or -1. May fork on symbolic equality.
func (m *Map) find(in *interp, k value) int {
	if m == nil {
		return -1
	}
	hk, conc := hashKey(k)
	if conc {
		if s, ok := m.idx[hk]; ok {
			return s
		}
		if m.symKey == 0 {
			return -1
		}
	}
	for s := range m.keys {
		if !m.live[s] {
			continue
		}
		if conc {
			if _, kc := hashKey(m.keys[s]); kc {
				continue // concrete vs concrete already settled by idx
			}
		}
		if in.truth(in.equals(m.keyT, k, m.keys[s])) {
			return s
		}
	}
	return -1
}

func (m *Map) lookup(in *interp, k value) (value, bool) {
	s := m.find(in, k)
	if s < 0 {
		return nil, false
	}
	return m.vals[s], true
}

func (m *Map) insert(in *interp, k, v value) {
	s := m.find(in, k)
	if s >= 0 {
		m.vals[s] = v
		return
	}
	m.keys = append(m.keys, k)
	m.vals = append(m.vals, v)
	m.live = append(m.live, true)
	m.n++
	if hk, conc := hashKey(k); conc {
		m.idx[hk] = len(m.keys) - 1
	} else {
		m.symKey++
	}
}

func (m *Map) delete(in *interp, k value) {
	s := m.find(in, k)
	if s < 0 {
		return
	}
	m.live[s] = false
	m.n--
	if hk, conc := hashKey(m.keys[s]); conc {
		delete(m.idx, hk)
	} else {
		m.symKey--
	}
}

type mapIter struct {
	m     *Map
	order []int
	pos   int
}

func (it *mapIter) next(in *interp) tuple {
	for it.pos < len(it.order) {
		s := it.order[it.pos]
		it.pos++
		if s < len(it.m.live) && it.m.live[s] {
			return tuple{true, it.m.keys[s], it.m.vals[s]}
		}
	}
	return tuple{false, nil, nil}
}

type stringIter struct {
	s   value
	pos int
}

func (it *stringIter) next(in *interp) tuple {
	n := strLen(in, it.s)
	if it.pos >= n {
		return tuple{false, nil, nil}
	}
	if s, ok := it.s.(string); ok {
		r, sz := decodeRuneConcrete(s[it.pos:])
		t := tuple{true, it.pos, r}
		it.pos += sz
		return t
	}
	// symbolic string: decode through the interpreted utf8 package
	r, sz := in.decodeRuneSym(it.s, it.pos)
	t := tuple{true, it.pos, r}
	it.pos += sz
	return t
}

func decodeRuneConcrete(s string) (rune, int) {
	for i, r := range s {
		_ = i
		n := len(string(r))
		if r == 0xFFFD {
			// may be an invalid encoding of width 1 or a real U+FFFD
			if len(s) >= 3 && s[0] == 0xEF && s[1] == 0xBF && s[2] == 0xBD {
				return r, 3
			}
			return r, 1
		}
		return r, n
	}
	return 0xFFFD, 1
}

// ---- load / store with struct and array copy semantics ----

func load(T types.Type, addr *value) value {
	switch T := T.Underlying().(type) {
	case *types.Struct:
		v := (*addr).(structure)
		a := make(structure, len(v))
		for i := range a {
			a[i] = load(T.Field(i).Type(), &v[i])
		}
		return a
	case *types.Array:
		v := (*addr).(array)
		a := make(array, len(v))
		for i := range a {
			a[i] = load(T.Elem(), &v[i])
		}
		return a
	default:
		return *addr
	}
}

func store(T types.Type, addr *value, v value) {
	switch T := T.Underlying().(type) {
	case *types.Struct:
		lhs := (*addr).(structure)
		rhs := v.(structure)
		for i := range lhs {
			store(T.Field(i).Type(), &lhs[i], rhs[i])
		}
	case *types.Array:
		lhs := (*addr).(array)
		rhs := v.(array)
		for i := range lhs {
			store(T.Elem(), &lhs[i], rhs[i])
		}
	default:
		*addr = v
	}
}

// copyVal makes an unaliased copy of a struct/array value (other values are immutable or references).
func copyVal(v value) value {
	switch v := v.(type) {
	case structure:
		a := make(structure, len(v))
		for i := range v {
			a[i] = copyVal(v[i])
		}
		return a
	case array:
		a := make(array, len(v))
		for i := range v {
			a[i] = copyVal(v[i])
		}
		return a
	}
	return v
}

// ---- printing ----

func writeValue(buf *bytes.Buffer, v value) {
	switch v := v.(type) {
	case nil, bool, int, int8, int16, int32, int64, uint, uint8, uint16, uint32, uint64, uintptr, float32, float64, complex64, complex128, string:
		fmt.Fprintf(buf, "%v", v)
	case *Sym:
		fmt.Fprintf(buf, "<sym %s t%d>", types.Typ[v.K].Name(), v.T.id)
	case *SymStr:
		buf.WriteString("\"")
		for _, e := range v.E {
			switch e := e.(type) {
			case byte:
				buf.WriteByte(e)
			case *Sym:
				fmt.Fprintf(buf, "<b%d>", e.T.id)
			case *Atom:
				fmt.Fprintf(buf, "<atom%d>", e.T.id)
			}
		}
		buf.WriteString("\"")
	case *Map:
		buf.WriteString("map[")
		if v != nil {
			sep := ""
			for s := range v.keys {
				if !v.live[s] {
					continue
				}
				buf.WriteString(sep)
				sep = " "
				writeValue(buf, v.keys[s])
				buf.WriteString(":")
				writeValue(buf, v.vals[s])
			}
		}
		buf.WriteString("]")
	case *value:
		if v == nil {
			buf.WriteString("<nil>")
		} else {
			fmt.Fprintf(buf, "%p", v)
		}
	case iface:
		fmt.Fprintf(buf, "(%s, ", v.t)
		writeValue(buf, v.v)
		buf.WriteString(")")
	case structure:
		buf.WriteString("{")
		for i, e := range v {
			if i > 0 {
				buf.WriteString(" ")
			}
			writeValue(buf, e)
		}
		buf.WriteString("}")
	case array:
		buf.WriteString("[")
		for i, e := range v {
			if i > 0 {
				buf.WriteString(" ")
			}
			writeValue(buf, e)
		}
		buf.WriteString("]")
	case []value:
		buf.WriteString("[")
		for i, e := range v {
			if i > 0 {
				buf.WriteString(" ")
			}
			writeValue(buf, e)
		}
		buf.WriteString("]")
	case *ssa.Function, *ssa.Builtin, *closure:
		fmt.Fprintf(buf, "%p", v)
	case tuple:
		buf.WriteString("(")
		for i, e := range v {
			if i > 0 {
				buf.WriteString(", ")
			}
			writeValue(buf, e)
		}
		buf.WriteString(")")
	default:
		fmt.Fprintf(buf, "<%T>", v)
	}
}

func toString(v value) string {
	var b bytes.Buffer
	writeValue(&b, v)
	return b.String()
}
