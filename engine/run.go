package main

// Running one harness: workers, per-path execution, result aggregation.

import (
	"fmt"
	"os"
	"runtime/debug"
	"sort"
	"strings"
	"sync"
	"sync/atomic"
	"time"

	"golang.org/x/tools/go/ssa"
)

type HarnessResult struct {
	Name        string            `json:"name"`
	Paths       int64             `json:"paths"`
	Outcomes    map[string]int64  `json:"outcomes"`
	Decisions   int64             `json:"decisions"`
	MaxDepth    int               `json:"max_decisions_on_a_path"`
	Steps       int64             `json:"ssa_instructions_executed"`
	Reach       map[string]int64  `json:"reach"`
	Unsupported map[string]int64  `json:"unsupported,omitempty"`
	Limits      map[string]int64  `json:"limits,omitempty"`
	Unknowns    map[string]int64  `json:"unknowns,omitempty"`
	Panics      map[string]int64  `json:"panics,omitempty"`
	Notes       map[string]string `json:"notes,omitempty"`
	Witnesses   []*Witness        `json:"witnesses,omitempty"`
	Samples     []map[string]any  `json:"samples,omitempty"`
	SymFuncs    []string          `json:"functions_with_symbolic_operands"`
	WallS       float64           `json:"wall_s"`
	HitLimit    string            `json:"hit_limit,omitempty"`
	Vacuous     []string          `json:"vacuous,omitempty"`
	TwinOK      bool              `json:"vacuity_twin_violated"`
	Inconcl     bool              `json:"inconclusive"`
}

type RunConfig struct {
	Workers     int
	TimeoutMs   int
	Solver      string
	Thorough    bool
	MaxPaths    int64
	WallLimit   time.Duration
	PanicIsViol bool
	StopOnViol  bool
	Seed        int64
}

// runHarness explores all paths of harness function fn.
func runHarness(w *World, fn *ssa.Function, cfg RunConfig, twin bool) *HarnessResult {
	t0 := time.Now()
	ex := NewExplorer()
	if cfg.MaxPaths > 0 {
		ex.maxPaths = cfg.MaxPaths
	}
	if cfg.WallLimit > 0 {
		ex.deadline = t0.Add(cfg.WallLimit)
	}
	ex.stopOnViol = cfg.StopOnViol
	ex.push(nil)
	var wg sync.WaitGroup
	var symMu sync.Mutex
	symFuncs := map[string]bool{}
	var sampleBudget int32 = 8
	for i := 0; i < cfg.Workers; i++ {
		wg.Add(1)
		go func() {
			defer wg.Done()
			s, err := NewSolver(cfg.Solver, cfg.TimeoutMs)
			if err != nil {
				fmt.Fprintln(os.Stderr, "cannot start solver:", err)
				return
			}
			defer s.Close()
			for {
				prefix, ok := ex.pop()
				if !ok {
					return
				}
				wantSample := atomic.AddInt32(&sampleBudget, -1) >= 0
				r, sc := runPath(w, fn, ex, s, prefix, cfg, twin, wantSample)
				symMu.Lock()
				for k := range sc {
					symFuncs[k] = true
				}
				symMu.Unlock()
				ex.done(r)
			}
		}()
	}
	wg.Wait()
	hr := &HarnessResult{Name: fn.String(), Paths: ex.paths, Outcomes: map[string]int64{}, Decisions: ex.decisions, MaxDepth: ex.maxDepth,
		Steps: ex.steps, Reach: ex.reach, Unsupported: ex.unsupp, Limits: ex.limits, Unknowns: ex.unknowns, Panics: ex.panics,
		Notes: ex.notes, Witnesses: ex.witnesses, Samples: ex.samples, WallS: time.Since(t0).Seconds(), HitLimit: ex.hitLimit}
	for k, v := range ex.byKind {
		hr.Outcomes[outcomeNames[k]] = v
	}
	for k := range symFuncs {
		hr.SymFuncs = append(hr.SymFuncs, k)
	}
	sort.Strings(hr.SymFuncs)
	if len(ex.forkSites) > 0 {
		type kv struct {
			k string
			v int64
		}
		var l []kv
		for k, v := range ex.forkSites {
			l = append(l, kv{k, v})
		}
		sort.Slice(l, func(i, j int) bool { return l[i].v > l[j].v })
		for i := 0; i < len(l) && i < 15; i++ {
			fmt.Fprintf(os.Stderr, "  fork site %6d  %s\n", l[i].v, l[i].k)
		}
	}
	if ex.byKind[oUnsupported] > 0 || ex.byKind[oLimit] > 0 || ex.byKind[oUnknown] > 0 || ex.hitLimit != "" {
		hr.Inconcl = true
	}
	return hr
}

func runPath(w *World, fn *ssa.Function, ex *Explorer, s *Solver, prefix []decision, cfg RunConfig, twin bool, wantSample bool) (res *pathResult, symCalls map[string]bool) {
	tp := NewTermPool()
	p := &Path{ex: ex, solver: s, tp: tp, prefix: prefix}
	if os.Getenv("SYMGO_FORKS") != "" {
		p.where = func() string { return "" }
	}
	s.Reset(tp)
	in := w.newInterp(p, tp)
	if p.where != nil {
		p.where = func() string {
			if in.top == nil {
				return "?"
			}
			pos := ""
			if in.curInstr != nil {
				pos = in.prog.Fset.Position(in.curInstr.Pos()).String()
			}
			return in.top.fn.Name() + " " + pos
		}
	}
	in.harness = fn.String()
	in.thorough = cfg.Thorough
	in.mapOrderBudget = 0
	res = &pathResult{prefixLen: len(prefix)}
	defer func() {
		res.decisions = len(p.trace)
		res.forks = p.forks
		res.reach = in.reach
		res.notes = in.notes
		res.steps = in.steps
		res.witnesses = in.witnesses
		symCalls = in.symCalls
		if r := recover(); r != nil {
			res.stack = in.stackTrace()
			switch r := r.(type) {
			case pathEnd:
				res.kind = oPruned
				res.msg = r.why
			case unsupported:
				res.kind = oUnsupported
				res.msg = r.msg
			case limitHit:
				res.kind = oLimit
				res.msg = r.msg
			case unknownHit:
				res.kind = oUnknown
				res.msg = r.msg + " [" + s.lastErr + "]"
			case specAbort:
				res.kind = oUnsupported
				res.msg = "speculation abort escaped"
			case runtimePanic, targetPanic:
				res.kind = oPanic
				res.msg = describePanic(r)
				if cfg.PanicIsViol && !in.panicOK {
					// obtain a model of the path condition
					if p.check(tp.Bool(true)) == "sat" {
						if m, err := p.model(); err == nil {
							in.recordWitness("panic", res.msg, m)
							res.witnesses = in.witnesses
						}
					}
				}
			default:
				res.kind = oUnsupported
				res.msg = fmt.Sprintf("engine panic: %v", r)
				if os.Getenv("SYMGO_DEBUG") != "" {
					fmt.Fprintf(os.Stderr, "ENGINE PANIC: %v\n%s\ntarget stack:\n  %s\n", r, debug.Stack(), strings.Join(res.stack, "\n  "))
				}
			}
			if len(res.witnesses) > 0 {
				res.kind = oViolation
			}
		}
	}()
	// module package initialisers
	initModule(in, fn.Pkg)
	in.call(nil, 0, fn, nil)
	if twin {
		in.assert(false, "vacuity twin")
	}
	if len(in.witnesses) > 0 {
		res.kind = oViolation
	} else {
		res.kind = oOK
		if wantSample {
			if p.check(tp.Bool(true)) == "sat" {
				if m, err := p.model(); err == nil {
					res.model = m
				}
			}
		}
	}
	return
}

func initModule(in *interp, pkg *ssa.Package) {
	if f := pkg.Func("init"); f != nil {
		in.call(nil, 0, f, nil)
	}
}
