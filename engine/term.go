package main

// SMT term DAG with hash-consing, light simplification and SMT-LIB2 printing.
// A TermPool lives for one path execution.

import (
	"fmt"
	"math"
	"math/bits"
	"strconv"
	"strings"
)

type SortKind uint8

const (
	SBool SortKind = iota
	SBV
	SFP
)

type Sort struct {
	K SortKind
	W int // bit-vector width, or total FP width (16, 32, 64)
}

var (
	sortBool = Sort{SBool, 0}
)

func bvSort(w int) Sort { return Sort{SBV, w} }
func fpSort(w int) Sort { return Sort{SFP, w} }

func (s Sort) String() string {
	switch s.K {
	case SBool:
		return "Bool"
	case SBV:
		return fmt.Sprintf("(_ BitVec %d)", s.W)
	case SFP:
		eb, sb := fpParams(s.W)
		return fmt.Sprintf("(_ FloatingPoint %d %d)", eb, sb)
	}
	panic("bad sort")
}

func fpParams(w int) (int, int) {
	switch w {
	case 16:
		return 5, 11
	case 32:
		return 8, 24
	case 64:
		return 11, 53
	}
	panic("bad fp width")
}

type Op uint8

const (
	OpConst Op = iota // BV / Bool / FP (bits) constant
	OpVar             // named input variable
	OpNot
	OpAnd
	OpOr
	OpIte
	OpEq
	// BV
	OpBVAdd
	OpBVSub
	OpBVMul
	OpBVUDiv
	OpBVURem
	OpBVSDiv
	OpBVSRem
	OpBVAnd
	OpBVOr
	OpBVXor
	OpBVNot
	OpBVNeg
	OpBVShl
	OpBVLshr
	OpBVAshr
	OpBVUlt
	OpBVUle
	OpBVSlt
	OpBVSle
	OpConcat
	OpExtract // P1=hi P2=lo
	OpZeroExt // P1=extra bits
	OpSignExt // P1=extra bits
	// FP
	OpFPAdd
	OpFPSub
	OpFPMul
	OpFPDiv
	OpFPNeg
	OpFPAbs
	OpFPSqrt
	OpFPRoundInt // P1 = rounding mode (rmXXX)
	OpFPMin
	OpFPMax
	OpFPLt
	OpFPLe
	OpFPEq
	OpFPIsNaN
	OpFPIsInf
	OpFPIsZero
	OpFPIsNeg
	OpFPIsSubnormal
	OpFPToFP    // fp -> fp (RNE), result sort differs
	OpFPFromSBV // signed bv -> fp (RNE)
	OpFPFromUBV // unsigned bv -> fp (RNE)
	OpFPFromBits
	OpFPToSBV // RTZ, result width = Sort.W
	OpFPToUBV // RTZ
	OpFPFma
	OpUF // uninterpreted function: Name, Args
)

const (
	rmRNE = iota
	rmRNA
	rmRTP
	rmRTN
	rmRTZ
)

var rmNames = []string{"RNE", "RNA", "RTP", "RTN", "RTZ"}

type Term struct {
	Op     Op
	Sort   Sort
	Args   []*Term
	C      uint64 // constant payload (bool: 0/1; bv; fp bits)
	Name   string // var / UF name
	P1, P2 int
	id     int
}

func (t *Term) IsConst() bool { return t.Op == OpConst }

type TermPool struct {
	tab   map[string]*Term
	n     int
	vars  []*Term          // input variables in creation order
	varBy map[string]*Term // by name
	ufs   map[string]string // UF name -> declaration
	ufOrd []string
}

func NewTermPool() *TermPool {
	return &TermPool{tab: map[string]*Term{}, varBy: map[string]*Term{}, ufs: map[string]string{}}
}

func (p *TermPool) intern(t *Term) *Term {
	var sb strings.Builder
	sb.WriteByte(byte(t.Op))
	sb.WriteByte(byte(t.Sort.K))
	sb.WriteString(strconv.Itoa(t.Sort.W))
	sb.WriteByte('|')
	sb.WriteString(strconv.FormatUint(t.C, 16))
	sb.WriteByte('|')
	sb.WriteString(t.Name)
	sb.WriteByte('|')
	sb.WriteString(strconv.Itoa(t.P1))
	sb.WriteByte(',')
	sb.WriteString(strconv.Itoa(t.P2))
	for _, a := range t.Args {
		sb.WriteByte(' ')
		sb.WriteString(strconv.Itoa(a.id))
	}
	k := sb.String()
	if e, ok := p.tab[k]; ok {
		return e
	}
	p.n++
	t.id = p.n
	p.tab[k] = t
	return t
}

func mask(w int) uint64 {
	if w >= 64 {
		return ^uint64(0)
	}
	return (uint64(1) << uint(w)) - 1
}

func sext(v uint64, w int) int64 {
	if w >= 64 {
		return int64(v)
	}
	sh := uint(64 - w)
	return int64(v<<sh) >> sh
}

func (p *TermPool) Bool(b bool) *Term {
	c := uint64(0)
	if b {
		c = 1
	}
	return p.intern(&Term{Op: OpConst, Sort: sortBool, C: c})
}

func (p *TermPool) BV(v uint64, w int) *Term {
	return p.intern(&Term{Op: OpConst, Sort: bvSort(w), C: v & mask(w)})
}

// FPBits: floating point constant given by its IEEE bits.
func (p *TermPool) FPBits(bitsv uint64, w int) *Term {
	return p.intern(&Term{Op: OpConst, Sort: fpSort(w), C: bitsv & mask(w)})
}

func (p *TermPool) F32(f float32) *Term { return p.FPBits(uint64(math.Float32bits(f)), 32) }
func (p *TermPool) F64(f float64) *Term { return p.FPBits(math.Float64bits(f), 64) }

// Var creates (or returns) an input variable. Float inputs are modelled by
// the caller as FPFromBits(Var bv) so that models are always bit-vectors.
func (p *TermPool) Var(name string, s Sort) *Term {
	if v, ok := p.varBy[name]; ok {
		if v.Sort != s {
			panic("variable " + name + " redeclared with different sort")
		}
		return v
	}
	t := p.intern(&Term{Op: OpVar, Sort: s, Name: name})
	p.varBy[name] = t
	p.vars = append(p.vars, t)
	return t
}

func (t *Term) isTrue() bool  { return t.Op == OpConst && t.Sort.K == SBool && t.C == 1 }
func (t *Term) isFalse() bool { return t.Op == OpConst && t.Sort.K == SBool && t.C == 0 }

func (p *TermPool) Not(a *Term) *Term {
	if a.IsConst() {
		return p.Bool(a.C == 0)
	}
	if a.Op == OpNot {
		return a.Args[0]
	}
	return p.intern(&Term{Op: OpNot, Sort: sortBool, Args: []*Term{a}})
}

func (p *TermPool) And(a, b *Term) *Term {
	if a.isFalse() || b.isFalse() {
		return p.Bool(false)
	}
	if a.isTrue() {
		return b
	}
	if b.isTrue() {
		return a
	}
	if a == b {
		return a
	}
	return p.intern(&Term{Op: OpAnd, Sort: sortBool, Args: []*Term{a, b}})
}

func (p *TermPool) Or(a, b *Term) *Term {
	if a.isTrue() || b.isTrue() {
		return p.Bool(true)
	}
	if a.isFalse() {
		return b
	}
	if b.isFalse() {
		return a
	}
	if a == b {
		return a
	}
	return p.intern(&Term{Op: OpOr, Sort: sortBool, Args: []*Term{a, b}})
}

func (p *TermPool) Ite(c, a, b *Term) *Term {
	if c.isTrue() {
		return a
	}
	if c.isFalse() {
		return b
	}
	if a == b {
		return a
	}
	if a.Sort != b.Sort {
		panic(fmt.Sprintf("ite sort mismatch %v %v", a.Sort, b.Sort))
	}
	if a.Sort.K == SBool {
		if a.isTrue() && b.isFalse() {
			return c
		}
		if a.isFalse() && b.isTrue() {
			return p.Not(c)
		}
		if a.isTrue() {
			return p.Or(c, b)
		}
		if b.isFalse() {
			return p.And(c, a)
		}
		if a.isFalse() {
			return p.And(p.Not(c), b)
		}
		if b.isTrue() {
			return p.Or(p.Not(c), a)
		}
	}
	return p.intern(&Term{Op: OpIte, Sort: a.Sort, Args: []*Term{c, a, b}})
}

// Eq is structural equality (= in SMT-LIB). For FP sorts this is *not* IEEE
// equality (use FPEq).
func (p *TermPool) Eq(a, b *Term) *Term {
	if a.Sort != b.Sort {
		panic(fmt.Sprintf("eq sort mismatch %v %v", a.Sort, b.Sort))
	}
	if a == b {
		return p.Bool(true)
	}
	if a.IsConst() && b.IsConst() {
		if a.Sort.K == SFP {
			// single NaN in SMT
			if fpIsNaNBits(a.C, a.Sort.W) && fpIsNaNBits(b.C, b.Sort.W) {
				return p.Bool(true)
			}
		}
		return p.Bool(a.C == b.C)
	}
	if a.Sort.K == SBool {
		if a.IsConst() {
			a, b = b, a
		}
		if b.isTrue() {
			return a
		}
		if b.isFalse() {
			return p.Not(a)
		}
	}
	if a.id > b.id {
		a, b = b, a
	}
	return p.intern(&Term{Op: OpEq, Sort: sortBool, Args: []*Term{a, b}})
}

func fpIsNaNBits(b uint64, w int) bool {
	switch w {
	case 32:
		f := math.Float32frombits(uint32(b))
		return f != f
	case 64:
		f := math.Float64frombits(b)
		return f != f
	case 16:
		return (b>>10)&0x1f == 0x1f && b&0x3ff != 0
	}
	return false
}

func (p *TermPool) bvBin(op Op, a, b *Term) *Term {
	if a.Sort != b.Sort || a.Sort.K != SBV {
		panic(fmt.Sprintf("bv binop %d sort mismatch %v %v", op, a.Sort, b.Sort))
	}
	w := a.Sort.W
	if a.IsConst() && b.IsConst() && w <= 64 {
		x, y := a.C, b.C
		var r uint64
		ok := true
		switch op {
		case OpBVAdd:
			r = x + y
		case OpBVSub:
			r = x - y
		case OpBVMul:
			r = x * y
		case OpBVAnd:
			r = x & y
		case OpBVOr:
			r = x | y
		case OpBVXor:
			r = x ^ y
		case OpBVUDiv:
			if y == 0 {
				r = mask(w)
			} else {
				r = x / y
			}
		case OpBVURem:
			if y == 0 {
				r = x
			} else {
				r = x % y
			}
		case OpBVSDiv:
			sx, sy := sext(x, w), sext(y, w)
			if sy == 0 {
				if sx < 0 {
					r = 1
				} else {
					r = mask(w)
				}
			} else if sy == -1 {
				r = uint64(-sx)
			} else {
				r = uint64(sx / sy)
			}
		case OpBVSRem:
			sx, sy := sext(x, w), sext(y, w)
			if sy == 0 {
				r = x
			} else if sy == -1 {
				r = 0
			} else {
				r = uint64(sx % sy)
			}
		case OpBVShl:
			if y >= uint64(w) {
				r = 0
			} else {
				r = x << y
			}
		case OpBVLshr:
			if y >= uint64(w) {
				r = 0
			} else {
				r = x >> y
			}
		case OpBVAshr:
			sx := sext(x, w)
			if y >= uint64(w) {
				if sx < 0 {
					r = mask(w)
				} else {
					r = 0
				}
			} else {
				r = uint64(sx >> y)
			}
		default:
			ok = false
		}
		if ok {
			return p.BV(r, w)
		}
	}
	// a - (a div b) * b is the remainder, also under the SMT-LIB conventions for b = 0 and
	// INT_MIN / -1 (lemma: rem-from-div, checked by selftest); the product form defeats the
	// bit-blasting solvers.
	if op == OpBVSub && b.Op == OpBVMul && len(b.Args) == 2 {
		for k := 0; k < 2; k++ {
			q, d := b.Args[k], b.Args[1-k]
			if (q.Op == OpBVSDiv || q.Op == OpBVUDiv) && q.Args[0] == a && q.Args[1] == d {
				if q.Op == OpBVSDiv {
					return p.bvBin(OpBVSRem, a, d)
				}
				return p.bvBin(OpBVURem, a, d)
			}
		}
	}
	// arithmetic on sign/zero-extended operands is canonicalised to the narrowest width that
	// cannot overflow, then sign-extended (lemma: rewrite-extarith, checked by selftest)
	switch op {
	case OpBVMul, OpBVAdd, OpBVSub:
		ea := a.Op == OpSignExt || a.Op == OpZeroExt
		eb := b.Op == OpSignExt || b.Op == OpZeroExt
		if (ea || eb) && (ea || a.IsConst()) && (eb || b.IsConst()) {
			wa, wb := signedWidthOf(a), signedWidthOf(b)
			need := max(wa, wb) + 1
			if op == OpBVMul {
				need = wa + wb
			}
			if need < w {
				return p.SignExt(w-need, p.bvBin(op, p.narrowSigned(a, need), p.narrowSigned(b, need)))
			}
		}
	}
	// division of extended operands is done at the narrow width (lemma: rewrite-div, checked by selftest)
	switch op {
	case OpBVSDiv, OpBVSRem:
		if nonNegative(a) && nonNegative(b) {
			// signed division of non-negative operands is unsigned division (lemma: rewrite-div)
			if op == OpBVSDiv {
				return p.bvBin(OpBVUDiv, a, b)
			}
			return p.bvBin(OpBVURem, a, b)
		}
		if n := signExtWidth(a, b); n > 0 && n < w {
			x, y := p.narrowSigned(a, n), p.narrowSigned(b, n)
			if op == OpBVSRem {
				return p.SignExt(w-n, p.bvBin(OpBVSRem, x, y))
			}
			ovf := p.And(p.Eq(x, p.BV(uint64(1)<<uint(n-1), n)), p.Eq(y, p.BV(mask(n), n)))
			return p.Ite(ovf, p.BV(uint64(1)<<uint(n-1), w), p.SignExt(w-n, p.bvBin(OpBVSDiv, x, y)))
		}
	case OpBVUDiv, OpBVURem:
		if n := zeroExtWidth(a, b); n > 0 && n < w {
			x, y := p.Extract(n-1, 0, a), p.Extract(n-1, 0, b)
			if op == OpBVURem {
				return p.ZeroExt(w-n, p.bvBin(OpBVURem, x, y))
			}
			return p.Ite(p.Eq(y, p.BV(0, n)), p.BV(mask(w), w), p.ZeroExt(w-n, p.bvBin(OpBVUDiv, x, y)))
		}
	}
	// identities
	switch op {
	case OpBVAdd, OpBVOr, OpBVXor:
		if a.IsConst() && a.C == 0 {
			return b
		}
		if b.IsConst() && b.C == 0 {
			return a
		}
	case OpBVSub, OpBVShl, OpBVLshr, OpBVAshr:
		if b.IsConst() && b.C == 0 {
			return a
		}
	case OpBVAnd:
		if a.IsConst() && a.C == 0 || b.IsConst() && b.C == 0 {
			return p.BV(0, w)
		}
		if a.IsConst() && a.C == mask(w) {
			return b
		}
		if b.IsConst() && b.C == mask(w) {
			return a
		}
	case OpBVMul:
		if a.IsConst() && a.C == 1 {
			return b
		}
		if b.IsConst() && b.C == 1 {
			return a
		}
		if a.IsConst() && a.C == 0 || b.IsConst() && b.C == 0 {
			return p.BV(0, w)
		}
	}
	return p.intern(&Term{Op: op, Sort: a.Sort, Args: []*Term{a, b}})
}

// signedWidthOf returns the smallest n such that t is the sign extension of its low n bits (syntactically).
func signedWidthOf(t *Term) int {
	switch t.Op {
	case OpSignExt:
		return t.Args[0].Sort.W
	case OpZeroExt:
		return t.Args[0].Sort.W + 1
	case OpConst:
		v := sext(t.C, t.Sort.W)
		n := 1
		for n < t.Sort.W && sext(uint64(v)&mask(n), n) != v {
			n++
		}
		return n
	}
	return t.Sort.W
}

func unsignedWidthOf(t *Term) int {
	switch t.Op {
	case OpZeroExt:
		return t.Args[0].Sort.W
	case OpConst:
		n := 1
		for n < t.Sort.W && t.C > mask(n) {
			n++
		}
		return n
	}
	return t.Sort.W
}

func nonNegative(t *Term) bool {
	switch t.Op {
	case OpZeroExt:
		return true
	case OpConst:
		return t.C>>(uint(t.Sort.W)-1)&1 == 0
	}
	return false
}

func signExtWidth(a, b *Term) int {
	if a.Op != OpSignExt && a.Op != OpZeroExt && b.Op != OpSignExt && b.Op != OpZeroExt {
		return 0
	}
	return max(signedWidthOf(a), signedWidthOf(b), 8)
}

func zeroExtWidth(a, b *Term) int {
	if a.Op != OpZeroExt && b.Op != OpZeroExt {
		return 0
	}
	return max(unsignedWidthOf(a), unsignedWidthOf(b), 8)
}

// narrowSigned returns the low n bits of t (t is known to be the sign extension of them).
func (p *TermPool) narrowSigned(t *Term, n int) *Term {
	if t.Op == OpSignExt && t.Args[0].Sort.W <= n {
		return p.SignExt(n-t.Args[0].Sort.W, t.Args[0])
	}
	if t.Op == OpZeroExt && t.Args[0].Sort.W < n {
		return p.ZeroExt(n-t.Args[0].Sort.W, t.Args[0])
	}
	return p.Extract(n-1, 0, t)
}

func (p *TermPool) bvCmp(op Op, a, b *Term) *Term {
	if a.Sort != b.Sort || a.Sort.K != SBV {
		panic(fmt.Sprintf("bv cmp sort mismatch %v %v", a.Sort, b.Sort))
	}
	w := a.Sort.W
	if a.IsConst() && b.IsConst() {
		x, y := a.C, b.C
		switch op {
		case OpBVUlt:
			return p.Bool(x < y)
		case OpBVUle:
			return p.Bool(x <= y)
		case OpBVSlt:
			return p.Bool(sext(x, w) < sext(y, w))
		case OpBVSle:
			return p.Bool(sext(x, w) <= sext(y, w))
		}
	}
	if a == b {
		return p.Bool(op == OpBVUle || op == OpBVSle)
	}
	// range-based simplification for zero-extended operands compared with constants
	if b.IsConst() && a.Op == OpZeroExt {
		inner := a.Args[0].Sort.W
		if op == OpBVUlt && b.C > mask(inner) {
			return p.Bool(true)
		}
		if op == OpBVUle && b.C >= mask(inner) {
			return p.Bool(true)
		}
	}
	return p.intern(&Term{Op: op, Sort: sortBool, Args: []*Term{a, b}})
}

func (p *TermPool) BVNot(a *Term) *Term {
	if a.IsConst() {
		return p.BV(^a.C, a.Sort.W)
	}
	return p.intern(&Term{Op: OpBVNot, Sort: a.Sort, Args: []*Term{a}})
}

func (p *TermPool) BVNeg(a *Term) *Term {
	if a.IsConst() {
		return p.BV(-a.C, a.Sort.W)
	}
	return p.intern(&Term{Op: OpBVNeg, Sort: a.Sort, Args: []*Term{a}})
}

func (p *TermPool) Extract(hi, lo int, a *Term) *Term {
	if lo == 0 && hi == a.Sort.W-1 {
		return a
	}
	if a.IsConst() {
		return p.BV(a.C>>uint(lo), hi-lo+1)
	}
	if (a.Op == OpZeroExt || a.Op == OpSignExt) && hi < a.Args[0].Sort.W {
		return p.Extract(hi, lo, a.Args[0])
	}
	if a.Op == OpZeroExt && lo >= a.Args[0].Sort.W {
		return p.BV(0, hi-lo+1)
	}
	if lo == 0 && a.Op == OpSignExt && hi >= a.Args[0].Sort.W {
		return p.SignExt(hi+1-a.Args[0].Sort.W, a.Args[0])
	}
	if lo == 0 && a.Op == OpZeroExt && hi >= a.Args[0].Sort.W {
		return p.ZeroExt(hi+1-a.Args[0].Sort.W, a.Args[0])
	}
	if a.Op == OpConcat {
		lw := a.Args[1].Sort.W
		if hi < lw {
			return p.Extract(hi, lo, a.Args[1])
		}
		if lo >= lw {
			return p.Extract(hi-lw, lo-lw, a.Args[0])
		}
	}
	if a.Op == OpExtract {
		return p.Extract(hi+a.P2, lo+a.P2, a.Args[0])
	}
	if lo == 0 {
		// modular operations commute with truncation (lemma: rewrite-narrow, checked by selftest)
		switch a.Op {
		case OpBVAdd, OpBVSub, OpBVMul, OpBVAnd, OpBVOr, OpBVXor:
			return p.bvBin(a.Op, p.Extract(hi, 0, a.Args[0]), p.Extract(hi, 0, a.Args[1]))
		case OpBVNot:
			return p.BVNot(p.Extract(hi, 0, a.Args[0]))
		case OpBVNeg:
			return p.BVNeg(p.Extract(hi, 0, a.Args[0]))
		case OpIte:
			return p.Ite(a.Args[0], p.Extract(hi, 0, a.Args[1]), p.Extract(hi, 0, a.Args[2]))
		}
	}
	return p.intern(&Term{Op: OpExtract, Sort: bvSort(hi - lo + 1), Args: []*Term{a}, P1: hi, P2: lo})
}

func (p *TermPool) ZeroExt(n int, a *Term) *Term {
	if n == 0 {
		return a
	}
	if a.IsConst() {
		return p.BV(a.C, a.Sort.W+n)
	}
	if a.Op == OpZeroExt {
		return p.ZeroExt(n+a.P1, a.Args[0])
	}
	return p.intern(&Term{Op: OpZeroExt, Sort: bvSort(a.Sort.W + n), Args: []*Term{a}, P1: n})
}

func (p *TermPool) SignExt(n int, a *Term) *Term {
	if n == 0 {
		return a
	}
	if a.IsConst() {
		return p.BV(uint64(sext(a.C, a.Sort.W)), a.Sort.W+n)
	}
	if a.Op == OpZeroExt {
		return p.ZeroExt(n+a.P1, a.Args[0])
	}
	if a.Op == OpSignExt {
		return p.SignExt(n+a.P1, a.Args[0])
	}
	return p.intern(&Term{Op: OpSignExt, Sort: bvSort(a.Sort.W + n), Args: []*Term{a}, P1: n})
}

func (p *TermPool) Concat(hi, lo *Term) *Term {
	w := hi.Sort.W + lo.Sort.W
	if hi.IsConst() && lo.IsConst() && w <= 64 {
		return p.BV(hi.C<<uint(lo.Sort.W)|lo.C, w)
	}
	if hi.IsConst() && hi.C == 0 {
		return p.ZeroExt(hi.Sort.W, lo)
	}
	return p.intern(&Term{Op: OpConcat, Sort: bvSort(w), Args: []*Term{hi, lo}})
}

// ---- floating point ----

func fpFromBits(b uint64, w int) float64 {
	switch w {
	case 32:
		return float64(math.Float32frombits(uint32(b)))
	case 64:
		return math.Float64frombits(b)
	}
	panic("fpFromBits width")
}

func fpToBits(f float64, w int) uint64 {
	switch w {
	case 32:
		return uint64(math.Float32bits(float32(f)))
	case 64:
		return math.Float64bits(f)
	}
	panic("fpToBits width")
}

func fpPrec(w int) int {
	_, sb := fpParams(w)
	return sb
}

// intView reports whether the float term t is syntactically known to be an exactly
// represented integer: t == to_fp_signed(x) with x of effective signed width eff
// (|x| <= 2^(eff-1) <= 2^prec). Used to do integer arithmetic that programs route
// through float64 exactly (lemma: rewrite-intfloat, checked by selftest).
func (p *TermPool) intView(t *Term) (x *Term, eff int, ok bool) {
	prec := fpPrec(t.Sort.W)
	switch t.Op {
	case OpFPFromSBV:
		a := t.Args[0]
		eff = signedWidthOf(a)
		if a.Sort.W <= 64 && eff <= prec+1 {
			return a, eff, true
		}
	case OpFPFromUBV:
		a := t.Args[0]
		eff = unsignedWidthOf(a) + 1
		if a.Sort.W < 64 && eff <= prec+1 {
			return p.ZeroExt(1, a), eff, true
		}
	case OpFPToFP:
		x, eff, ok = p.intView(t.Args[0])
		if ok && eff <= prec+1 {
			return x, eff, true
		}
	case OpConst:
		if t.Sort.W != 32 && t.Sort.W != 64 {
			return nil, 0, false
		}
		f := fpFromBits(t.C, t.Sort.W)
		if f != f || f != math.Trunc(f) || math.Abs(f) > 4503599627370496 || (f == 0 && math.Signbit(f)) {
			return nil, 0, false
		}
		v := int64(f)
		c := p.BV(uint64(v), 64)
		return c, signedWidthOf(c), true
	}
	return nil, 0, false
}

// resizeSigned returns the W-bit two's complement form of x (x is the sign extension of its low min(W,..) bits).
func (p *TermPool) resizeSigned(x *Term, W int) *Term {
	switch {
	case x.Sort.W == W:
		return x
	case x.Sort.W > W:
		return p.Extract(W-1, 0, x)
	}
	return p.SignExt(W-x.Sort.W, x)
}

// iteIntLeaves reports whether t is an if-then-else tree (depth <= 4) over float terms at
// least one leaf of which is an exactly represented integer (intView).
func (p *TermPool) iteIntLeaves(t *Term, depth int) bool {
	if t.Op != OpIte || depth > 4 {
		return false
	}
	for _, br := range t.Args[1:] {
		if _, _, ok := p.intView(br); ok || br.IsConst() {
			return true
		}
		if p.iteIntLeaves(br, depth+1) {
			return true
		}
	}
	return false
}

// fpSpecial classifies a float constant: 1 NaN, 2 +inf, 3 -inf, 0 anything else.
func fpSpecial(t *Term) int {
	if !t.IsConst() || t.Sort.K != SFP {
		return 0
	}
	w := t.Sort.W
	sb := fpPrec(w)
	expAll := (uint64(1)<<uint(w-sb) - 1) << uint(sb-1)
	mant := t.C & (uint64(1)<<uint(sb-1) - 1)
	if t.C&expAll != expAll {
		return 0
	}
	if mant != 0 {
		return 1
	}
	if t.C>>uint(w-1)&1 == 1 {
		return 3
	}
	return 2
}

// liftIte distributes a binary float operation over an if-then-else operand when that exposes
// integer-valued leaves to the intfloat rewrites: f(a, ite(c, x, y)) = ite(c, f(a, x), f(a, y)).
// Pure equivalence; nil when it does not apply.
func (p *TermPool) liftIte(a, b *Term, f func(x, y *Term) *Term) *Term {
	simple := func(t *Term) bool {
		if t.IsConst() {
			return true
		}
		_, _, ok := p.intView(t)
		return ok
	}
	if b.Op == OpIte && (simple(a) || a.Op == OpIte) && p.iteIntLeaves(b, 0) {
		return p.Ite(b.Args[0], f(a, b.Args[1]), f(a, b.Args[2]))
	}
	if a.Op == OpIte && simple(b) && p.iteIntLeaves(a, 0) {
		return p.Ite(a.Args[0], f(a.Args[1], b), f(a.Args[2], b))
	}
	return nil
}

func (p *TermPool) fpBin(op Op, a, b *Term) *Term {
	if a.Sort != b.Sort || a.Sort.K != SFP {
		panic("fp binop sort mismatch")
	}
	w := a.Sort.W
	if op == OpFPAdd || op == OpFPSub || op == OpFPMul {
		if r := p.liftIte(a, b, func(x, y *Term) *Term { return p.fpBin(op, x, y) }); r != nil {
			return r
		}
		// an exactly represented integer combined with NaN or an infinity (lemma
		// intfloat-special, checked by selftest)
		special := func(c, v *Term, cFirst bool) *Term {
			k := fpSpecial(c)
			if k == 0 || v.IsConst() {
				return nil
			}
			x, _, ok := p.intView(v)
			if !ok {
				return nil
			}
			sb := fpPrec(w)
			expAll := (uint64(1)<<uint(w-sb) - 1) << uint(sb-1)
			nan := p.FPBits(expAll|uint64(1)<<uint(sb-2), w)
			pinf, ninf := p.FPBits(expAll, w), p.FPBits(expAll|uint64(1)<<uint(w-1), w)
			if k == 1 {
				return nan
			}
			switch op {
			case OpFPMul:
				xneg := p.bvCmp(OpBVSlt, x, p.BV(0, x.Sort.W))
				xzero := p.Eq(x, p.BV(0, x.Sort.W))
				same, flip := pinf, ninf
				if k == 3 {
					same, flip = ninf, pinf
				}
				return p.Ite(xzero, nan, p.Ite(xneg, flip, same))
			case OpFPAdd:
				return c
			case OpFPSub:
				if cFirst {
					return c // inf - x
				}
				if k == 2 {
					return ninf // x - (+inf)
				}
				return pinf
			}
			return nil
		}
		if r := special(a, b, true); r != nil {
			return r
		}
		if r := special(b, a, false); r != nil {
			return r
		}
		// an exactly represented integer (never -0) combined with a constant zero of either
		// sign (lemmas intfloat-addsub-zero / intfloat-mul-zero, checked by selftest)
		isZeroConst := func(t *Term) (neg bool, ok bool) {
			if !t.IsConst() {
				return false, false
			}
			signBit := uint64(1) << uint(w-1)
			if t.C == 0 {
				return false, true
			}
			if t.C == signBit {
				return true, true
			}
			return false, false
		}
		if x, _, okx := p.intView(a); okx && !a.IsConst() {
			if zneg, okz := isZeroConst(b); okz {
				switch op {
				case OpFPAdd, OpFPSub:
					return a // x +- (+-0) = x, and +0 +- (+-0) = +0 under round-to-nearest
				case OpFPMul:
					xneg := p.bvCmp(OpBVSlt, x, p.BV(0, x.Sort.W))
					pz, nz := p.FPBits(0, w), p.FPBits(uint64(1)<<uint(w-1), w)
					if zneg {
						return p.Ite(xneg, pz, nz)
					}
					return p.Ite(xneg, nz, pz)
				}
			}
		}
		if x, _, okx := p.intView(b); okx && !b.IsConst() && op == OpFPMul {
			if zneg, okz := isZeroConst(a); okz {
				xneg := p.bvCmp(OpBVSlt, x, p.BV(0, x.Sort.W))
				pz, nz := p.FPBits(0, w), p.FPBits(uint64(1)<<uint(w-1), w)
				if zneg {
					return p.Ite(xneg, pz, nz)
				}
				return p.Ite(xneg, nz, pz)
			}
		}
	}
	if op == OpFPAdd || op == OpFPSub || op == OpFPMul {
		if x1, w1, ok1 := p.intView(a); ok1 {
			if x2, w2, ok2 := p.intView(b); ok2 {
				prec := fpPrec(w)
				switch op {
				case OpFPAdd, OpFPSub:
					W := max(w1, w2) + 1
					if W <= prec+1 && W <= 64 {
						bop := OpBVAdd
						if op == OpFPSub {
							bop = OpBVSub
						}
						return p.FPFromBV(p.bvBin(bop, p.resizeSigned(x1, W), p.resizeSigned(x2, W)), true, w)
					}
				case OpFPMul:
					W := w1 + w2
					if W <= prec+1 && W <= 64 {
						X := p.bvBin(OpBVMul, p.resizeSigned(x1, W), p.resizeSigned(x2, W))
						z1 := p.bvCmp(OpBVSlt, x1, p.BV(0, x1.Sort.W))
						z2 := p.bvCmp(OpBVSlt, x2, p.BV(0, x2.Sort.W))
						negZero := p.And(p.Eq(X, p.BV(0, W)), p.Not(p.Eq(z1, z2)))
						return p.Ite(negZero, p.FPBits(uint64(1)<<uint(w-1), w), p.FPFromBV(X, true, w))
					}
				}
			}
		}
	}
	if a.IsConst() && b.IsConst() && (w == 32 || w == 64) && op != OpFPMin && op != OpFPMax {
		if w == 32 {
			x, y := math.Float32frombits(uint32(a.C)), math.Float32frombits(uint32(b.C))
			var r float32
			switch op {
			case OpFPAdd:
				r = x + y
			case OpFPSub:
				r = x - y
			case OpFPMul:
				r = x * y
			case OpFPDiv:
				r = x / y
			}
			return p.F32(r)
		}
		x, y := math.Float64frombits(a.C), math.Float64frombits(b.C)
		var r float64
		switch op {
		case OpFPAdd:
			r = x + y
		case OpFPSub:
			r = x - y
		case OpFPMul:
			r = x * y
		case OpFPDiv:
			r = x / y
		}
		return p.F64(r)
	}
	return p.intern(&Term{Op: op, Sort: a.Sort, Args: []*Term{a, b}})
}

func (p *TermPool) fpCmp(op Op, a, b *Term) *Term {
	if a.Sort != b.Sort || a.Sort.K != SFP {
		panic("fp cmp sort mismatch")
	}
	w := a.Sort.W
	if r := p.liftIte(a, b, func(x, y *Term) *Term { return p.fpCmp(op, x, y) }); r != nil {
		return r
	}
	if !(a.IsConst() && b.IsConst()) {
		if x1, w1, ok1 := p.intView(a); ok1 {
			if x2, w2, ok2 := p.intView(b); ok2 {
				W := max(w1, w2)
				y1, y2 := p.resizeSigned(x1, W), p.resizeSigned(x2, W)
				switch op {
				case OpFPLt:
					return p.bvCmp(OpBVSlt, y1, y2)
				case OpFPLe:
					return p.bvCmp(OpBVSle, y1, y2)
				case OpFPEq:
					return p.Eq(y1, y2)
				}
			}
		}
	}
	if a.IsConst() && b.IsConst() && (w == 32 || w == 64) {
		x, y := fpFromBits(a.C, w), fpFromBits(b.C, w)
		switch op {
		case OpFPLt:
			return p.Bool(x < y)
		case OpFPLe:
			return p.Bool(x <= y)
		case OpFPEq:
			return p.Bool(x == y)
		}
	}
	return p.intern(&Term{Op: op, Sort: sortBool, Args: []*Term{a, b}})
}

func (p *TermPool) fpUn(op Op, a *Term) *Term {
	w := a.Sort.W
	if op == OpFPNeg && !a.IsConst() {
		if x, eff, ok := p.intView(a); ok && eff+1 <= fpPrec(w)+1 && eff+1 <= 64 {
			X := p.BVNeg(p.resizeSigned(x, eff+1))
			isZero := p.Eq(x, p.BV(0, x.Sort.W))
			return p.Ite(isZero, p.FPBits(uint64(1)<<uint(w-1), w), p.FPFromBV(X, true, w))
		}
	}
	if a.IsConst() && (w == 32 || w == 64) {
		x := fpFromBits(a.C, w)
		switch op {
		case OpFPNeg:
			return p.FPBits(a.C^(uint64(1)<<uint(w-1)), w)
		case OpFPAbs:
			return p.FPBits(a.C&^(uint64(1)<<uint(w-1)), w)
		case OpFPSqrt:
			if w == 32 {
				return p.F32(float32(math.Sqrt(x)))
			}
			return p.F64(math.Sqrt(x))
		}
	}
	return p.intern(&Term{Op: op, Sort: a.Sort, Args: []*Term{a}})
}

func (p *TermPool) fpPred(op Op, a *Term) *Term {
	w := a.Sort.W
	if !a.IsConst() {
		if x, _, ok := p.intView(a); ok {
			switch op {
			case OpFPIsNaN, OpFPIsInf, OpFPIsSubnormal:
				return p.Bool(false)
			case OpFPIsZero:
				return p.Eq(x, p.BV(0, x.Sort.W))
			case OpFPIsNeg:
				return p.bvCmp(OpBVSlt, x, p.BV(0, x.Sort.W))
			}
		}
	}
	if a.IsConst() && (w == 32 || w == 64) {
		x := fpFromBits(a.C, w)
		switch op {
		case OpFPIsNaN:
			return p.Bool(x != x)
		case OpFPIsInf:
			return p.Bool(math.IsInf(x, 0))
		case OpFPIsZero:
			return p.Bool(x == 0)
		case OpFPIsNeg:
			return p.Bool(x == x && math.Signbit(x))
		}
	}
	return p.intern(&Term{Op: op, Sort: sortBool, Args: []*Term{a}})
}

// iteDivLeaves: an if-then-else tree (depth <= 4) with a leaf that FPRound can rewrite (an
// integer-valued float, or a quotient of two such).
func (p *TermPool) iteDivLeaves(t *Term, depth int) bool {
	if t.Op != OpIte || depth > 4 {
		return false
	}
	for _, br := range t.Args[1:] {
		if _, _, ok := p.intView(br); ok {
			return true
		}
		if br.Op == OpFPDiv {
			_, _, ok1 := p.intView(br.Args[0])
			_, _, ok2 := p.intView(br.Args[1])
			if ok1 && ok2 {
				return true
			}
		}
		if p.iteDivLeaves(br, depth+1) {
			return true
		}
	}
	return false
}

func (p *TermPool) FPRound(mode int, a *Term) *Term {
	w := a.Sort.W
	if a.Op == OpIte && p.iteDivLeaves(a, 0) {
		return p.Ite(a.Args[0], p.FPRound(mode, a.Args[1]), p.FPRound(mode, a.Args[2]))
	}
	if !a.IsConst() {
		if _, _, ok := p.intView(a); ok {
			return a
		}
	}
	if a.Op == OpFPDiv && (mode == rmRTZ || mode == rmRTN || mode == rmRTP) {
		// floor/ceil/trunc of the float quotient of two exactly represented integers is the
		// corresponding integer quotient (lemma: intfloat-div-round, checked by selftest)
		if x1, w1, ok1 := p.intView(a.Args[0]); ok1 {
			if x2, w2, ok2 := p.intView(a.Args[1]); ok2 && max(w1, w2)+2 <= 64 && max(w1, w2)+2 <= fpPrec(w)+1 {
				W := max(w1, w2) + 2
				x, y := p.resizeSigned(x1, W), p.resizeSigned(x2, W)
				q := p.bvBin(OpBVSDiv, x, y)
				r := p.bvBin(OpBVSRem, x, y)
				zero := p.BV(0, W)
				inexact := p.Not(p.Eq(r, zero))
				// sign of the exact quotient when inexact: negative iff signs of x and y differ
				neg := p.Not(p.Eq(p.bvCmp(OpBVSlt, x, zero), p.bvCmp(OpBVSlt, y, zero)))
				adj := q
				switch mode {
				case rmRTN:
					adj = p.Ite(p.And(inexact, neg), p.bvBin(OpBVSub, q, p.BV(1, W)), q)
				case rmRTP:
					adj = p.Ite(p.And(inexact, p.Not(neg)), p.bvBin(OpBVAdd, q, p.BV(1, W)), q)
				}
				// divisor zero: x / +0 is NaN for x = 0 and an infinity with the sign of x
				// otherwise, and rounding to an integer leaves both unchanged (lemma
				// intfloat-div-round-zero, checked by selftest)
				xw := x1.Sort.W
				xNeg := p.bvCmp(OpBVSlt, x1, p.BV(0, xw))
				xZero := p.Eq(x1, p.BV(0, xw))
				expAll := (uint64(1)<<uint(w-fpPrec(w)) - 1) << uint(fpPrec(w)-1)
				posInf := p.FPBits(expAll, w)
				negInf := p.FPBits(expAll|uint64(1)<<uint(w-1), w)
				nan := p.FPBits(expAll|uint64(1)<<uint(fpPrec(w)-2), w)
				orig := p.Ite(xZero, nan, p.Ite(xNeg, negInf, posInf))
				// a zero result is -0 exactly when the operands have different signs (x = 0 counts as +)
				negZero := p.And(p.Eq(adj, zero), neg)
				val := p.Ite(negZero, p.FPBits(uint64(1)<<uint(w-1), w), p.FPFromBV(adj, true, w))
				return p.Ite(p.Eq(y, zero), orig, val)
			}
		}
	}
	if a.IsConst() && (w == 32 || w == 64) {
		x := fpFromBits(a.C, w)
		var r float64
		switch mode {
		case rmRNE:
			r = math.RoundToEven(x)
		case rmRNA:
			r = math.Round(x)
		case rmRTP:
			r = math.Ceil(x)
		case rmRTN:
			r = math.Floor(x)
		case rmRTZ:
			r = math.Trunc(x)
		}
		return p.FPBits(fpToBits(r, w), w)
	}
	return p.intern(&Term{Op: OpFPRoundInt, Sort: a.Sort, Args: []*Term{a}, P1: mode})
}

func (p *TermPool) FPToFP(a *Term, w int) *Term {
	if a.Sort.W == w {
		return a
	}
	if a.IsConst() && (a.Sort.W == 32 || a.Sort.W == 64) && (w == 32 || w == 64) {
		x := fpFromBits(a.C, a.Sort.W)
		return p.FPBits(fpToBits(x, w), w)
	}
	return p.intern(&Term{Op: OpFPToFP, Sort: fpSort(w), Args: []*Term{a}})
}

func (p *TermPool) FPFromBV(a *Term, signed bool, w int) *Term {
	if a.IsConst() && a.Sort.W <= 64 {
		var f float64
		if signed {
			sv := sext(a.C, a.Sort.W)
			if w == 32 {
				return p.F32(float32(sv))
			}
			f = float64(sv)
		} else {
			if w == 32 {
				return p.F32(float32(a.C))
			}
			f = float64(a.C)
		}
		return p.F64(f)
	}
	op := OpFPFromUBV
	if signed {
		op = OpFPFromSBV
	}
	return p.intern(&Term{Op: op, Sort: fpSort(w), Args: []*Term{a}})
}

func (p *TermPool) FPFromBits(a *Term) *Term {
	w := a.Sort.W
	if a.IsConst() {
		return p.FPBits(a.C, w)
	}
	return p.intern(&Term{Op: OpFPFromBits, Sort: fpSort(w), Args: []*Term{a}})
}

// FPToBV: raw SMT fp.to_sbv / fp.to_ubv with RTZ; unspecified when out of range
// (callers guard with ite).
func (p *TermPool) FPToBV(a *Term, signed bool, w int) *Term {
	op := OpFPToUBV
	if signed {
		op = OpFPToSBV
	}
	if a.IsConst() && (a.Sort.W == 32 || a.Sort.W == 64) && w <= 64 {
		x := math.Trunc(fpFromBits(a.C, a.Sort.W))
		if signed {
			lim := math.Ldexp(1, w-1)
			if x == x && x < lim && x >= -lim {
				return p.BV(uint64(int64(x)), w)
			}
		} else if x == x && x >= 0 && x < math.Ldexp(1, w) && x < 9223372036854775808.0 {
			return p.BV(uint64(x), w)
		}
	}
	return p.intern(&Term{Op: op, Sort: bvSort(w), Args: []*Term{a}})
}

func (p *TermPool) UF(name string, ret Sort, args ...*Term) *Term {
	if _, ok := p.ufs[name]; !ok {
		var sb strings.Builder
		sb.WriteString("(declare-fun " + name + " (")
		for i, a := range args {
			if i > 0 {
				sb.WriteByte(' ')
			}
			sb.WriteString(a.Sort.String())
		}
		sb.WriteString(") " + ret.String() + ")")
		p.ufs[name] = sb.String()
		p.ufOrd = append(p.ufOrd, name)
	}
	return p.intern(&Term{Op: OpUF, Sort: ret, Name: name, Args: args})
}

// ---- printing ----

func bvLit(v uint64, w int) string {
	if w%4 == 0 {
		return fmt.Sprintf("#x%0*x", w/4, v&mask(w))
	}
	return fmt.Sprintf("#b%0*b", w, v&mask(w))
}

func (t *Term) ref() string {
	switch t.Op {
	case OpConst:
		switch t.Sort.K {
		case SBool:
			if t.C == 1 {
				return "true"
			}
			return "false"
		case SBV:
			return bvLit(t.C, t.Sort.W)
		case SFP:
			eb, sb := fpParams(t.Sort.W)
			return fmt.Sprintf("((_ to_fp %d %d) %s)", eb, sb, bvLit(t.C, t.Sort.W))
		}
	case OpVar:
		return "|" + t.Name + "|"
	}
	return "t" + strconv.Itoa(t.id)
}

var opNames = map[Op]string{
	OpNot: "not", OpAnd: "and", OpOr: "or", OpIte: "ite", OpEq: "=",
	OpBVAdd: "bvadd", OpBVSub: "bvsub", OpBVMul: "bvmul", OpBVUDiv: "bvudiv", OpBVURem: "bvurem",
	OpBVSDiv: "bvsdiv", OpBVSRem: "bvsrem", OpBVAnd: "bvand", OpBVOr: "bvor", OpBVXor: "bvxor",
	OpBVNot: "bvnot", OpBVNeg: "bvneg", OpBVShl: "bvshl", OpBVLshr: "bvlshr", OpBVAshr: "bvashr",
	OpBVUlt: "bvult", OpBVUle: "bvule", OpBVSlt: "bvslt", OpBVSle: "bvsle", OpConcat: "concat",
	OpFPNeg: "fp.neg", OpFPAbs: "fp.abs", OpFPMin: "fp.min", OpFPMax: "fp.max",
	OpFPLt: "fp.lt", OpFPLe: "fp.leq", OpFPEq: "fp.eq", OpFPIsNaN: "fp.isNaN", OpFPIsInf: "fp.isInfinite",
	OpFPIsZero: "fp.isZero", OpFPIsNeg: "fp.isNegative", OpFPIsSubnormal: "fp.isSubnormal",
}

// body returns the SMT-LIB expression of a compound term, referring to the
// children by reference name.
func (t *Term) body() string {
	var sb strings.Builder
	args := func() {
		for _, a := range t.Args {
			sb.WriteByte(' ')
			sb.WriteString(a.ref())
		}
		sb.WriteByte(')')
	}
	switch t.Op {
	case OpExtract:
		fmt.Fprintf(&sb, "((_ extract %d %d)", t.P1, t.P2)
		args()
	case OpZeroExt:
		fmt.Fprintf(&sb, "((_ zero_extend %d)", t.P1)
		args()
	case OpSignExt:
		fmt.Fprintf(&sb, "((_ sign_extend %d)", t.P1)
		args()
	case OpFPAdd, OpFPSub, OpFPMul, OpFPDiv, OpFPSqrt, OpFPFma:
		n := map[Op]string{OpFPAdd: "fp.add", OpFPSub: "fp.sub", OpFPMul: "fp.mul", OpFPDiv: "fp.div", OpFPSqrt: "fp.sqrt", OpFPFma: "fp.fma"}[t.Op]
		sb.WriteString("(" + n + " RNE")
		args()
	case OpFPRoundInt:
		sb.WriteString("(fp.roundToIntegral " + rmNames[t.P1])
		args()
	case OpFPToFP:
		eb, sbb := fpParams(t.Sort.W)
		fmt.Fprintf(&sb, "((_ to_fp %d %d) RNE", eb, sbb)
		args()
	case OpFPFromSBV:
		eb, sbb := fpParams(t.Sort.W)
		fmt.Fprintf(&sb, "((_ to_fp %d %d) RNE", eb, sbb)
		args()
	case OpFPFromUBV:
		eb, sbb := fpParams(t.Sort.W)
		fmt.Fprintf(&sb, "((_ to_fp_unsigned %d %d) RNE", eb, sbb)
		args()
	case OpFPFromBits:
		eb, sbb := fpParams(t.Sort.W)
		fmt.Fprintf(&sb, "((_ to_fp %d %d)", eb, sbb)
		args()
	case OpFPToSBV:
		fmt.Fprintf(&sb, "((_ fp.to_sbv %d) RTZ", t.Sort.W)
		args()
	case OpFPToUBV:
		fmt.Fprintf(&sb, "((_ fp.to_ubv %d) RTZ", t.Sort.W)
		args()
	case OpUF:
		if len(t.Args) == 0 {
			return t.Name
		}
		sb.WriteString("(" + t.Name)
		args()
	default:
		n, ok := opNames[t.Op]
		if !ok {
			panic(fmt.Sprintf("no name for op %d", t.Op))
		}
		sb.WriteString("(" + n)
		args()
	}
	return sb.String()
}

// ---- concrete evaluation under a model (bit-vector valued inputs) ----

type Model map[string]uint64

// evalTerm evaluates t under m. ok=false when the term uses an operation the
// evaluator does not implement (UF, fp16 ...).
func evalTerm(t *Term, m Model, memo map[*Term]uint64) (uint64, bool) {
	if v, ok := memo[t]; ok {
		return v, true
	}
	r, ok := evalTerm1(t, m, memo)
	if ok {
		memo[t] = r
	}
	return r, ok
}

func b2u(b bool) uint64 {
	if b {
		return 1
	}
	return 0
}

func evalTerm1(t *Term, m Model, memo map[*Term]uint64) (uint64, bool) {
	switch t.Op {
	case OpConst:
		return t.C, true
	case OpVar:
		v, ok := m[t.Name]
		return v & mask(max(t.Sort.W, 1)), ok || true
	}
	a := make([]uint64, len(t.Args))
	// short-circuit ite to avoid evaluating unspecified branches
	if t.Op == OpIte {
		c, ok := evalTerm(t.Args[0], m, memo)
		if !ok {
			return 0, false
		}
		if c == 1 {
			return evalTerm(t.Args[1], m, memo)
		}
		return evalTerm(t.Args[2], m, memo)
	}
	for i, x := range t.Args {
		v, ok := evalTerm(x, m, memo)
		if !ok {
			return 0, false
		}
		a[i] = v
	}
	w := t.Sort.W
	aw := 0
	if len(t.Args) > 0 {
		aw = t.Args[0].Sort.W
	}
	fl := func(i int) float64 { return fpFromBits(a[i], t.Args[i].Sort.W) }
	mkf := func(f float64, w int) (uint64, bool) {
		return fpToBits(f, w), true
	}
	isfp := len(t.Args) > 0 && t.Args[0].Sort.K == SFP
	if isfp && aw == 16 {
		return 0, false
	}
	switch t.Op {
	case OpNot:
		return a[0] ^ 1, true
	case OpAnd:
		return a[0] & a[1], true
	case OpOr:
		return a[0] | a[1], true
	case OpEq:
		if isfp {
			if fpIsNaNBits(a[0], aw) && fpIsNaNBits(a[1], aw) {
				return 1, true
			}
		}
		return b2u(a[0] == a[1]), true
	case OpBVAdd:
		return (a[0] + a[1]) & mask(w), true
	case OpBVSub:
		return (a[0] - a[1]) & mask(w), true
	case OpBVMul:
		return (a[0] * a[1]) & mask(w), true
	case OpBVAnd:
		return a[0] & a[1], true
	case OpBVOr:
		return a[0] | a[1], true
	case OpBVXor:
		return a[0] ^ a[1], true
	case OpBVNot:
		return ^a[0] & mask(w), true
	case OpBVNeg:
		return (-a[0]) & mask(w), true
	case OpBVUDiv:
		if a[1] == 0 {
			return mask(w), true
		}
		return a[0] / a[1], true
	case OpBVURem:
		if a[1] == 0 {
			return a[0], true
		}
		return a[0] % a[1], true
	case OpBVSDiv:
		sx, sy := sext(a[0], w), sext(a[1], w)
		if sy == 0 {
			if sx < 0 {
				return 1, true
			}
			return mask(w), true
		}
		if sy == -1 {
			return uint64(-sx) & mask(w), true
		}
		return uint64(sx/sy) & mask(w), true
	case OpBVSRem:
		sx, sy := sext(a[0], w), sext(a[1], w)
		if sy == 0 {
			return a[0], true
		}
		if sy == -1 {
			return 0, true
		}
		return uint64(sx%sy) & mask(w), true
	case OpBVShl:
		if a[1] >= uint64(w) {
			return 0, true
		}
		return (a[0] << a[1]) & mask(w), true
	case OpBVLshr:
		if a[1] >= uint64(w) {
			return 0, true
		}
		return a[0] >> a[1], true
	case OpBVAshr:
		sx := sext(a[0], w)
		if a[1] >= uint64(w) {
			if sx < 0 {
				return mask(w), true
			}
			return 0, true
		}
		return uint64(sx>>a[1]) & mask(w), true
	case OpBVUlt:
		return b2u(a[0] < a[1]), true
	case OpBVUle:
		return b2u(a[0] <= a[1]), true
	case OpBVSlt:
		return b2u(sext(a[0], aw) < sext(a[1], aw)), true
	case OpBVSle:
		return b2u(sext(a[0], aw) <= sext(a[1], aw)), true
	case OpConcat:
		if w > 64 {
			return 0, false
		}
		return a[0]<<uint(t.Args[1].Sort.W) | a[1], true
	case OpExtract:
		return (a[0] >> uint(t.P2)) & mask(w), true
	case OpZeroExt:
		return a[0], true
	case OpSignExt:
		return uint64(sext(a[0], aw)) & mask(w), true
	case OpFPAdd, OpFPSub, OpFPMul, OpFPDiv:
		if w == 32 {
			x, y := math.Float32frombits(uint32(a[0])), math.Float32frombits(uint32(a[1]))
			var r float32
			switch t.Op {
			case OpFPAdd:
				r = x + y
			case OpFPSub:
				r = x - y
			case OpFPMul:
				r = x * y
			case OpFPDiv:
				r = x / y
			}
			return uint64(math.Float32bits(r)), true
		}
		x, y := fl(0), fl(1)
		var r float64
		switch t.Op {
		case OpFPAdd:
			r = x + y
		case OpFPSub:
			r = x - y
		case OpFPMul:
			r = x * y
		case OpFPDiv:
			r = x / y
		}
		return math.Float64bits(r), true
	case OpFPNeg:
		return a[0] ^ (1 << uint(w-1)), true
	case OpFPAbs:
		return a[0] &^ (1 << uint(w-1)), true
	case OpFPSqrt:
		if w == 32 {
			return uint64(math.Float32bits(float32(math.Sqrt(fl(0))))), true
		}
		return mkf(math.Sqrt(fl(0)), w)
	case OpFPRoundInt:
		x := fl(0)
		switch t.P1 {
		case rmRNE:
			x = math.RoundToEven(x)
		case rmRNA:
			x = math.Round(x)
		case rmRTP:
			x = math.Ceil(x)
		case rmRTN:
			x = math.Floor(x)
		case rmRTZ:
			x = math.Trunc(x)
		}
		return mkf(x, w)
	case OpFPLt:
		return b2u(fl(0) < fl(1)), true
	case OpFPLe:
		return b2u(fl(0) <= fl(1)), true
	case OpFPEq:
		return b2u(fl(0) == fl(1)), true
	case OpFPIsNaN:
		return b2u(fl(0) != fl(0)), true
	case OpFPIsInf:
		return b2u(math.IsInf(fl(0), 0)), true
	case OpFPIsZero:
		return b2u(fl(0) == 0), true
	case OpFPIsNeg:
		return b2u(fl(0) == fl(0) && math.Signbit(fl(0))), true
	case OpFPToFP:
		if w == 16 {
			return 0, false
		}
		return mkf(fl(0), w)
	case OpFPFromSBV:
		sv := sext(a[0], aw)
		if w == 32 {
			return uint64(math.Float32bits(float32(sv))), true
		}
		return mkf(float64(sv), w)
	case OpFPFromUBV:
		if w == 32 {
			return uint64(math.Float32bits(float32(a[0]))), true
		}
		return mkf(float64(a[0]), w)
	case OpFPFromBits:
		return a[0], true
	case OpFPToSBV:
		x := math.Trunc(fl(0))
		lim := math.Ldexp(1, w-1)
		if x != x || x >= lim || x < -lim {
			return 0, false // unspecified
		}
		return uint64(int64(x)) & mask(w), true
	case OpFPToUBV:
		x := math.Trunc(fl(0))
		lim := math.Ldexp(1, w)
		if x != x || x >= lim || x < 0 {
			return 0, false
		}
		if x >= math.Ldexp(1, 63) {
			return uint64(x-math.Ldexp(1, 63)) | 1<<63, true
		}
		return uint64(x) & mask(w), true
	}
	_ = bits.Len
	return 0, false
}
