package main

// If-conversion of small pure diamonds/triangles on symbolic conditions
// (avoids forking for &&, ||, clamps, min/max ...), freeze write barrier and
// map-order nondeterminism.

import (
	"fmt"
	"go/token"
	"go/types"
	"sync"

	"golang.org/x/tools/go/ssa"
)

type mergeInfo struct {
	ok         bool
	tBlk, eBlk *ssa.BasicBlock // nil when the edge goes straight to join
	join       *ssa.BasicBlock
}

var mergeCache sync.Map // mergeKey -> *mergeInfo

type mergeKey struct{ b, s0, s1 *ssa.BasicBlock }

type specAbort struct{}

func pureBlock(b *ssa.BasicBlock) bool { return pureBlockEnding(b, false) }

// pureBlockEnding checks that b has a single predecessor and only side-effect-free
// instructions, ending in a Jump (wantIf=false) or an If (wantIf=true).
func pureBlockEnding(b *ssa.BasicBlock, wantIf bool) bool {
	if (len(b.Preds) != 1 && (wantIf || hasPhi(b))) || len(b.Instrs) > 24 {
		return false
	}
	for i, ins := range b.Instrs {
		last := i == len(b.Instrs)-1
		switch x := ins.(type) {
		case *ssa.Phi:
			return false
		case *ssa.If:
			if !last || !wantIf {
				return false
			}
		case *ssa.Jump:
			if !last || wantIf {
				return false
			}
		case *ssa.Return:
			return false
		case *ssa.BinOp, *ssa.ChangeType, *ssa.Field, *ssa.FieldAddr, *ssa.Extract,
			*ssa.MakeInterface, *ssa.ChangeInterface, *ssa.DebugRef, *ssa.IndexAddr, *ssa.Index:
		case *ssa.UnOp:
			if x.Op == token.ARROW {
				return false
			}
		case *ssa.Convert:
			if _, ok := x.Type().Underlying().(*types.Basic); !ok {
				return false
			}
			if b, ok := x.X.Type().Underlying().(*types.Basic); !ok || b.Info()&types.IsString != 0 {
				return false
			}
			if b := x.Type().Underlying().(*types.Basic); b.Info()&types.IsString != 0 {
				return false
			}
		default:
			return false
		}
	}
	if wantIf {
		_, ok := b.Instrs[len(b.Instrs)-1].(*ssa.If)
		return ok
	}
	_, ok := b.Instrs[len(b.Instrs)-1].(*ssa.Jump)
	return ok
}

func hasPhi(b *ssa.BasicBlock) bool {
	if len(b.Instrs) == 0 {
		return false
	}
	_, ok := b.Instrs[0].(*ssa.Phi)
	return ok
}

type scInfo struct {
	kind int // 0 none, 1 OR (s1 is the second condition), 2 AND (s0 is the second condition)
}

var scCache sync.Map // mergeKey -> *scInfo

// foldShortCircuit recognises `c || c1` and `c && c1` control flow: the second condition
// lives in a pure block that branches to the same target as the first. It evaluates the
// second condition speculatively and returns the combined branch.
func (in *interp) foldShortCircuit(fr *frame, cur *ssa.BasicBlock, c *Sym, s0, s1 *ssa.BasicBlock) (*ssa.BasicBlock, value, *ssa.BasicBlock, *ssa.BasicBlock, bool) {
	if in.noMerge {
		return nil, nil, nil, nil, false
	}
	key := mergeKey{cur, s0, s1}
	var info *scInfo
	if v, ok := scCache.Load(key); ok {
		info = v.(*scInfo)
	} else {
		info = &scInfo{}
		switch {
		case s1 != s0 && pureBlockEnding(s1, true) && s1.Preds[0] == cur && s1.Succs[0] == s0 && !hasPhi(s0) && s1.Succs[1] != s1:
			info.kind = 1
		case s1 != s0 && pureBlockEnding(s0, true) && s0.Preds[0] == cur && s0.Succs[1] == s1 && !hasPhi(s1) && s0.Succs[0] != s0:
			info.kind = 2
		}
		scCache.Store(key, info)
	}
	if info.kind == 0 {
		return nil, nil, nil, nil, false
	}
	cb := s1
	if info.kind == 2 {
		cb = s0
	}
	var c1 value
	ok := func() (ok bool) {
		in.spec++
		saveB, saveP := fr.block, fr.prevBlock
		defer func() {
			in.spec--
			fr.block, fr.prevBlock = saveB, saveP
			if r := recover(); r != nil {
				switch r.(type) {
				case specAbort, runtimePanic, targetPanic:
					ok = false
				default:
					panic(r)
				}
			}
		}()
		fr.block, fr.prevBlock = cb, cur
		for _, ins := range cb.Instrs {
			switch x := ins.(type) {
			case *ssa.If:
				c1 = fr.get(x.Cond)
				return true
			case *ssa.Phi:
				panic(specAbort{})
			}
			in.visitInstr(fr, ins)
		}
		return false
	}()
	if !ok {
		return nil, nil, nil, nil, false
	}
	t1 := in.termOf(c1)
	if info.kind == 1 {
		return cb, in.mk(types.Bool, in.tp.Or(c.T, t1)), s0, cb.Succs[1], true
	}
	return cb, in.mk(types.Bool, in.tp.And(c.T, t1)), cb.Succs[0], s1, true
}

func analyzeMerge(b, s0, s1 *ssa.BasicBlock) *mergeInfo {
	mi := &mergeInfo{}
	p0, p1 := pureBlock(s0), pureBlock(s1)
	switch {
	case p0 && p1 && s0.Succs[0] == s1.Succs[0] && s0 != s1:
		mi.ok, mi.tBlk, mi.eBlk, mi.join = true, s0, s1, s0.Succs[0]
	case p0 && s0.Succs[0] == s1:
		mi.ok, mi.tBlk, mi.join = true, s0, s1
	case p1 && s1.Succs[0] == s0:
		mi.ok, mi.eBlk, mi.join = true, s1, s0
	}
	if mi.ok && (mi.join == b || mi.join == mi.tBlk || mi.join == mi.eBlk) {
		mi.ok = false
	}
	return mi
}

// tryMerge attempts to execute both arms of a pure conditional and merge the
// join-block phis into ite terms. Returns true when control has been moved to
// the join block (phis already assigned).
func (in *interp) tryMerge(fr *frame, b, s0, s1 *ssa.BasicBlock, cond *Sym) (merged bool) {
	if in.noMerge {
		return false
	}
	var mi *mergeInfo
	key := mergeKey{b, s0, s1}
	if v, ok := mergeCache.Load(key); ok {
		mi = v.(*mergeInfo)
	} else {
		mi = analyzeMerge(b, s0, s1)
		mergeCache.Store(key, mi)
	}
	if !mi.ok {
		return false
	}
	// speculative execution of the arms
	ok := func() (ok bool) {
		in.spec++
		defer func() {
			in.spec--
			if r := recover(); r != nil {
				switch r.(type) {
				case specAbort, runtimePanic, targetPanic:
					ok = false
				default:
					panic(r)
				}
			}
		}()
		for _, blk := range []*ssa.BasicBlock{mi.tBlk, mi.eBlk} {
			if blk == nil {
				continue
			}
			saveB, saveP := fr.block, fr.prevBlock
			fr.block, fr.prevBlock = blk, b
			for _, ins := range blk.Instrs {
				if _, isJump := ins.(*ssa.Jump); isJump {
					break
				}
				if _, isPhi := ins.(*ssa.Phi); isPhi {
					panic(specAbort{})
				}
				in.visitInstr(fr, ins)
			}
			fr.block, fr.prevBlock = saveB, saveP
		}
		return true
	}()
	fr.block = b
	if !ok {
		return false
	}
	// compute phis of the join block
	j := mi.join
	predT, predE := b, b
	if mi.tBlk != nil {
		predT = mi.tBlk
	}
	if mi.eBlk != nil {
		predE = mi.eBlk
	}
	it, ie := -1, -1
	for i, p := range j.Preds {
		if p == predT && it < 0 {
			it = i
		}
		if p == predE {
			ie = i
		}
	}
	if predT == predE {
		// both edges from the same block (degenerate)
		return false
	}
	if it < 0 || ie < 0 {
		return false
	}
	var phis []*ssa.Phi
	var vals []value
	for _, ins := range j.Instrs {
		phi, isPhi := ins.(*ssa.Phi)
		if !isPhi {
			break
		}
		vt, ve := fr.get(phi.Edges[it]), fr.get(phi.Edges[ie])
		kt, ok1 := kindOfValue(vt)
		ke, ok2 := kindOfValue(ve)
		if ok1 && ok2 && kt == ke {
			vals = append(vals, in.mk(kt, in.tp.Ite(cond.T, in.termOf(vt), in.termOf(ve))))
		} else if sameRef(vt, ve) {
			vals = append(vals, vt)
		} else {
			return false
		}
		phis = append(phis, phi)
	}
	for i, phi := range phis {
		fr.env[phi] = vals[i]
	}
	fr.prevBlock, fr.block = predT, j
	fr.phisDone = true
	return true
}

// pureReturnBlock: single predecessor, side-effect-free instructions, ending in a Return.
func pureReturnBlock(b *ssa.BasicBlock) bool {
	if len(b.Preds) != 1 || len(b.Instrs) > 24 || len(b.Instrs) == 0 {
		return false
	}
	for i, ins := range b.Instrs {
		last := i == len(b.Instrs)-1
		switch x := ins.(type) {
		case *ssa.Return:
			return last && len(x.Results) >= 1
		case *ssa.BinOp, *ssa.ChangeType, *ssa.Field, *ssa.Extract, *ssa.DebugRef:
		case *ssa.UnOp:
			if x.Op == token.ARROW || x.Op == token.MUL {
				return false
			}
		case *ssa.Convert:
			if _, ok := x.Type().Underlying().(*types.Basic); !ok {
				return false
			}
			if b, ok := x.X.Type().Underlying().(*types.Basic); !ok || b.Info()&types.IsString != 0 {
				return false
			}
			if b := x.Type().Underlying().(*types.Basic); b.Info()&types.IsString != 0 {
				return false
			}
		default:
			return false
		}
	}
	return false
}

var retMergeCache sync.Map // mergeKey -> bool

// tryMergeReturns folds `if c { return a }; return b` (both arms pure blocks ending in a
// Return of scalar values) into a single return of ite(c, a, b).
func (in *interp) tryMergeReturns(fr *frame, b, s0, s1 *ssa.BasicBlock, cond *Sym) bool {
	if in.noMerge || s0 == s1 {
		return false
	}
	key := mergeKey{b, s0, s1}
	var okShape bool
	if v, ok := retMergeCache.Load(key); ok {
		okShape = v.(bool)
	} else {
		okShape = pureReturnBlock(s0) && pureReturnBlock(s1) &&
			len(s0.Instrs[len(s0.Instrs)-1].(*ssa.Return).Results) == len(s1.Instrs[len(s1.Instrs)-1].(*ssa.Return).Results)
		retMergeCache.Store(key, okShape)
	}
	if !okShape {
		return false
	}
	var res [2][]value
	ok := func() (ok bool) {
		in.spec++
		defer func() {
			in.spec--
			if r := recover(); r != nil {
				switch r.(type) {
				case specAbort, runtimePanic, targetPanic:
					ok = false
				default:
					panic(r)
				}
			}
		}()
		for k, blk := range []*ssa.BasicBlock{s0, s1} {
			saveB, saveP := fr.block, fr.prevBlock
			fr.block, fr.prevBlock = blk, b
			for _, ins := range blk.Instrs {
				if ret, isRet := ins.(*ssa.Return); isRet {
					for _, r := range ret.Results {
						res[k] = append(res[k], fr.get(r))
					}
					break
				}
				in.visitInstr(fr, ins)
			}
			fr.block, fr.prevBlock = saveB, saveP
		}
		return true
	}()
	fr.block = b
	if !ok {
		return false
	}
	out := make([]value, len(res[0]))
	for i := range res[0] {
		vt, ve := res[0][i], res[1][i]
		kt, ok1 := kindOfValue(vt)
		ke, ok2 := kindOfValue(ve)
		if ok1 && ok2 && kt == ke {
			out[i] = in.mk(kt, in.tp.Ite(cond.T, in.termOf(vt), in.termOf(ve)))
		} else if sameRef(vt, ve) {
			out[i] = vt
		} else {
			return false
		}
	}
	if len(out) == 1 {
		fr.result = out[0]
	} else {
		fr.result = tuple(out)
	}
	fr.block = nil
	return true
}

// sameRef reports whether two non-scalar values are trivially identical.
func sameRef(a, b value) bool {
	switch x := a.(type) {
	case string:
		y, ok := b.(string)
		return ok && x == y
	case *value:
		y, ok := b.(*value)
		return ok && x == y
	case *Map:
		y, ok := b.(*Map)
		return ok && x == y
	case iface:
		y, ok := b.(iface)
		if !ok {
			return false
		}
		if x.t == nil || y.t == nil {
			return x.t == nil && y.t == nil
		}
		return false
	}
	return false
}

// ---- freeze ----

func (in *interp) freeze(root value) {
	if in.frozen == nil {
		in.frozen = map[*value]bool{}
	}
	if in.frozenMaps == nil {
		in.frozenMaps = map[*Map]bool{}
	}
	seen := map[*value]bool{}
	var walk func(v value)
	walkCell := func(c *value) {
		if c == nil || seen[c] {
			return
		}
		seen[c] = true
		in.frozen[c] = true
		walk(*c)
	}
	walk = func(v value) {
		switch x := v.(type) {
		case *value:
			walkCell(x)
		case structure:
			for i := range x {
				walkCell(&x[i])
			}
		case array:
			for i := range x {
				walkCell(&x[i])
			}
		case []value:
			for i := range x {
				walkCell(&x[i])
			}
		case iface:
			walk(x.v)
		case *Map:
			if x == nil || in.frozenMaps[x] {
				return
			}
			in.frozenMaps[x] = true
			for i := range x.keys {
				walk(x.keys[i])
				walkCell(&x.vals[i])
			}
		case *closure:
			for _, e := range x.Env {
				walk(e)
			}
		}
	}
	walk(root)
}

func (in *interp) checkFrozen(fr *frame, addr *value) {
	if in.frozen[addr] {
		in.freezeEv = append(in.freezeEv, fmt.Sprintf("store into frozen memory in %s at %s", fr.fn.String(), in.prog.Fset.Position(fr.callpos)))
	}
}

// ---- map order ----

func (in *interp) permuteMapOrder(it *mapIter) {
	if in.mapOrderBudget <= 0 {
		return
	}
	in.mapOrderBudget--
	in.mapOrderSites++
	name := fmt.Sprintf("zz!maporder%d", in.mapOrderSites)
	v := in.tp.Var(name, sortBool)
	if in.path.decide(v, "map iteration order") {
		for i, j := 0, len(it.order)-1; i < j; i, j = i+1, j-1 {
			it.order[i], it.order[j] = it.order[j], it.order[i]
		}
	}
}
