package main

// World: the loaded program (regenerated from /repo's working tree on every
// run), shared immutable state, and per-path interpreter construction.

import (
	"fmt"
	"go/types"
	"os"
	"path/filepath"
	"sort"
	"strings"
	"sync"

	"golang.org/x/tools/go/packages"
	"golang.org/x/tools/go/ssa"
	"golang.org/x/tools/go/ssa/ssautil"
)

const modPath = "github.com/gogpu/naga"

type World struct {
	prog      *ssa.Program
	pkgs      []*packages.Package
	ssaPkgs   map[string]*ssa.Package
	externals map[string]externalFn
	stdGlob   map[*ssa.Global]*value // initialised once, shared (read-only afterwards)
	modGlobs  []*ssa.Global          // globals of module packages: fresh per path
	maxAlloc  int64
	overlay   map[string][]byte
	repo      string
	errStrT   types.Type // *errors.errorString
	loadSecs  float64
	nFuncs    int
	stdInitOK map[string]bool
	fnOnce    sync.Once
	fnIndex   map[string]*ssa.Function
}

type externalFn func(fr *frame, args []value) (value, bool)

// stdInterpreted lists the standard-library packages whose initialisers are run
// and whose globals are therefore meaningful inside the interpreter.
var stdInitAllow = map[string]bool{
	"unicode": true, "unicode/utf8": true, "unicode/utf16": true, "strconv": true, "strings": true, "bytes": true,
	"math": true, "math/bits": true, "sort": true, "slices": true, "errors": false,
	"internal/strconv": true, "internal/stringslite": true, "internal/itoa": true, "cmp": true, "maps": true,
	"encoding/binary": false, "io": false,
}

func isModulePkg(path string) bool {
	return path == modPath || strings.HasPrefix(path, modPath+"/")
}

// LoadWorld loads the given package patterns of the repo with the harness overlay.
func LoadWorld(repo string, overlay map[string][]byte, patterns []string) (*World, error) {
	cfg := &packages.Config{
		Mode:       packages.LoadAllSyntax,
		Dir:        repo,
		BuildFlags: []string{"-tags=verif"},
		Overlay:    overlay,
		Env:        append(os.Environ(), "GOFLAGS=-mod=mod", "GOPROXY=off", "GOSUMDB=off", "GOTOOLCHAIN=local", "CGO_ENABLED=0"),
	}
	pkgs, err := packages.Load(cfg, patterns...)
	if err != nil {
		return nil, err
	}
	var errs []string
	packages.Visit(pkgs, nil, func(p *packages.Package) {
		for _, e := range p.Errors {
			errs = append(errs, e.Error())
		}
	})
	if len(errs) > 0 {
		return nil, fmt.Errorf("package load errors:\n%s", strings.Join(errs, "\n"))
	}
	prog, _ := ssautil.AllPackages(pkgs, ssa.InstantiateGenerics|ssa.SanityCheckFunctions&0)
	prog.Build()
	w := &World{prog: prog, pkgs: pkgs, ssaPkgs: map[string]*ssa.Package{}, externals: map[string]externalFn{},
		stdGlob: map[*ssa.Global]*value{}, maxAlloc: 1 << 22, overlay: overlay, repo: repo, stdInitOK: map[string]bool{}}
	for _, p := range prog.AllPackages() {
		w.ssaPkgs[p.Pkg.Path()] = p
	}
	for _, p := range prog.AllPackages() {
		for _, m := range p.Members {
			if g, ok := m.(*ssa.Global); ok {
				if isModulePkg(p.Pkg.Path()) {
					w.modGlobs = append(w.modGlobs, g)
				} else {
					cell := zero(mustDeref(g.Type()))
					w.stdGlob[g] = &cell
				}
			}
		}
	}
	sort.Slice(w.modGlobs, func(i, j int) bool { return w.modGlobs[i].String() < w.modGlobs[j].String() })
	w.nFuncs = len(ssautil.AllFunctions(prog))
	if ep := w.ssaPkgs["errors"]; ep != nil {
		if t := ep.Type("errorString"); t != nil {
			w.errStrT = types.NewPointer(t.Type())
		}
	}
	registerExternals(w)
	// run standard library initialisers once
	in := w.newInterp(nil, nil)
	in.globals = map[*ssa.Global]*value{}
	in.stdInit = true
	in.maxSteps = 1 << 40
	func() {
		defer func() {
			if r := recover(); r != nil {
				err = fmt.Errorf("stdlib init failed: %v", describePanic(r))
			}
		}()
		var names []string
		for path := range stdInitAllow {
			names = append(names, path)
		}
		sort.Strings(names)
		for _, path := range names {
			if !stdInitAllow[path] {
				continue
			}
			if p := w.ssaPkgs[path]; p != nil {
				if f := p.Func("init"); f != nil {
					in.call(nil, 0, f, nil)
					w.stdInitOK[path] = true
				}
			}
		}
	}()
	if err != nil {
		return nil, err
	}
	return w, nil
}

func describePanic(r any) string {
	switch r := r.(type) {
	case unsupported:
		return "unsupported: " + r.msg
	case runtimePanic:
		return "runtime error: " + r.msg
	case targetPanic:
		return "panic: " + toString(r.v)
	case limitHit:
		return "limit: " + r.msg
	case error:
		return r.Error()
	}
	return fmt.Sprint(r)
}

func (w *World) errorStringType() types.Type { return w.errStrT }

// newErrorString builds a *errors.errorString value.
func (w *World) newErrorString(msg value) value {
	var cell value = structure{msg}
	return &cell
}

func (w *World) mkError(msg value) value {
	return iface{t: w.errStrT, v: w.newErrorString(msg)}
}

// newInterp creates an interpreter for one path. Module globals are fresh;
// standard-library globals are shared.
func (w *World) newInterp(p *Path, tp *TermPool) *interp {
	in := &interp{w: w, prog: w.prog, tp: tp, path: p, maxSteps: 400_000_000, maxDepth: 600, unwind: 100000,
		reach: map[string]bool{}, notes: map[string]string{}, symCalls: map[string]bool{}, overrides: map[string]value{}}
	if tp == nil {
		in.tp = NewTermPool()
	}
	in.globals = make(map[*ssa.Global]*value, len(w.modGlobs))
	for _, g := range w.modGlobs {
		cell := zero(mustDeref(g.Type()))
		in.globals[g] = &cell
	}
	return in
}

// harness file helpers

func readOverlayDir(dir, repo string) (map[string][]byte, error) {
	ov := map[string][]byte{}
	err := filepath.Walk(dir, func(path string, info os.FileInfo, err error) error {
		if err != nil || info.IsDir() {
			return err
		}
		if !strings.HasSuffix(path, ".go") {
			return nil
		}
		rel, _ := filepath.Rel(dir, path)
		b, err := os.ReadFile(path)
		if err != nil {
			return err
		}
		ov[filepath.Join(repo, rel)] = b
		return nil
	})
	return ov, err
}

// funcByName finds a package-level function or method by its ssa String() name.
func (w *World) funcByName(name string) *ssa.Function {
	w.fnOnce.Do(func() {
		w.fnIndex = map[string]*ssa.Function{}
		for f := range ssautil.AllFunctions(w.prog) {
			w.fnIndex[f.String()] = f
		}
	})
	return w.fnIndex[name]
}
