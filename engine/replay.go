package main

// Native replay: solver models are run against the real build through
// `go test -overlay`, using the same harness source and the native zzverif.

import (
	"bufio"
	"bytes"
	"encoding/json"
	"fmt"
	"os"
	"os/exec"
	"path/filepath"
	"sort"
	"strings"
)

type replayReport struct {
	total      int
	agree      int
	disagree   int
	reproduced map[*Witness]bool
	detail     map[*Witness]string
	summary    []string
}

type replayVec struct {
	ID      string            `json:"id"`
	Harness string            `json:"harness"`
	Values  map[string]uint64 `json:"values"`
	Expect  string            `json:"expect"` // "fail", "panic", "pass"
}

func goEnv() []string {
	env := os.Environ()
	env = append(env, "GOFLAGS=-mod=mod", "GOPROXY=off", "GOSUMDB=off", "GOTOOLCHAIN=local", "CGO_ENABLED=0")
	// prefer the newer toolchain (repo needs go >= 1.25)
	for i, e := range env {
		if strings.HasPrefix(e, "PATH=") {
			env[i] = "PATH=/opt/veriftools/go1.26.8/bin:" + e[5:]
		}
	}
	return env
}

func nativeReplay(w *World, repo, verif string, overlay map[string][]byte, results []*HarnessResult, prop string) *replayReport {
	rep := &replayReport{reproduced: map[*Witness]bool{}, detail: map[*Witness]string{}}
	// group vectors per package directory
	type pkgVecs struct {
		dir, pkgName string
		vecs         []replayVec
		fns          map[string]bool
	}
	byPkg := map[string]*pkgVecs{}
	witByID := map[string]*Witness{}
	for _, r := range results {
		// r.Name is "import/path.Func"
		i := strings.LastIndex(r.Name, ".")
		ipath, fname := r.Name[:i], r.Name[i+1:]
		sp := w.ssaPkgs[ipath]
		if sp == nil {
			continue
		}
		rel := strings.TrimPrefix(strings.TrimPrefix(ipath, modPath), "/")
		pv := byPkg[ipath]
		if pv == nil {
			pv = &pkgVecs{dir: rel, pkgName: sp.Pkg.Name(), fns: map[string]bool{}}
			byPkg[ipath] = pv
		}
		pv.fns[fname] = true
		for k, wt := range r.Witnesses {
			if wt.Msg == "vacuity twin" {
				continue
			}
			id := fmt.Sprintf("w:%s:%d", fname, k)
			exp := "fail"
			if wt.Kind == "panic" {
				exp = "panic"
			}
			if wt.Kind == "bound" {
				exp = "crash"
			}
			pv.vecs = append(pv.vecs, replayVec{ID: id, Harness: fname, Values: wt.Values, Expect: exp})
			witByID[id] = wt
		}
		for k, s := range r.Samples {
			vals := map[string]uint64{}
			if in, ok := s["inputs"].(map[string]string); ok {
				for n, hv := range in {
					var u uint64
					fmt.Sscanf(hv, "0x%x", &u)
					vals[n] = u
				}
			}
			if s["outcome"] != "ok" {
				continue
			}
			pv.vecs = append(pv.vecs, replayVec{ID: fmt.Sprintf("s:%s:%d", fname, k), Harness: fname, Values: vals, Expect: "pass"})
		}
	}
	tmp, err := os.MkdirTemp("", "zzreplay")
	if err != nil {
		rep.summary = append(rep.summary, "mkdtemp: "+err.Error())
		return rep
	}
	defer os.RemoveAll(tmp)
	var ipaths []string
	for ip := range byPkg {
		ipaths = append(ipaths, ip)
	}
	sort.Strings(ipaths)
	for _, ip := range ipaths {
		pv := byPkg[ip]
		if len(pv.vecs) == 0 {
			continue
		}
		// inputs expected to exhaust the stack or hang kill the test process: run them last
		sort.SliceStable(pv.vecs, func(i, j int) bool { return pv.vecs[i].Expect != "crash" && pv.vecs[j].Expect == "crash" })
		vecFile := filepath.Join(tmp, "vectors_"+pv.pkgName+".json")
		vb, _ := json.Marshal(pv.vecs)
		os.WriteFile(vecFile, vb, 0o644)
		// test file
		var tb strings.Builder
		tb.WriteString("//go:build verif\n\npackage " + pv.pkgName + "\n\n")
		tb.WriteString("import (\n\t\"encoding/json\"\n\t\"fmt\"\n\t\"os\"\n\t\"testing\"\n\n\tzz \"" + zzPkg + "\"\n)\n\n")
		tb.WriteString("type zzVec struct {\n\tID, Harness, Expect string\n\tValues map[string]uint64\n}\n\n")
		tb.WriteString("func TestZZReplay(t *testing.T) {\n")
		tb.WriteString("\tfns := map[string]func(){\n")
		var fl []string
		for f := range pv.fns {
			fl = append(fl, f)
		}
		sort.Strings(fl)
		for _, f := range fl {
			tb.WriteString("\t\t\"" + f + "\": " + f + ",\n")
		}
		tb.WriteString("\t}\n")
		tb.WriteString("\tb, err := os.ReadFile(os.Getenv(\"ZZ_VECTORS\"))\n\tif err != nil {\n\t\tt.Fatal(err)\n\t}\n")
		tb.WriteString("\tvar vecs []zzVec\n\tif err := json.Unmarshal(b, &vecs); err != nil {\n\t\tt.Fatal(err)\n\t}\n")
		tb.WriteString("\tfor _, v := range vecs {\n\t\tfunc() {\n\t\t\tzz.SetReplay(v.Values)\n")
		tb.WriteString("\t\t\tdefer func() {\n\t\t\t\tif r := recover(); r != nil {\n\t\t\t\t\tif _, ok := r.(zz.AssumeFailed); ok {\n\t\t\t\t\t\tfmt.Printf(\"ZZREPLAY %s ASSUME\\n\", v.ID)\n\t\t\t\t\t\treturn\n\t\t\t\t\t}\n")
		tb.WriteString("\t\t\t\t\tfmt.Printf(\"ZZREPLAY %s PANIC %v\\n\", v.ID, r)\n\t\t\t\t\treturn\n\t\t\t\t}\n")
		tb.WriteString("\t\t\t\tif len(zz.Failures) > 0 {\n\t\t\t\t\tfmt.Printf(\"ZZREPLAY %s FAIL %q\\n\", v.ID, zz.Failures)\n\t\t\t\t} else {\n\t\t\t\t\tfmt.Printf(\"ZZREPLAY %s PASS\\n\", v.ID)\n\t\t\t\t}\n\t\t\t}()\n")
		tb.WriteString("\t\t\tfns[v.Harness]()\n\t\t}()\n\t}\n}\n")
		ov := map[string]string{}
		n := 0
		for path, b := range overlay {
			n++
			real := filepath.Join(tmp, fmt.Sprintf("f%d_%s", n, filepath.Base(path)))
			os.WriteFile(real, b, 0o644)
			ov[path] = real
		}
		testPath := filepath.Join(repo, pv.dir, "zz_replay_test.go")
		realTest := filepath.Join(tmp, "zz_replay_test_"+pv.pkgName+".go")
		os.WriteFile(realTest, []byte(tb.String()), 0o644)
		ov[testPath] = realTest
		ovb, _ := json.Marshal(map[string]any{"Replace": ov})
		ovFile := filepath.Join(tmp, "overlay_"+pv.pkgName+".json")
		os.WriteFile(ovFile, ovb, 0o644)
		cmd := exec.Command("go", "test", "-tags", "verif", "-vet=off", "-count=1", "-v", "-overlay", ovFile, "-run", "^TestZZReplay$", "-timeout", "300s", "./"+pv.dir)
		cmd.Dir = repo
		cmd.Env = append(goEnv(), "ZZ_VECTORS="+vecFile)
		var out bytes.Buffer
		cmd.Stdout = &out
		cmd.Stderr = &out
		runErr := cmd.Run()
		got := map[string]string{}
		crashed := runErr != nil && (strings.Contains(out.String(), "stack overflow") || strings.Contains(out.String(), "goroutine stack exceeds") ||
			strings.Contains(out.String(), "test timed out") || strings.Contains(out.String(), "out of memory"))
		sc := bufio.NewScanner(&out)
		sc.Buffer(make([]byte, 1<<20), 1<<24)
		var tail []string
		for sc.Scan() {
			line := sc.Text()
			if strings.HasPrefix(line, "ZZREPLAY ") {
				f := strings.SplitN(line, " ", 4)
				if len(f) >= 3 {
					got[f[1]] = strings.Join(f[2:], " ")
				}
			} else {
				tail = append(tail, line)
				if len(tail) > 15 {
					tail = tail[1:]
				}
			}
		}
		if os.Getenv("SYMGO_DEBUG") != "" {
			fmt.Fprintf(os.Stderr, "replay go test: err=%v tail=%s\n", runErr, strings.Join(tail, "\n"))
		}
		if len(got) == 0 && runErr != nil && !crashed {
			rep.summary = append(rep.summary, fmt.Sprintf("%s: go test failed: %v: %s", ip, runErr, strings.Join(tail, " | ")))
		}
		for _, v := range pv.vecs {
			rep.total++
			g := got[v.ID]
			ok := false
			switch v.Expect {
			case "fail":
				ok = strings.HasPrefix(g, "FAIL")
			case "panic":
				ok = strings.HasPrefix(g, "PANIC")
			case "pass":
				ok = strings.HasPrefix(g, "PASS")
			case "crash":
				// the process died with a fatal runtime error (or timed out) before this
				// vector could report: the resource exhaustion is reproduced natively
				ok = g == "" && crashed
				if ok {
					g = "CRASH (fatal runtime error / timeout in the native run)"
				}
			}
			if wt := witByID[v.ID]; wt != nil {
				rep.reproduced[wt] = ok
				rep.detail[wt] = g
			}
			if ok {
				rep.agree++
			} else {
				rep.disagree++
				rep.summary = append(rep.summary, fmt.Sprintf("%s expected %s got %q", v.ID, v.Expect, g))
			}
		}
	}
	return rep
}
