package main

// vcheck selftest: discharges, at reduced widths, the lemmas behind the term rewrites of
// term.go (they are applied at full width, which the solvers cannot decide directly), and
// compares the amd64 float->int conversion model with the native build on boundary and
// pseudo-random values.

import (
	"fmt"
	"go/types"
	"math"
	"math/bits"
	"os"
	"os/exec"
	"strings"
)

type lemma struct {
	name string
	smt  string // asserts the NEGATION of the lemma; expected answer: unsat
}

func lemmas() []lemma {
	var ls []lemma
	decl8 := "(declare-const a (_ BitVec 8))(declare-const b (_ BitVec 8))"
	// 1. modular operations commute with truncation (8 <- 16 bits)
	for _, op := range []string{"bvadd", "bvsub", "bvmul", "bvand", "bvor", "bvxor"} {
		ls = append(ls, lemma{"narrow-" + op, decl8 + "(declare-const x (_ BitVec 16))(declare-const y (_ BitVec 16))" +
			fmt.Sprintf("(assert (not (= ((_ extract 7 0) (%s x y)) (%s ((_ extract 7 0) x) ((_ extract 7 0) y)))))", op, op)})
	}
	// 2. division of extended operands
	ls = append(ls, lemma{"sdiv-sext", decl8 + `(assert (not (= (bvsdiv ((_ sign_extend 8) a) ((_ sign_extend 8) b))
		(ite (and (= a #x80) (= b #xff)) #x0080 ((_ sign_extend 8) (bvsdiv a b))))))`})
	ls = append(ls, lemma{"srem-sext", decl8 + `(assert (not (= (bvsrem ((_ sign_extend 8) a) ((_ sign_extend 8) b)) ((_ sign_extend 8) (bvsrem a b)))))`})
	ls = append(ls, lemma{"udiv-zext", decl8 + `(assert (not (= (bvudiv ((_ zero_extend 8) a) ((_ zero_extend 8) b))
		(ite (= b #x00) #xffff ((_ zero_extend 8) (bvudiv a b))))))`})
	ls = append(ls, lemma{"urem-zext", decl8 + `(assert (not (= (bvurem ((_ zero_extend 8) a) ((_ zero_extend 8) b)) ((_ zero_extend 8) (bvurem a b)))))`})
	ls = append(ls, lemma{"sdiv-nonneg-is-udiv", decl8 + `(assert (not (= (bvsdiv ((_ zero_extend 8) a) ((_ zero_extend 8) b)) (bvudiv ((_ zero_extend 8) a) ((_ zero_extend 8) b)))))`})
	ls = append(ls, lemma{"srem-nonneg-is-urem", decl8 + `(assert (not (= (bvsrem ((_ zero_extend 8) a) ((_ zero_extend 8) b)) (bvurem ((_ zero_extend 8) a) ((_ zero_extend 8) b)))))`})
	ls = append(ls, lemma{"rem-from-div-signed", decl8 + `(assert (not (= (bvsub a (bvmul (bvsdiv a b) b)) (bvsrem a b))))`})
	ls = append(ls, lemma{"rem-from-div-unsigned", decl8 + `(assert (not (= (bvsub a (bvmul (bvudiv a b) b)) (bvurem a b))))`})
	// 3. arithmetic on sign-extended operands at the narrowest non-overflowing width
	ls = append(ls, lemma{"extarith-mul", decl8 + `(assert (not (= (bvmul ((_ sign_extend 24) a) ((_ sign_extend 24) b))
		((_ sign_extend 16) (bvmul ((_ sign_extend 8) a) ((_ sign_extend 8) b))))))`})
	ls = append(ls, lemma{"extarith-add", decl8 + `(assert (not (= (bvadd ((_ sign_extend 24) a) ((_ sign_extend 24) b))
		((_ sign_extend 23) (bvadd ((_ sign_extend 1) a) ((_ sign_extend 1) b))))))`})
	ls = append(ls, lemma{"extarith-sub-mixed", decl8 + `(assert (not (= (bvsub ((_ zero_extend 24) a) ((_ sign_extend 24) b))
		((_ sign_extend 22) (bvsub ((_ zero_extend 2) a) ((_ sign_extend 2) b))))))`})
	// 4. exact integer arithmetic inside a float format (Float32: 24-bit significand; operands 8 bits)
	f32 := func(t string) string { return "((_ to_fp 8 24) RNE " + t + ")" }
	ls = append(ls, lemma{"intfloat-add", decl8 + "(assert (not (= (fp.add RNE " + f32("a") + " " + f32("b") + ") " + f32("(bvadd ((_ sign_extend 1) a) ((_ sign_extend 1) b))") + ")))"})
	ls = append(ls, lemma{"intfloat-sub", decl8 + "(assert (not (= (fp.sub RNE " + f32("a") + " " + f32("b") + ") " + f32("(bvsub ((_ sign_extend 1) a) ((_ sign_extend 1) b))") + ")))"})
	ls = append(ls, lemma{"intfloat-mul", decl8 + `(define-fun p () (_ BitVec 16) (bvmul ((_ sign_extend 8) a) ((_ sign_extend 8) b)))
		(assert (not (= (fp.mul RNE ` + f32("a") + " " + f32("b") + `)
		(ite (and (= p #x0000) (not (= (bvslt a #x00) (bvslt b #x00)))) (_ -zero 8 24) ` + f32("p") + `))))`})
	ls = append(ls, lemma{"intfloat-lt", decl8 + "(assert (not (= (fp.lt " + f32("a") + " " + f32("b") + ") (bvslt a b))))"})
	ls = append(ls, lemma{"intfloat-le", decl8 + "(assert (not (= (fp.leq " + f32("a") + " " + f32("b") + ") (bvsle a b))))"})
	ls = append(ls, lemma{"intfloat-eq", decl8 + "(assert (not (= (fp.eq " + f32("a") + " " + f32("b") + ") (= a b))))"})
	ls = append(ls, lemma{"intfloat-round", decl8 + "(assert (not (= (fp.roundToIntegral RTZ " + f32("a") + ") " + f32("a") + ")))"})
	ls = append(ls, lemma{"intfloat-to-sbv", decl8 + "(assert (not (= ((_ fp.to_sbv 16) RTZ " + f32("a") + ") ((_ sign_extend 8) a))))"})
	for _, z := range []string{"(_ +zero 8 24)", "(_ -zero 8 24)"} {
		ls = append(ls, lemma{"intfloat-addsub-zero", decl8 + "(assert (not (and (= (fp.add RNE " + f32("a") + " " + z + ") " + f32("a") + ") (= (fp.sub RNE " + f32("a") + " " + z + ") " + f32("a") + "))))"})
	}
	ls = append(ls, lemma{"intfloat-mul-zero", decl8 + `(assert (not (and
		(= (fp.mul RNE ` + f32("a") + ` (_ -zero 8 24)) (ite (bvslt a #x00) (_ +zero 8 24) (_ -zero 8 24)))
		(= (fp.mul RNE ` + f32("a") + ` (_ +zero 8 24)) (ite (bvslt a #x00) (_ -zero 8 24) (_ +zero 8 24))))))`})
	for _, inf := range []string{"(_ +oo 8 24)", "(_ -oo 8 24)"} {
		other := "(_ -oo 8 24)"
		if inf == "(_ -oo 8 24)" {
			other = "(_ +oo 8 24)"
		}
		ls = append(ls, lemma{"intfloat-special-mul", decl8 + "(define-fun q () (_ FloatingPoint 8 24) (fp.mul RNE " + f32("a") + " " + inf + "))" +
			"(assert (not (and (= q (fp.mul RNE " + inf + " " + f32("a") + ")) (ite (= a #x00) (fp.isNaN q) (ite (bvslt a #x00) (= q " + other + ") (= q " + inf + "))))))"})
		ls = append(ls, lemma{"intfloat-special-addsub", decl8 + "(assert (not (and (= (fp.add RNE " + f32("a") + " " + inf + ") " + inf + ") (= (fp.add RNE " + inf + " " + f32("a") + ") " + inf + ")" +
			" (= (fp.sub RNE " + inf + " " + f32("a") + ") " + inf + ") (= (fp.sub RNE " + f32("a") + " " + inf + ") " + other + "))))"})
	}
	ls = append(ls, lemma{"intfloat-special-nan", decl8 + "(assert (not (and (fp.isNaN (fp.mul RNE " + f32("a") + " (_ NaN 8 24))) (fp.isNaN (fp.add RNE (_ NaN 8 24) " + f32("a") + ")) (fp.isNaN (fp.sub RNE " + f32("a") + " (_ NaN 8 24))))))"})
	ls = append(ls, lemma{"intfloat-div-round-zero", decl8 + `(define-fun q () (_ FloatingPoint 8 24) (fp.roundToIntegral RTZ (fp.div RNE ` + f32("a") + ` (_ +zero 8 24))))
		(assert (not (ite (= a #x00) (fp.isNaN q) (ite (bvslt a #x00) (= q (_ -oo 8 24)) (= q (_ +oo 8 24))))))`})
	ls = append(ls, lemma{"intfloat-neg", decl8 + `(assert (not (= (fp.neg ` + f32("a") + `) (ite (= a #x00) (_ -zero 8 24) ` + f32("(bvneg ((_ sign_extend 1) a))") + `))))`})
	ls = append(ls, lemma{"intfloat-div", decl8 + `(assert (not (= b #x00)))
		(assert (not (= ((_ fp.to_sbv 16) RTZ (fp.div RNE ` + f32("a") + " " + f32("b") + `)) ((_ sign_extend 7) (bvsdiv ((_ sign_extend 1) a) ((_ sign_extend 1) b))))))`})
	for _, md := range [][2]string{{"RTN", "(ite (and (not (= r #x000)) (not (= (bvslt x #x000) (bvslt y #x000)))) (bvsub q #x001) q)"},
		{"RTP", "(ite (and (not (= r #x000)) (= (bvslt x #x000) (bvslt y #x000))) (bvadd q #x001) q)"}, {"RTZ", "q"}} {
		ls = append(ls, lemma{"intfloat-div-round-" + md[0], decl8 + `(define-fun x () (_ BitVec 12) ((_ sign_extend 4) a))(define-fun y () (_ BitVec 12) ((_ sign_extend 4) b))
		(define-fun q () (_ BitVec 12) (bvsdiv x y))(define-fun r () (_ BitVec 12) (bvsrem x y))
		(define-fun adj () (_ BitVec 12) ` + md[1] + `)
		(assert (not (= b #x00)))
		(assert (not (= (fp.roundToIntegral ` + md[0] + ` (fp.div RNE ` + f32("a") + " " + f32("b") + `))
			(ite (and (= adj #x000) (not (= (bvslt x #x000) (bvslt y #x000)))) (_ -zero 8 24) ((_ to_fp 8 24) RNE adj)))))`})
	}
	ls = append(ls, lemma{"intfloat-unsigned-view", decl8 + "(assert (not (= ((_ to_fp_unsigned 8 24) RNE a) " + f32("((_ zero_extend 1) a)") + ")))"})
	return ls
}

func runZ3(script string) string {
	cmd := exec.Command("/usr/bin/z3", "-in", "-smt2", "-T:60")
	cmd.Stdin = strings.NewReader("(set-logic ALL)\n" + script + "\n(check-sat)\n")
	out, _ := cmd.Output()
	return strings.TrimSpace(string(out))
}

func cmdSelftest(args []string) int {
	fail := 0
	for _, l := range lemmas() {
		r := runZ3(l.smt)
		if r != "unsat" {
			fmt.Printf("LEMMA FAILED %s: %s\n", l.name, r)
			fail++
		}
	}
	// float -> int conversion model vs the native build
	in := &interp{tp: NewTermPool()}
	var vals []float64
	for _, e := range []float64{0, 1, -1, 0.5, -0.5, 2147483647, 2147483648, -2147483648, -2147483649, 4294967295, 4294967296,
		9223372036854775807, 9223372036854775808, -9223372036854775808, 18446744073709551615, 18446744073709551616, 1e30, -1e30,
		math.Inf(1), math.Inf(-1), math.NaN(), 127.9, 128, 255.5, 256, 32767.5, 65535.9, 65536} {
		vals = append(vals, e, -e, e+0.75, e-0.75)
	}
	seed := uint64(88172645463325252)
	for i := 0; i < 20000; i++ {
		seed ^= seed << 13
		seed ^= seed >> 7
		seed ^= seed << 17
		vals = append(vals, math.Float64frombits(seed))
	}
	mism := 0
	check := func(name string, got, want uint64, f float64) {
		if got != want {
			if mism < 10 {
				fmt.Printf("CONVERSION MODEL MISMATCH %s(%v): model %#x native %#x\n", name, f, got, want)
			}
			mism++
		}
	}
	for _, f := range vals {
		ft := in.tp.F64(f)
		ev := func(t *Term) uint64 {
			v, ok := evalTerm(t, Model{}, map[*Term]uint64{})
			if !ok {
				return 0xdeadbeef
			}
			return v
		}
		check("int64", ev(in.floatToInt(ft, 64, types.Int64)), uint64(int64(f)), f)
		check("int32", ev(in.floatToInt(ft, 64, types.Int32)), uint64(uint32(int32(f))), f)
		check("int16", ev(in.floatToInt(ft, 64, types.Int16)), uint64(uint16(int16(f))), f)
		check("int8", ev(in.floatToInt(ft, 64, types.Int8)), uint64(uint8(int8(f))), f)
		check("uint32", ev(in.floatToInt(ft, 64, types.Uint32)), uint64(uint32(f)), f)
		check("uint16", ev(in.floatToInt(ft, 64, types.Uint16)), uint64(uint16(f)), f)
		check("uint8", ev(in.floatToInt(ft, 64, types.Uint8)), uint64(uint8(f)), f)
		check("uint64", ev(in.floatToInt(ft, 64, types.Uint64)), uint64(f), f)
		f32v := float32(f)
		ft32 := in.tp.F32(f32v)
		check("f32->int32", ev(in.floatToInt(ft32, 32, types.Int32)), uint64(uint32(int32(f32v))), f)
		check("f32->uint32", ev(in.floatToInt(ft32, 32, types.Uint32)), uint64(uint32(f32v)), f)
		check("f32->int64", ev(in.floatToInt(ft32, 32, types.Int64)), uint64(int64(f32v)), f)
	}
	// math/bits models vs the library
	bm := 0
	{
		tp := NewTermPool()
		x32, x64 := tp.Var("bx32", Sort{K: SBV, W: 32}), tp.Var("bx64", Sort{K: SBV, W: 64})
		type bmodel struct {
			name string
			t    *Term
			v    *Term
			nat  func(uint64) uint64
		}
		models := []bmodel{
			{"OnesCount32", bitsOnesCount(tp, x32, 32), x32, func(v uint64) uint64 { return uint64(bits.OnesCount32(uint32(v))) }},
			{"Len32", bitsLen(tp, x32, 32), x32, func(v uint64) uint64 { return uint64(bits.Len32(uint32(v))) }},
			{"LeadingZeros32", bitsLeadingZeros(tp, x32, 32), x32, func(v uint64) uint64 { return uint64(bits.LeadingZeros32(uint32(v))) }},
			{"TrailingZeros32", bitsTrailingZeros(tp, x32, 32), x32, func(v uint64) uint64 { return uint64(bits.TrailingZeros32(uint32(v))) }},
			{"Reverse32", bitsReverse(tp, x32, 32), x32, func(v uint64) uint64 { return uint64(bits.Reverse32(uint32(v))) }},
			{"OnesCount64", bitsOnesCount(tp, x64, 64), x64, func(v uint64) uint64 { return uint64(bits.OnesCount64(v)) }},
			{"Len64", bitsLen(tp, x64, 64), x64, func(v uint64) uint64 { return uint64(bits.Len64(v)) }},
			{"LeadingZeros64", bitsLeadingZeros(tp, x64, 64), x64, func(v uint64) uint64 { return uint64(bits.LeadingZeros64(v)) }},
			{"TrailingZeros64", bitsTrailingZeros(tp, x64, 64), x64, func(v uint64) uint64 { return uint64(bits.TrailingZeros64(v)) }},
			{"Reverse64", bitsReverse(tp, x64, 64), x64, func(v uint64) uint64 { return bits.Reverse64(v) }},
		}
		bvals := []uint64{0, 1, 2, 3, 0x80000000, 0xFFFFFFFF, 0x7FFFFFFF, 0x8000000000000000, 0xFFFFFFFFFFFFFFFF, 0x00010000, 0x0000FFFF}
		for i := 0; i < 64; i++ {
			bvals = append(bvals, 1<<uint(i), (1<<uint(i))-1)
		}
		sd := uint64(2463534242)
		for i := 0; i < 3000; i++ {
			sd ^= sd << 13
			sd ^= sd >> 7
			sd ^= sd << 17
			bvals = append(bvals, sd)
		}
		for _, m := range models {
			for _, v := range bvals {
				arg := v
				if m.v == x32 {
					arg = v & 0xFFFFFFFF
				}
				got, ok := evalTerm(m.t, Model{m.v.Name: arg}, map[*Term]uint64{})
				if !ok || got != m.nat(arg) {
					if bm < 10 {
						fmt.Printf("BITS MODEL MISMATCH %s(%#x): model %#x native %#x\n", m.name, arg, got, m.nat(arg))
					}
					bm++
				}
			}
		}
		if bm > 0 {
			fail++
		}
	}
	if mism > 0 {
		fmt.Printf("float->int model: %d mismatches on %d values\n", mism, len(vals))
		fail++
	}
	if fail > 0 {
		fmt.Fprintf(os.Stderr, "selftest: %d failures\n", fail)
		return 1
	}
	fmt.Printf("selftest ok: %d rewrite lemmas unsat at reduced width; float->int model agrees with the native build on %d values; math/bits models agree with the library on boundary + 3000 pseudo-random values\n", len(lemmas()), len(vals))
	return 0
}
