package main

func cmdSelftest(args []string) int { return 0 }
