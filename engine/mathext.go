package main

import (
	"go/types"
	"math"
)

// registerMath installs models of package math: native evaluation on concrete
// arguments, exact SMT models for the IEEE operations, and uninterpreted
// functions for the transcendental ones.
func registerMath(w *World) {
	x := w.externals
	un := func(name string, native func(float64) float64, sym func(in *interp, a *Term) *Term) {
		x["math."+name] = func(fr *frame, args []value) (value, bool) {
			if f, ok := args[0].(float64); ok {
				return native(f), true
			}
			in := fr.in
			a := in.termOf(args[0])
			if sym == nil {
				return in.mk(types.Float64, in.tp.UF("uf_math_"+name, fpSort(64), a)), true
			}
			return in.mk(types.Float64, sym(in, a)), true
		}
	}
	un("Abs", math.Abs, func(in *interp, a *Term) *Term { return in.tp.fpUn(OpFPAbs, a) })
	un("Sqrt", math.Sqrt, func(in *interp, a *Term) *Term { return in.tp.fpUn(OpFPSqrt, a) })
	un("Floor", math.Floor, func(in *interp, a *Term) *Term { return in.tp.FPRound(rmRTN, a) })
	un("Ceil", math.Ceil, func(in *interp, a *Term) *Term { return in.tp.FPRound(rmRTP, a) })
	un("Trunc", math.Trunc, func(in *interp, a *Term) *Term { return in.tp.FPRound(rmRTZ, a) })
	un("RoundToEven", math.RoundToEven, func(in *interp, a *Term) *Term { return in.tp.FPRound(rmRNE, a) })
	un("Round", math.Round, func(in *interp, a *Term) *Term { return in.tp.FPRound(rmRNA, a) })
	for name, f := range map[string]func(float64) float64{
		"Exp": math.Exp, "Exp2": math.Exp2, "Log": math.Log, "Log2": math.Log2, "Log10": math.Log10,
		"Sin": math.Sin, "Cos": math.Cos, "Tan": math.Tan, "Asin": math.Asin, "Acos": math.Acos, "Atan": math.Atan,
		"Sinh": math.Sinh, "Cosh": math.Cosh, "Tanh": math.Tanh, "Asinh": math.Asinh, "Acosh": math.Acosh, "Atanh": math.Atanh,
		"Cbrt": math.Cbrt,
	} {
		un(name, f, nil)
	}
	bin := func(name string, native func(a, b float64) float64, sym func(in *interp, a, b *Term) *Term) {
		x["math."+name] = func(fr *frame, args []value) (value, bool) {
			fa, ok1 := args[0].(float64)
			fb, ok2 := args[1].(float64)
			if ok1 && ok2 {
				return native(fa, fb), true
			}
			in := fr.in
			a, b := in.termOf(args[0]), in.termOf(args[1])
			if sym == nil {
				return in.mk(types.Float64, in.tp.UF("uf_math_"+name, fpSort(64), a, b)), true
			}
			return in.mk(types.Float64, sym(in, a, b)), true
		}
	}
	bin("Pow", math.Pow, nil)
	bin("Atan2", math.Atan2, nil)
	bin("Mod", math.Mod, nil)
	bin("Hypot", math.Hypot, nil)
	bin("Min", math.Min, func(in *interp, a, b *Term) *Term {
		tp := in.tp
		nan := tp.F64(math.NaN())
		anyNaN := tp.Or(tp.fpPred(OpFPIsNaN, a), tp.fpPred(OpFPIsNaN, b))
		r := tp.Ite(tp.fpCmp(OpFPLt, a, b), a, tp.Ite(tp.fpCmp(OpFPLt, b, a), b, tp.Ite(tp.fpPred(OpFPIsNeg, a), a, b)))
		return tp.Ite(anyNaN, nan, r)
	})
	bin("Max", math.Max, func(in *interp, a, b *Term) *Term {
		tp := in.tp
		nan := tp.F64(math.NaN())
		anyNaN := tp.Or(tp.fpPred(OpFPIsNaN, a), tp.fpPred(OpFPIsNaN, b))
		r := tp.Ite(tp.fpCmp(OpFPLt, b, a), a, tp.Ite(tp.fpCmp(OpFPLt, a, b), b, tp.Ite(tp.fpPred(OpFPIsNeg, a), b, a)))
		return tp.Ite(anyNaN, nan, r)
	})
	bin("Copysign", math.Copysign, func(in *interp, a, b *Term) *Term {
		tp := in.tp
		ab := in.floatBits(b, 64)
		aa := in.floatBits(a, 64)
		sign := tp.bvBin(OpBVAnd, ab, tp.BV(1<<63, 64))
		mag := tp.bvBin(OpBVAnd, aa, tp.BV(1<<63-1, 64))
		return tp.FPFromBits(tp.bvBin(OpBVOr, sign, mag))
	})
	x["math.IsNaN"] = func(fr *frame, args []value) (value, bool) {
		if f, ok := args[0].(float64); ok {
			return math.IsNaN(f), true
		}
		return fr.in.mk(types.Bool, fr.in.tp.fpPred(OpFPIsNaN, fr.in.termOf(args[0]))), true
	}
	x["math.IsInf"] = func(fr *frame, args []value) (value, bool) {
		in := fr.in
		sign := int(in.asInt(args[1], "IsInf sign"))
		if f, ok := args[0].(float64); ok {
			return math.IsInf(f, sign), true
		}
		a := in.termOf(args[0])
		tp := in.tp
		inf := tp.fpPred(OpFPIsInf, a)
		switch {
		case sign > 0:
			inf = tp.And(inf, tp.Not(tp.fpPred(OpFPIsNeg, a)))
		case sign < 0:
			inf = tp.And(inf, tp.fpPred(OpFPIsNeg, a))
		}
		return in.mk(types.Bool, inf), true
	}
	x["math.Signbit"] = func(fr *frame, args []value) (value, bool) {
		if f, ok := args[0].(float64); ok {
			return math.Signbit(f), true
		}
		in := fr.in
		b := in.floatBits(in.termOf(args[0]), 64)
		return in.mk(types.Bool, in.tp.Eq(in.tp.Extract(63, 63, b), in.tp.BV(1, 1))), true
	}
	x["math.Inf"] = func(fr *frame, args []value) (value, bool) {
		return math.Inf(int(fr.in.asInt(args[0], "Inf sign"))), true
	}
	x["math.NaN"] = func(fr *frame, args []value) (value, bool) { return math.NaN(), true }
	x["math.Float64bits"] = func(fr *frame, args []value) (value, bool) {
		if f, ok := args[0].(float64); ok {
			return math.Float64bits(f), true
		}
		return fr.in.mk(types.Uint64, fr.in.floatBits(fr.in.termOf(args[0]), 64)), true
	}
	x["math.Float32bits"] = func(fr *frame, args []value) (value, bool) {
		if f, ok := args[0].(float32); ok {
			return math.Float32bits(f), true
		}
		return fr.in.mk(types.Uint32, fr.in.floatBits(fr.in.termOf(args[0]), 32)), true
	}
	x["math.Float64frombits"] = func(fr *frame, args []value) (value, bool) {
		if b, ok := args[0].(uint64); ok {
			return math.Float64frombits(b), true
		}
		return fr.in.mk(types.Float64, fr.in.tp.FPFromBits(fr.in.termOf(args[0]))), true
	}
	x["math.Float32frombits"] = func(fr *frame, args []value) (value, bool) {
		if b, ok := args[0].(uint32); ok {
			return math.Float32frombits(b), true
		}
		return fr.in.mk(types.Float32, fr.in.tp.FPFromBits(fr.in.termOf(args[0]))), true
	}
	x["math.Ldexp"] = func(fr *frame, args []value) (value, bool) {
		f, ok1 := args[0].(float64)
		e, ok2 := args[1].(int)
		if ok1 && ok2 {
			return math.Ldexp(f, e), true
		}
		return nil, false
	}
	x["math.Frexp"] = func(fr *frame, args []value) (value, bool) {
		if f, ok := args[0].(float64); ok {
			m, e := math.Frexp(f)
			return tuple{m, e}, true
		}
		return nil, false
	}
	x["math.FMA"] = func(fr *frame, args []value) (value, bool) {
		a, ok1 := args[0].(float64)
		b, ok2 := args[1].(float64)
		c, ok3 := args[2].(float64)
		if ok1 && ok2 && ok3 {
			return math.FMA(a, b, c), true
		}
		in := fr.in
		t := in.tp.intern(&Term{Op: OpFPFma, Sort: fpSort(64), Args: []*Term{in.termOf(args[0]), in.termOf(args[1]), in.termOf(args[2])}})
		return in.mk(types.Float64, t), true
	}
}

// floatBits returns the IEEE bit pattern of a float term. For terms that are
// a reinterpretation of a bit-vector the original bits are returned (NaN
// payloads of inputs are preserved, as on amd64); otherwise a fresh
// bit-vector b is introduced with the side constraint to_fp(b) = f, so the
// NaN payload of a computed NaN is unconstrained.
func (in *interp) floatBits(f *Term, w int) *Term {
	tp := in.tp
	if f.IsConst() {
		return tp.BV(f.C, w)
	}
	if f.Op == OpFPFromBits {
		return f.Args[0]
	}
	if v, ok := in.bitsMemo[f]; ok {
		return v
	}
	name := "zz!bits" + itoa(f.id)
	b := tp.Var(name, bvSort(w))
	if in.bitsMemo == nil {
		in.bitsMemo = map[*Term]*Term{}
	}
	in.bitsMemo[f] = b
	in.path.addConstraint(tp.Eq(tp.FPFromBits(b), f))
	return b
}

func itoa(i int) string {
	if i == 0 {
		return "0"
	}
	neg := i < 0
	if neg {
		i = -i
	}
	var b [24]byte
	p := len(b)
	for i > 0 {
		p--
		b[p] = byte('0' + i%10)
		i /= 10
	}
	if neg {
		p--
		b[p] = '-'
	}
	return string(b[p:])
}
