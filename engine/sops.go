package main

// Symbolic-aware operators: dispatch to the concrete operators of cops.go when
// all operands are concrete, build SMT terms with Go's exact semantics
// (wrap-around, shift rules, amd64 float->int behaviour) otherwise.

import (
	"fmt"
	"go/token"
	"go/types"

	"golang.org/x/tools/go/ssa"
)

func anySym(x, y value) bool {
	switch x.(type) {
	case *Sym, *SymStr:
		return true
	}
	switch y.(type) {
	case *Sym, *SymStr:
		return true
	}
	return false
}

func (in *interp) binop(op token.Token, t types.Type, x, y value) value {
	switch op {
	case token.EQL:
		return in.equalsNil(t, x, y)
	case token.NEQ:
		return in.not(in.equalsNil(t, x, y))
	}
	if !anySym(x, y) {
		return cbinop(op, t, x, y)
	}
	// strings
	_, xs := x.(*SymStr)
	_, ys := y.(*SymStr)
	if xs || ys {
		return in.strBinop(op, x, y)
	}
	if _, ok := x.(string); ok {
		return in.strBinop(op, x, y)
	}
	return in.symBinop(op, x, y)
}

func (in *interp) not(v value) value {
	switch v := v.(type) {
	case bool:
		return !v
	case *Sym:
		return in.mk(types.Bool, in.tp.Not(v.T))
	}
	panic(fmt.Sprintf("not: %T", v))
}

func (in *interp) symBinop(op token.Token, x, y value) value {
	tp := in.tp
	kx, ok1 := kindOfValue(x)
	ky, ok2 := kindOfValue(y)
	if !ok1 || !ok2 {
		panic(unsupported{fmt.Sprintf("symbolic binop %s on %T, %T", op, x, y)})
	}
	a, b := in.termOf(x), in.termOf(y)
	w := kindWidth(kx)
	switch op {
	case token.SHL, token.SHR:
		// shift count: any integer kind
		if kindSigned(ky) {
			neg := tp.bvCmp(OpBVSlt, b, tp.BV(0, kindWidth(ky)))
			if in.decide(neg, "negative shift") {
				panic(runtimePanic{"negative shift amount"})
			}
		}
		wy := kindWidth(ky)
		var cnt *Term
		if wy <= w {
			cnt = tp.ZeroExt(w-wy, b)
		} else {
			big := tp.bvCmp(OpBVUle, tp.BV(uint64(w), wy), b)
			cnt = tp.Ite(big, tp.BV(uint64(w), w), tp.Extract(w-1, 0, b))
		}
		var r *Term
		if op == token.SHL {
			r = tp.bvBin(OpBVShl, a, cnt)
		} else if kindSigned(kx) {
			r = tp.bvBin(OpBVAshr, a, cnt)
		} else {
			r = tp.bvBin(OpBVLshr, a, cnt)
		}
		return in.mk(kx, r)
	}
	if kx != ky {
		panic(fmt.Sprintf("symBinop kind mismatch %v %v for %s", kx, ky, op))
	}
	if kx == types.Bool {
		switch op {
		case token.LAND, token.AND:
			return in.mk(types.Bool, tp.And(a, b))
		case token.LOR, token.OR:
			return in.mk(types.Bool, tp.Or(a, b))
		}
		panic(fmt.Sprintf("bool binop %s", op))
	}
	if kindFloat(kx) {
		switch op {
		case token.ADD:
			return in.mk(kx, tp.fpBin(OpFPAdd, a, b))
		case token.SUB:
			return in.mk(kx, tp.fpBin(OpFPSub, a, b))
		case token.MUL:
			return in.mk(kx, tp.fpBin(OpFPMul, a, b))
		case token.QUO:
			return in.mk(kx, tp.fpBin(OpFPDiv, a, b))
		case token.LSS:
			return in.mk(types.Bool, tp.fpCmp(OpFPLt, a, b))
		case token.LEQ:
			return in.mk(types.Bool, tp.fpCmp(OpFPLe, a, b))
		case token.GTR:
			return in.mk(types.Bool, tp.fpCmp(OpFPLt, b, a))
		case token.GEQ:
			return in.mk(types.Bool, tp.fpCmp(OpFPLe, b, a))
		}
		panic(fmt.Sprintf("float binop %s", op))
	}
	sg := kindSigned(kx)
	switch op {
	case token.ADD:
		return in.mk(kx, tp.bvBin(OpBVAdd, a, b))
	case token.SUB:
		return in.mk(kx, tp.bvBin(OpBVSub, a, b))
	case token.MUL:
		return in.mk(kx, tp.bvBin(OpBVMul, a, b))
	case token.QUO, token.REM:
		z := tp.Eq(b, tp.BV(0, w))
		if in.decide(z, "integer divide by zero") {
			panic(runtimePanic{"integer divide by zero"})
		}
		var o Op
		switch {
		case op == token.QUO && sg:
			o = OpBVSDiv
		case op == token.QUO:
			o = OpBVUDiv
		case sg:
			o = OpBVSRem
		default:
			o = OpBVURem
		}
		return in.mk(kx, tp.bvBin(o, a, b))
	case token.AND:
		return in.mk(kx, tp.bvBin(OpBVAnd, a, b))
	case token.OR:
		return in.mk(kx, tp.bvBin(OpBVOr, a, b))
	case token.XOR:
		return in.mk(kx, tp.bvBin(OpBVXor, a, b))
	case token.AND_NOT:
		return in.mk(kx, tp.bvBin(OpBVAnd, a, tp.BVNot(b)))
	case token.LSS:
		if sg {
			return in.mk(types.Bool, tp.bvCmp(OpBVSlt, a, b))
		}
		return in.mk(types.Bool, tp.bvCmp(OpBVUlt, a, b))
	case token.LEQ:
		if sg {
			return in.mk(types.Bool, tp.bvCmp(OpBVSle, a, b))
		}
		return in.mk(types.Bool, tp.bvCmp(OpBVUle, a, b))
	case token.GTR:
		if sg {
			return in.mk(types.Bool, tp.bvCmp(OpBVSlt, b, a))
		}
		return in.mk(types.Bool, tp.bvCmp(OpBVUlt, b, a))
	case token.GEQ:
		if sg {
			return in.mk(types.Bool, tp.bvCmp(OpBVSle, b, a))
		}
		return in.mk(types.Bool, tp.bvCmp(OpBVUle, b, a))
	}
	panic(fmt.Sprintf("symBinop: unhandled %s", op))
}

func (in *interp) strBinop(op token.Token, x, y value) value {
	switch op {
	case token.ADD:
		ex, ey := strElems(x), strElems(y)
		e := make([]value, 0, len(ex)+len(ey))
		e = append(e, ex...)
		e = append(e, ey...)
		return mkStr(e)
	case token.LSS, token.LEQ, token.GTR, token.GEQ:
		// lexicographic comparison, byte-wise: build a term
		ex, ey := strElems(x), strElems(y)
		if sx, ok := x.(*SymStr); ok && sx.hasAtom() {
			panic(unsupported{"ordering comparison on atom string"})
		}
		if sy, ok := y.(*SymStr); ok && sy.hasAtom() {
			panic(unsupported{"ordering comparison on atom string"})
		}
		lt, eq := in.strCompare(ex, ey)
		tp := in.tp
		switch op {
		case token.LSS:
			return in.mk(types.Bool, lt)
		case token.LEQ:
			return in.mk(types.Bool, tp.Or(lt, eq))
		case token.GTR:
			return in.mk(types.Bool, tp.Not(tp.Or(lt, eq)))
		case token.GEQ:
			return in.mk(types.Bool, tp.Not(lt))
		}
	}
	panic(unsupported{fmt.Sprintf("string binop %s", op)})
}

// strCompare returns terms for x<y and x==y.
func (in *interp) strCompare(ex, ey []value) (lt, eq *Term) {
	tp := in.tp
	n := len(ex)
	if len(ey) < n {
		n = len(ey)
	}
	// process from the end: lt_i = x[i]<y[i] or (x[i]==y[i] and lt_{i+1})
	if len(ex) < len(ey) {
		lt = tp.Bool(true)
	} else {
		lt = tp.Bool(false)
	}
	eq = tp.Bool(len(ex) == len(ey))
	for i := n - 1; i >= 0; i-- {
		a, b := in.termOf(ex[i]), in.termOf(ey[i])
		e := tp.Eq(a, b)
		lt = tp.Or(tp.bvCmp(OpBVUlt, a, b), tp.And(e, lt))
		eq = tp.And(e, eq)
	}
	return
}

func (in *interp) unop(instr *ssa.UnOp, x value) value {
	switch instr.Op {
	case token.MUL:
		if sp, ok := x.(*symPtr); ok {
			v, ok := in.symSelect(sp.cells, sp.idx)
			if !ok {
				panic(unsupported{"load through a symbolic index of non-scalar cells"})
			}
			return v
		}
		p := x.(*value)
		if p == nil {
			panic(runtimePanic{"invalid memory address or nil pointer dereference"})
		}
		return load(mustDeref(instr.X.Type()), p)
	case token.ARROW:
		panic(unsupported{"channel receive"})
	}
	s, ok := x.(*Sym)
	if !ok {
		return cunop(instr, x)
	}
	tp := in.tp
	switch instr.Op {
	case token.SUB:
		if kindFloat(s.K) {
			return in.mk(s.K, tp.fpUn(OpFPNeg, s.T))
		}
		return in.mk(s.K, tp.BVNeg(s.T))
	case token.NOT:
		return in.mk(types.Bool, tp.Not(s.T))
	case token.XOR:
		return in.mk(s.K, tp.BVNot(s.T))
	}
	panic(fmt.Sprintf("symbolic unop %s", instr.Op))
}

// equalsNil is == for any type including nil comparisons of reference types.
func (in *interp) equalsNil(t types.Type, x, y value) value {
	switch t.Underlying().(type) {
	case *types.Map, *types.Signature, *types.Slice:
		return isNilRef(x) == isNilRef(y)
	}
	return in.equals(t, x, y)
}

func isNilRef(x value) bool {
	switch x := x.(type) {
	case *Map:
		return x == nil
	case *ssa.Function:
		return x == nil
	case *closure:
		return x == nil
	case []value:
		return x == nil
	case *ssa.Builtin:
		return x == nil
	}
	panic(fmt.Sprintf("isNilRef: %T", x))
}

// equals returns x == y (bool or symbolic Bool) under Go's equality for type t.
func (in *interp) equals(t types.Type, x, y value) value {
	tm := in.equalsTerm(t, x, y)
	return in.mk(types.Bool, tm)
}

func (in *interp) equalsTerm(t types.Type, x, y value) *Term {
	tp := in.tp
	switch xv := x.(type) {
	case *Sym:
		return in.scalarEq(xv.K, xv.T, in.termOf(y))
	case *SymStr:
		return in.strEq(x, y)
	case string:
		if _, ok := y.(*SymStr); ok {
			return in.strEq(x, y)
		}
		return tp.Bool(xv == y.(string))
	case bool, int, int8, int16, int32, int64, uint, uint8, uint16, uint32, uint64, uintptr, float32, float64:
		if ys, ok := y.(*Sym); ok {
			return in.scalarEq(ys.K, in.termOf(x), ys.T)
		}
		return tp.Bool(x == y)
	case complex64, complex128:
		return tp.Bool(x == y)
	case *value:
		return tp.Bool(xv == y.(*value))
	case structure:
		yv := y.(structure)
		ts := t.Underlying().(*types.Struct)
		r := tp.Bool(true)
		for i := 0; i < ts.NumFields(); i++ {
			f := ts.Field(i)
			if f.Name() == "_" {
				continue
			}
			r = tp.And(r, in.equalsTerm(f.Type(), xv[i], yv[i]))
			if r.isFalse() {
				return r
			}
		}
		return r
	case array:
		yv := y.(array)
		te := t.Underlying().(*types.Array).Elem()
		r := tp.Bool(true)
		for i := range xv {
			r = tp.And(r, in.equalsTerm(te, xv[i], yv[i]))
			if r.isFalse() {
				return r
			}
		}
		return r
	case iface:
		yv := y.(iface)
		if xv.t == nil || yv.t == nil {
			return tp.Bool(xv.t == nil && yv.t == nil)
		}
		if !types.Identical(xv.t, yv.t) {
			return tp.Bool(false)
		}
		if !types.Comparable(xv.t) {
			panic(runtimePanic{"comparing uncomparable type " + xv.t.String()})
		}
		return in.equalsTerm(xv.t, xv.v, yv.v)
	case chan value:
		return tp.Bool(xv == y.(chan value))
	case *Map:
		return tp.Bool(xv == y.(*Map))
	}
	panic(fmt.Sprintf("equals: unhandled %T (type %v)", x, t))
}

func (in *interp) scalarEq(k types.BasicKind, a, b *Term) *Term {
	if kindFloat(k) {
		return in.tp.fpCmp(OpFPEq, a, b)
	}
	return in.tp.Eq(a, b)
}

func (in *interp) strEq(x, y value) *Term {
	tp := in.tp
	ex, ey := strElems(x), strElems(y)
	hasAtom := false
	for _, e := range ex {
		if _, ok := e.(*Atom); ok {
			hasAtom = true
		}
	}
	for _, e := range ey {
		if _, ok := e.(*Atom); ok {
			hasAtom = true
		}
	}
	if hasAtom {
		return in.atomStrEq(ex, ey)
	}
	if len(ex) != len(ey) {
		return tp.Bool(false)
	}
	r := tp.Bool(true)
	for i := range ex {
		r = tp.And(r, tp.Eq(in.termOf(ex[i]), in.termOf(ey[i])))
		if r.isFalse() {
			return r
		}
	}
	return r
}

// Equality of strings containing numeral atoms (decimal renderings of symbolic
// unsigned numbers). Both strings are cut into segments: runs of concrete
// non-digit bytes, runs of concrete digit bytes, and atoms. A numeral is
// delimited on both sides by a non-digit (or the string end), so two strings are
// equal iff their segment lists align: equal non-digit runs, and numeral vs
// numeral equal in value. An atom adjacent to a digit run or to another atom has
// no unique reading and is reported as unsupported (this is also what a missing
// separator in a cache key looks like).
type atomSeg struct {
	kind int // 0 non-digit literal, 1 digit literal, 2 atom
	lit  []byte
	sym  []value // for kind 0: the elements (concrete or symbolic non-digit bytes)
	atom *Atom
}

type atomAmbiguity struct{}

func (in *interp) atomSegments(e []value) []atomSeg {
	var segs []atomSeg
	for _, x := range e {
		switch v := x.(type) {
		case byte:
			k := 0
			if v >= '0' && v <= '9' {
				k = 1
			}
			if n := len(segs); n > 0 && segs[n-1].kind == k {
				segs[n-1].lit = append(segs[n-1].lit, v)
				segs[n-1].sym = append(segs[n-1].sym, v)
			} else {
				segs = append(segs, atomSeg{kind: k, lit: []byte{v}, sym: []value{v}})
			}
		case *Sym:
			// a symbolic byte next to numerals must not be a digit
			isDigit := in.tp.And(in.tp.bvCmp(OpBVUle, in.tp.BV('0', 8), v.T), in.tp.bvCmp(OpBVUle, v.T, in.tp.BV('9', 8)))
			if in.decide(isDigit, "symbolic byte is a digit") {
				panic(unsupported{"comparison of a string mixing numeral atoms and symbolic digit bytes"})
			}
			if n := len(segs); n > 0 && segs[n-1].kind == 0 {
				segs[n-1].lit = append(segs[n-1].lit, '?')
				segs[n-1].sym = append(segs[n-1].sym, v)
			} else {
				segs = append(segs, atomSeg{kind: 0, lit: []byte{'?'}, sym: []value{v}})
			}
		case *Atom:
			if kindSigned(v.K) && !nonNegative(v.T) {
				neg := in.tp.bvCmp(OpBVSlt, v.T, in.tp.BV(0, v.T.Sort.W))
				if in.decide(neg, "numeral atom negative") {
					panic(unsupported{"comparison of a string containing a negative numeral atom"})
				}
			}
			if v.Verb != "%d" && v.Verb != "%v" {
				panic(unsupported{"comparison of a string containing a numeral atom with verb " + v.Verb})
			}
			segs = append(segs, atomSeg{kind: 2, atom: v})
		default:
			panic(unsupported{"comparison of a string mixing numeral atoms and symbolic bytes"})
		}
	}
	for i := 1; i < len(segs); i++ {
		if segs[i].kind != 0 && segs[i-1].kind != 0 {
			// a numeral atom adjacent to digits or to another atom (missing separator?)
			panic(atomAmbiguity{})
		}
	}
	return segs
}

// concretizeAtoms replaces every numeral atom by the digits of a concrete value (forking over
// the feasible values; the harness must keep their range small).
func (in *interp) concretizeAtoms(e []value) []value {
	var out []value
	for _, x := range e {
		at, ok := x.(*Atom)
		if !ok {
			out = append(out, x)
			continue
		}
		v := in.concretize(&Sym{K: at.K, T: at.T}, "numeral atom with ambiguous boundary")
		var txt string
		if kindSigned(at.K) {
			txt = fmt.Sprintf("%d", asInt64(v))
		} else {
			txt = fmt.Sprintf("%d", bitsOfConcrete(v))
		}
		for i := 0; i < len(txt); i++ {
			out = append(out, txt[i])
		}
	}
	return out
}

func (in *interp) atomStrEq(ex, ey []value) (res *Term) {
	tp := in.tp
	ambiguous := false
	var sx, sy []atomSeg
	func() {
		defer func() {
			if r := recover(); r != nil {
				if _, ok := r.(atomAmbiguity); ok {
					ambiguous = true
					return
				}
				panic(r)
			}
		}()
		sx, sy = in.atomSegments(ex), in.atomSegments(ey)
	}()
	if ambiguous {
		if !in.atomConcretize {
			panic(unsupported{"ambiguous numeral boundary: a numeral atom is adjacent to digits or to another atom (missing separator?)"})
		}
		cx, cy := in.concretizeAtoms(ex), in.concretizeAtoms(ey)
		return in.strEq(mkStr(cx), mkStr(cy))
	}
	if len(sx) != len(sy) {
		return tp.Bool(false)
	}
	r := tp.Bool(true)
	for i := range sx {
		a, b := sx[i], sy[i]
		switch {
		case a.kind == 0 || b.kind == 0:
			if a.kind != b.kind || len(a.sym) != len(b.sym) {
				return tp.Bool(false)
			}
			for j := range a.sym {
				r = tp.And(r, tp.Eq(in.termOf(a.sym[j]), in.termOf(b.sym[j])))
			}
		case a.kind == 1 && b.kind == 1:
			if string(a.lit) != string(b.lit) {
				return tp.Bool(false)
			}
		case a.kind == 2 && b.kind == 2:
			wa, wb := a.atom.T.Sort.W, b.atom.T.Sort.W
			w := max(wa, wb)
			r = tp.And(r, tp.Eq(tp.ZeroExt(w-wa, a.atom.T), tp.ZeroExt(w-wb, b.atom.T)))
		default:
			at, lit := a.atom, b.lit
			if a.kind == 1 {
				at, lit = b.atom, a.lit
			}
			// canonical decimal: no leading zeros
			if len(lit) > 1 && lit[0] == '0' {
				return tp.Bool(false)
			}
			if len(lit) > 20 {
				return tp.Bool(false)
			}
			var v uint64
			ovf := false
			for _, c := range lit {
				nv := v*10 + uint64(c-'0')
				if nv/10 != v {
					ovf = true
				}
				v = nv
			}
			w := at.T.Sort.W
			if ovf || (w < 64 && v > mask(w)) {
				return tp.Bool(false)
			}
			r = tp.And(r, tp.Eq(at.T, tp.BV(v, w)))
		}
		if r.isFalse() {
			return r
		}
	}
	return r
}

// ---- conversions ----

func (in *interp) conv(tDst, tSrc types.Type, x value) value {
	switch xv := x.(type) {
	case *Sym:
		kd, ok := basicKindOfType(tDst)
		if !ok {
			panic(unsupported{fmt.Sprintf("conversion of symbolic %v to %v", tSrc, tDst)})
		}
		if kd == types.String {
			// string(rune) with a symbolic rune: concretize
			c := in.concretize(x, "string(rune)")
			return cconv(tDst, tSrc, c)
		}
		return in.convScalar(xv, kd)
	case *SymStr:
		switch ud := tDst.Underlying().(type) {
		case *types.Basic:
			if ud.Kind() == types.String {
				return x
			}
		case *types.Slice:
			if ek, ok := basicKindOfType(ud.Elem()); ok && ek == types.Uint8 {
				if xv.hasAtom() {
					panic(unsupported{"[]byte(atom string)"})
				}
				r := make([]value, len(xv.E))
				copy(r, xv.E)
				return r
			}
			if ek, ok := basicKindOfType(ud.Elem()); ok && ek == types.Int32 {
				// []rune(symbolic string): decode
				var r []value
				n := strLen(in, x)
				for pos := 0; pos < n; {
					rn, sz := in.decodeRuneSym(x, pos)
					r = append(r, rn)
					pos += sz
				}
				return r
			}
		}
		panic(unsupported{fmt.Sprintf("conversion of symbolic string to %v", tDst)})
	case []value:
		// []byte / []rune -> string with symbolic elements?
		if ud, ok := tDst.Underlying().(*types.Basic); ok && ud.Kind() == types.String {
			sym := false
			for _, e := range xv {
				if _, isByte := e.(byte); !isByte {
					sym = true
					break
				}
			}
			if sym {
				ek, _ := basicKindOfType(tSrc.Underlying().(*types.Slice).Elem())
				if ek != types.Uint8 {
					panic(unsupported{"string([]rune) with symbolic runes"})
				}
				return mkStr(xv)
			}
		}
	}
	return cconv(tDst, tSrc, x)
}

func (in *interp) convScalar(x *Sym, kd types.BasicKind) value {
	tp := in.tp
	ks := x.K
	ws, wd := kindWidth(ks), kindWidth(kd)
	switch {
	case ks == types.Bool || kd == types.Bool:
		if ks == kd {
			return x
		}
		panic("bool conversion")
	case kindInt(ks) && kindInt(kd):
		var r *Term
		switch {
		case wd == ws:
			r = x.T
		case wd < ws:
			r = tp.Extract(wd-1, 0, x.T)
		case kindSigned(ks):
			r = tp.SignExt(wd-ws, x.T)
		default:
			r = tp.ZeroExt(wd-ws, x.T)
		}
		return in.mk(kd, r)
	case kindInt(ks) && kindFloat(kd):
		return in.mk(kd, tp.FPFromBV(x.T, kindSigned(ks), wd))
	case kindFloat(ks) && kindFloat(kd):
		return in.mk(kd, tp.FPToFP(x.T, wd))
	case kindFloat(ks) && kindInt(kd):
		return in.mk(kd, in.floatToInt(x.T, ws, kd))
	}
	panic(fmt.Sprintf("convScalar %v -> %v", ks, kd))
}

// floatToInt models Go's float->integer conversion as compiled by gc on amd64:
//   - to int64/int/uint(ptr via int64): CVTTSD2SQ, "integer indefinite"
//     0x8000000000000000 when NaN or out of int64 range;
//   - to int32: CVTTSD2SL, 0x80000000 when out of int32 range;
//   - to int8/int16/uint8/uint16: CVTTSD2SL then truncation;
//   - to uint32: CVTTSD2SQ then truncation;
//   - to uint64/uint/uintptr: if x < 2^63 then CVTTSD2SQ(x) else
//     CVTTSD2SQ(x - 2^63) | 0x8000000000000000.
//
// The model is compared with the native build in the engine self-test.
func (in *interp) floatToInt(f *Term, ws int, kd types.BasicKind) *Term {
	tp := in.tp
	if f.Op == OpIte {
		return tp.Ite(f.Args[0], in.floatToInt(f.Args[1], ws, kd), in.floatToInt(f.Args[2], ws, kd))
	}
	if f.Op == OpFPDiv {
		// trunc(a/b) for exactly represented integers a, b (|a| < 2^prec) is the truncated integer
		// quotient: the rounding error of the float quotient is below the distance 1/|b| of a
		// non-integral quotient from the next integer (lemma: intfloat-div, checked by selftest).
		if x1, w1, ok1 := tp.intView(f.Args[0]); ok1 {
			if x2, w2, ok2 := tp.intView(f.Args[1]); ok2 && max(w1, w2)+1 <= 64 {
				W := max(w1, w2) + 1
				a, b := tp.resizeSigned(x1, W), tp.resizeSigned(x2, W)
				q := tp.bvBin(OpBVSDiv, a, b)
				bZero := tp.Eq(b, tp.BV(0, W))
				conv := func(w int) *Term {
					indef := tp.BV(uint64(1)<<uint(w-1), w)
					var val *Term
					if W <= w {
						val = tp.resizeSigned(q, w)
					} else {
						lo := tp.BV(uint64(int64(-1)<<uint(w-1)), W)
						hi := tp.BV(uint64(int64(1)<<uint(w-1)-1), W)
						inRange := tp.And(tp.bvCmp(OpBVSle, lo, q), tp.bvCmp(OpBVSle, q, hi))
						val = tp.Ite(inRange, tp.Extract(w-1, 0, q), indef)
					}
					return tp.Ite(bZero, indef, val)
				}
				switch kd {
				case types.Int64, types.Int:
					return conv(64)
				case types.Int32:
					return conv(32)
				case types.Int16, types.Int8, types.Uint16, types.Uint8:
					return tp.Extract(kindWidth(kd)-1, 0, conv(32))
				case types.Uint32:
					return tp.Extract(31, 0, conv(64))
				}
			}
		}
	}
	if x, eff, ok := tp.intView(f); ok && !f.IsConst() {
		// exact integer: the hardware conversion is the integer itself when it fits, else the indefinite value
		cvtI := func(w int) *Term {
			if eff <= w {
				return tp.resizeSigned(x, w)
			}
			W := x.Sort.W
			lo := tp.BV(uint64(int64(-1)<<uint(w-1)), W)
			hi := tp.BV(uint64(int64(1)<<uint(w-1)-1), W)
			inRange := tp.And(tp.bvCmp(OpBVSle, lo, x), tp.bvCmp(OpBVSle, x, hi))
			return tp.Ite(inRange, tp.Extract(w-1, 0, x), tp.BV(uint64(1)<<uint(w-1), w))
		}
		switch kd {
		case types.Int64, types.Int:
			return cvtI(64)
		case types.Int32:
			return cvtI(32)
		case types.Int16, types.Int8, types.Uint16, types.Uint8:
			return tp.Extract(kindWidth(kd)-1, 0, cvtI(32))
		case types.Uint32:
			return tp.Extract(31, 0, cvtI(64))
		case types.Uint64, types.Uint, types.Uintptr:
			if eff <= 63 {
				return cvtI(64) // |x| < 2^62: below 2^63, plain conversion
			}
		}
	}
	cvt := func(f *Term, w int) *Term {
		// hardware truncating conversion to signed w-bit with indefinite value
		lim := float64(uint64(1) << uint(w-1))
		var hi, lo *Term
		if ws == 32 {
			hi, lo = tp.F32(float32(lim)), tp.F32(float32(-lim))
		} else {
			hi, lo = tp.F64(lim), tp.F64(-lim)
		}
		tr := tp.FPRound(rmRTZ, f)
		inRange := tp.And(tp.fpCmp(OpFPLt, tr, hi), tp.fpCmp(OpFPLe, lo, tr)) // false for NaN
		return tp.Ite(inRange, tp.FPToBV(f, true, w), tp.BV(uint64(1)<<uint(w-1), w))
	}
	switch kd {
	case types.Int64, types.Int:
		return cvt(f, 64)
	case types.Int32:
		return cvt(f, 32)
	case types.Int16, types.Int8, types.Uint16, types.Uint8:
		return tp.Extract(kindWidth(kd)-1, 0, cvt(f, 32))
	case types.Uint32:
		return tp.Extract(31, 0, cvt(f, 64))
	case types.Uint64, types.Uint, types.Uintptr:
		var two63 *Term
		if ws == 32 {
			two63 = tp.F32(float32(9223372036854775808.0))
		} else {
			two63 = tp.F64(9223372036854775808.0)
		}
		small := tp.fpCmp(OpFPLt, f, two63)
		a := cvt(f, 64)
		b := tp.bvBin(OpBVOr, cvt(tp.fpBin(OpFPSub, f, two63), 64), tp.BV(1<<63, 64))
		return tp.Ite(small, a, b)
	}
	panic("floatToInt kind")
}
