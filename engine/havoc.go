package main

// Havoc: fill a value, following its go/types type, with fresh symbolic scalars, one-element
// slices and maps and non-nil pointers, so that "Reset clears every field" style checks follow
// the struct definition automatically. SameState is the matching deep comparison.

import (
	"fmt"
	"go/types"
)

func (in *interp) havoc(t types.Type, name string, depth int) value {
	switch u := t.Underlying().(type) {
	case *types.Basic:
		k, _ := basicKindOfType(t)
		switch {
		case u.Info()&types.IsString != 0:
			return "h"
		case k == types.Bool || kindInt(k) || kindFloat(k):
			return in.newInput(name, k)
		}
		return zero(t)
	case *types.Pointer:
		if depth >= 3 {
			return zero(t)
		}
		v := in.havoc(u.Elem(), name+".*", depth+1)
		cell := v
		return &cell
	case *types.Struct:
		s := make(structure, u.NumFields())
		for i := range s {
			s[i] = in.havoc(u.Field(i).Type(), name+"."+u.Field(i).Name(), depth+1)
		}
		return s
	case *types.Array:
		a := make(array, u.Len())
		for i := range a {
			a[i] = in.havoc(u.Elem(), fmt.Sprintf("%s[%d]", name, i), depth+1)
		}
		return a
	case *types.Slice:
		if depth >= 4 {
			return zero(t)
		}
		return []value{in.havoc(u.Elem(), name+"[0]", depth+1)}
	case *types.Map:
		m := newMap(u.Key())
		if depth < 4 {
			k := in.havoc(u.Key(), name+".key", depth+1)
			v := in.havoc(u.Elem(), name+".val", depth+1)
			m.insert(in, k, v)
		}
		return m
	}
	return zero(t)
}

// sameState: deep comparison with the conventions of "same logical state": nil and empty
// slices/maps are equal, slices compare by length and elements, maps by content, pointers by
// pointee (nil only equals nil), functions and interfaces holding non-comparable data by identity.
func (in *interp) sameState(a, b value, depth int) *Term {
	tp := in.tp
	if depth > 8 {
		return tp.Bool(true)
	}
	switch av := a.(type) {
	case structure:
		bv, ok := b.(structure)
		if !ok || len(av) != len(bv) {
			return tp.Bool(false)
		}
		r := tp.Bool(true)
		for i := range av {
			r = tp.And(r, in.sameState(av[i], bv[i], depth+1))
		}
		return r
	case array:
		bv, ok := b.(array)
		if !ok || len(av) != len(bv) {
			return tp.Bool(false)
		}
		r := tp.Bool(true)
		for i := range av {
			r = tp.And(r, in.sameState(av[i], bv[i], depth+1))
		}
		return r
	case []value:
		bv, ok := b.([]value)
		if !ok || len(av) != len(bv) {
			return tp.Bool(false)
		}
		r := tp.Bool(true)
		for i := range av {
			r = tp.And(r, in.sameState(av[i], bv[i], depth+1))
		}
		return r
	case *Map:
		bv, ok := b.(*Map)
		if !ok || av.Len() != bv.Len() {
			return tp.Bool(false)
		}
		if av.Len() == 0 {
			return tp.Bool(true)
		}
		r := tp.Bool(true)
		for s := range av.keys {
			if !av.live[s] {
				continue
			}
			v2, found := bv.lookup(in, av.keys[s])
			if !found {
				return tp.Bool(false)
			}
			r = tp.And(r, in.sameState(av.vals[s], v2, depth+1))
		}
		return r
	case *value:
		bv, ok := b.(*value)
		if !ok {
			return tp.Bool(false)
		}
		if av == nil || bv == nil {
			return tp.Bool(av == nil && bv == nil)
		}
		if av == bv {
			return tp.Bool(true)
		}
		return in.sameState(*av, *bv, depth+1)
	case iface:
		bv, ok := b.(iface)
		if !ok {
			return tp.Bool(false)
		}
		if av.t == nil || bv.t == nil {
			return tp.Bool(av.t == nil && bv.t == nil)
		}
		if !types.Identical(av.t, bv.t) {
			return tp.Bool(false)
		}
		return in.sameState(av.v, bv.v, depth+1)
	case string, *SymStr:
		switch b.(type) {
		case string, *SymStr:
			return in.strEq(a, b)
		}
		return tp.Bool(false)
	}
	ka, ok1 := kindOfValue(a)
	kb, ok2 := kindOfValue(b)
	if ok1 && ok2 {
		if ka != kb {
			return tp.Bool(false)
		}
		return tp.Eq(in.termOf(a), in.termOf(b))
	}
	return tp.Bool(isNilOrSame(a, b))
}

func isNilOrSame(a, b value) bool {
	defer func() { recover() }()
	return a == b
}

// mapNamed returns a deep copy of v (of static type t) in which every value whose named type
// is typeName (e.g. "github.com/gogpu/naga/ir.ExpressionHandle") is replaced by f(value).
func (in *interp) mapNamed(t types.Type, v value, typeName string, f func(value) value, depth int) value {
	if depth > 12 {
		return v
	}
	if n, ok := t.(*types.Named); ok {
		if n.Obj().Pkg() != nil && n.Obj().Pkg().Path()+"."+n.Obj().Name() == typeName {
			return f(v)
		}
	}
	if a, ok := t.(*types.Alias); ok {
		return in.mapNamed(types.Unalias(a), v, typeName, f, depth)
	}
	switch u := t.Underlying().(type) {
	case *types.Struct:
		sv := v.(structure)
		out := make(structure, len(sv))
		for i := range sv {
			out[i] = in.mapNamed(u.Field(i).Type(), sv[i], typeName, f, depth+1)
		}
		return out
	case *types.Array:
		av := v.(array)
		out := make(array, len(av))
		for i := range av {
			out[i] = in.mapNamed(u.Elem(), av[i], typeName, f, depth+1)
		}
		return out
	case *types.Slice:
		sv := v.([]value)
		if sv == nil {
			return sv
		}
		out := make([]value, len(sv))
		for i := range sv {
			out[i] = in.mapNamed(u.Elem(), sv[i], typeName, f, depth+1)
		}
		return out
	case *types.Pointer:
		pv := v.(*value)
		if pv == nil {
			return pv
		}
		nv := in.mapNamed(u.Elem(), *pv, typeName, f, depth+1)
		return &nv
	case *types.Interface:
		iv := v.(iface)
		if iv.t == nil {
			return iv
		}
		return iface{t: iv.t, v: in.mapNamed(iv.t, iv.v, typeName, f, depth+1)}
	}
	return v
}

// implementors lists the named, non-interface types of the interface's package that implement it.
func (w *World) implementors(ifaceName string) []string {
	i := len(ifaceName) - 1
	for i >= 0 && ifaceName[i] != '.' {
		i--
	}
	pkgPath, name := ifaceName[:i], ifaceName[i+1:]
	sp := w.ssaPkgs[pkgPath]
	if sp == nil {
		sp = w.ssaPkgs[modPath+"/"+pkgPath]
	}
	if sp == nil {
		return nil
	}
	obj := sp.Pkg.Scope().Lookup(name)
	if obj == nil {
		return nil
	}
	it, ok := obj.Type().Underlying().(*types.Interface)
	if !ok {
		return nil
	}
	var out []string
	for _, n := range sp.Pkg.Scope().Names() {
		tn, ok := sp.Pkg.Scope().Lookup(n).(*types.TypeName)
		if !ok || tn.IsAlias() {
			continue
		}
		if _, isIface := tn.Type().Underlying().(*types.Interface); isIface {
			continue
		}
		if types.Implements(tn.Type(), it) || types.Implements(types.NewPointer(tn.Type()), it) {
			out = append(out, tn.Name())
		}
	}
	return out
}
