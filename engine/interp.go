package main

// SSA interpreter with symbolic values. Structure follows
// golang.org/x/tools/go/ssa/interp (BSD licence, The Go Authors).

import (
	"fmt"
	"go/token"
	"go/types"
	"runtime"
	"slices"
	"strings"
	"sync"

	"golang.org/x/tools/go/ssa"
)

type unsupported struct{ msg string }
type runtimePanic struct{ msg string }

type interp struct {
	w       *World
	prog    *ssa.Program
	globals map[*ssa.Global]*value
	tp      *TermPool
	path    *Path

	steps     int64
	boundSteps int64 // zz.Bounded: exceeding it is a violation (0 = off)
	boundDepth int
	boundMsg   string
	maxSteps  int64
	depth     int
	maxDepth  int
	unwind    int
	top       *frame // innermost frame (for diagnostics)
	reach     map[string]bool
	notes     map[string]string
	witnesses []*Witness
	harness   string
	symCalls  map[string]bool // functions executed with at least one symbolic argument
	allocB    int64
	mapOrder  bool
	frozen    map[*value]bool
	freezeEv  []string
	overrides map[string]value

	curInstr       ssa.Instruction
	atomConcretize bool
	noExt          string
	spec           int
	noMerge        bool
	bitsMemo       map[*Term]*Term
	frozenMaps     map[*Map]bool
	mapOrderBudget int
	mapOrderSites  int
	thorough       bool
	panicOK        bool
	stdInit        bool
}

type deferred struct {
	fn    value
	args  []value
	instr *ssa.Defer
	tail  *deferred
}

type frame struct {
	in               *interp
	caller           *frame
	fn               *ssa.Function
	block, prevBlock *ssa.BasicBlock
	env              map[ssa.Value]value
	locals           []value
	defers           *deferred
	result           value
	panicking        bool
	panic            any
	phitemps         []value
	visits           map[*ssa.BasicBlock]int
	callpos          token.Pos
	phisDone         bool
	depth            int
}

func (fr *frame) get(key ssa.Value) value {
	switch key := key.(type) {
	case nil:
		return nil
	case *ssa.Function, *ssa.Builtin:
		return key
	case *ssa.Const:
		return constValue(key)
	case *ssa.Global:
		if r, ok := fr.in.globals[key]; ok {
			return r
		}
		if r, ok := fr.in.w.stdGlob[key]; ok {
			return r
		}
		panic(fmt.Sprintf("get: no storage for global %v", key))
	}
	if r, ok := fr.env[key]; ok {
		return r
	}
	panic(fmt.Sprintf("get: no value for %T: %v in %v", key, key.Name(), fr.fn))
}

// truth turns a bool-or-symbolic value into a Go bool, forking if needed.
func (in *interp) truth(v value) bool {
	switch v := v.(type) {
	case bool:
		return v
	case *Sym:
		return in.decide(v.T, "condition")
	}
	panic(fmt.Sprintf("truth: %T", v))
}

func (in *interp) decide(c *Term, why string) bool {
	if c.IsConst() {
		return c.C == 1
	}
	if in.spec > 0 {
		panic(specAbort{})
	}
	if in.path == nil {
		panic(unsupported{"symbolic decision outside a path"})
	}
	return in.path.decide(c, why)
}

// concretize turns a (possibly symbolic) integer scalar into a concrete one of the same kind.
func (in *interp) concretize(v value, why string) value {
	s, ok := v.(*Sym)
	if !ok {
		return v
	}
	if kindFloat(s.K) {
		panic(unsupported{"concretizing a symbolic float (" + why + ")"})
	}
	if in.spec > 0 {
		panic(specAbort{})
	}
	b := in.path.chooseValue(s.T, why)
	return concreteOfBits(s.K, b)
}

func (in *interp) asInt(v value, why string) int64 {
	return asInt64(in.concretize(v, why))
}

func (fr *frame) runDefer(d *deferred) {
	var ok bool
	defer func() {
		if !ok {
			r := recover()
			if isEnginePanic(r) {
				panic(r)
			}
			fr.panicking = true
			fr.panic = r
		}
	}()
	fr.in.call(fr, d.instr.Pos(), d.fn, d.args)
	ok = true
}

func isEnginePanic(r any) bool {
	switch r.(type) {
	case unsupported, limitHit, pathEnd, unknownHit, *runtime.TypeAssertionError:
		return true
	case runtime.Error:
		return true // interpreter bug, not a target panic
	case string:
		return true // interpreter-internal panic
	}
	return false
}

func (fr *frame) runDefers() {
	for d := fr.defers; d != nil; d = d.tail {
		fr.runDefer(d)
	}
	fr.defers = nil
	if fr.panicking {
		panic(fr.panic)
	}
}

func (in *interp) step(fr *frame) {
	in.steps++
	if in.boundSteps > 0 && in.steps > in.boundSteps {
		in.boundViolated(fmt.Sprintf("more than the declared bound of interpreted instructions (bound ends at step %d)", in.boundSteps))
	}
	if in.steps > in.maxSteps {
		panic(limitHit{fmt.Sprintf("step limit %d", in.maxSteps)})
	}
}

func (in *interp) visitInstr(fr *frame, instr ssa.Instruction) int {
	in.step(fr)
	in.curInstr = instr
	switch instr := instr.(type) {
	case *ssa.DebugRef:
	case *ssa.UnOp:
		fr.env[instr] = in.unop(instr, fr.get(instr.X))
	case *ssa.BinOp:
		fr.env[instr] = in.binop(instr.Op, instr.X.Type(), fr.get(instr.X), fr.get(instr.Y))
	case *ssa.Call:
		fn, args := in.prepareCall(fr, &instr.Call)
		fr.env[instr] = in.call(fr, instr.Pos(), fn, args)
	case *ssa.ChangeInterface:
		fr.env[instr] = fr.get(instr.X)
	case *ssa.ChangeType:
		fr.env[instr] = fr.get(instr.X)
	case *ssa.Convert:
		fr.env[instr] = in.conv(instr.Type(), instr.X.Type(), fr.get(instr.X))
	case *ssa.SliceToArrayPointer:
		fr.env[instr] = sliceToArrayPointer(instr.Type(), instr.X.Type(), fr.get(instr.X))
	case *ssa.MakeInterface:
		fr.env[instr] = iface{t: instr.X.Type(), v: fr.get(instr.X)}
	case *ssa.Extract:
		fr.env[instr] = fr.get(instr.Tuple).(tuple)[instr.Index]
	case *ssa.Slice:
		fr.env[instr] = in.slice(fr.get(instr.X), fr.get(instr.Low), fr.get(instr.High), fr.get(instr.Max))
	case *ssa.Return:
		switch len(instr.Results) {
		case 0:
		case 1:
			fr.result = fr.get(instr.Results[0])
		default:
			res := make([]value, 0, len(instr.Results))
			for _, r := range instr.Results {
				res = append(res, fr.get(r))
			}
			fr.result = tuple(res)
		}
		fr.block = nil
		return kReturn
	case *ssa.RunDefers:
		fr.runDefers()
	case *ssa.Panic:
		panic(targetPanic{fr.get(instr.X)})
	case *ssa.Send:
		panic(unsupported{"channel send"})
	case *ssa.Store:
		if sp, ok := fr.get(instr.Addr).(*symPtr); ok {
			in.symStore(sp, fr.get(instr.Val))
			break
		}
		addr := fr.get(instr.Addr).(*value)
		if addr == nil {
			panic(runtimePanic{"invalid memory address or nil pointer dereference"})
		}
		if in.frozen != nil {
			in.checkFrozen(fr, addr)
		}
		store(mustDeref(instr.Addr.Type()), addr, fr.get(instr.Val))
	case *ssa.If:
		c := fr.get(instr.Cond)
		cur := fr.block
		s0, s1 := cur.Succs[0], cur.Succs[1]
		for {
			s, ok := c.(*Sym)
			if !ok {
				break
			}
			nb, nc, ns0, ns1, folded := in.foldShortCircuit(fr, cur, s, s0, s1)
			if !folded {
				break
			}
			cur, c, s0, s1 = nb, nc, ns0, ns1
		}
		fr.block = cur
		if s, ok := c.(*Sym); ok {
			if in.tryMerge(fr, cur, s0, s1, s) {
				return kJump
			}
			if in.tryMergeReturns(fr, cur, s0, s1, s) {
				return kReturn
			}
		}
		if in.truth(c) {
			fr.jump(s0)
		} else {
			fr.jump(s1)
		}
		return kJump
	case *ssa.Jump:
		fr.jump(fr.block.Succs[0])
		return kJump
	case *ssa.Defer:
		fn, args := in.prepareCall(fr, &instr.Call)
		defers := &fr.defers
		if into := fr.get(instr.DeferStack); into != nil {
			defers = into.(**deferred)
		}
		*defers = &deferred{fn: fn, args: args, instr: instr, tail: *defers}
	case *ssa.Go:
		panic(unsupported{"go statement"})
	case *ssa.MakeChan:
		panic(unsupported{"make(chan)"})
	case *ssa.Alloc:
		var addr *value
		if instr.Heap {
			addr = new(value)
			fr.env[instr] = addr
		} else {
			addr = fr.env[instr].(*value)
		}
		*addr = zero(mustDeref(instr.Type()))
	case *ssa.MakeSlice:
		c := in.asInt(fr.get(instr.Cap), "make cap")
		l := in.asInt(fr.get(instr.Len), "make len")
		if l < 0 || c < l {
			panic(runtimePanic{"makeslice: len out of range"})
		}
		if c > in.w.maxAlloc {
			panic(limitHit{fmt.Sprintf("allocation of %d elements exceeds bound %d", c, in.w.maxAlloc)})
		}
		sl := make([]value, c)
		tElt := instr.Type().Underlying().(*types.Slice).Elem()
		for i := range sl {
			sl[i] = zero(tElt)
		}
		fr.env[instr] = sl[:l]
	case *ssa.MakeMap:
		fr.env[instr] = newMap(instr.Type().Underlying().(*types.Map).Key())
	case *ssa.Range:
		fr.env[instr] = in.rangeIter(fr.get(instr.X))
	case *ssa.Next:
		fr.env[instr] = fr.get(instr.Iter).(iter).next(in)
	case *ssa.FieldAddr:
		p := fr.get(instr.X).(*value)
		if p == nil {
			panic(runtimePanic{"invalid memory address or nil pointer dereference"})
		}
		fr.env[instr] = &(*p).(structure)[instr.Field]
	case *ssa.Field:
		fr.env[instr] = fr.get(instr.X).(structure)[instr.Field]
	case *ssa.IndexAddr:
		x := fr.get(instr.X)
		idx := fr.get(instr.Index)
		switch x := x.(type) {
		case []value:
			if s, ok := idx.(*Sym); ok && in.symPtrOK(instr, x) {
				fr.env[instr] = &symPtr{cells: x, idx: s}
				break
			}
			i := in.index(idx, len(x))
			fr.env[instr] = &x[i]
		case *value:
			if x == nil {
				panic(runtimePanic{"invalid memory address or nil pointer dereference"})
			}
			a := (*x).(array)
			if s, ok := idx.(*Sym); ok && in.symPtrOK(instr, a) {
				fr.env[instr] = &symPtr{cells: a, idx: s}
				break
			}
			i := in.index(idx, len(a))
			fr.env[instr] = &a[i]
		default:
			panic(fmt.Sprintf("unexpected x type in IndexAddr: %T", x))
		}
	case *ssa.Index:
		x := fr.get(instr.X)
		idx := fr.get(instr.Index)
		switch x := x.(type) {
		case array:
			if s, ok := idx.(*Sym); ok {
				if v, ok := in.symSelect(x, s); ok {
					fr.env[instr] = v
					break
				}
			}
			fr.env[instr] = copyVal(x[in.index(idx, len(x))])
		case string:
			if s, ok := idx.(*Sym); ok && len(x) <= 256 {
				el := make([]value, len(x))
				for i := range el {
					el[i] = x[i]
				}
				if v, ok := in.symSelect(el, s); ok {
					fr.env[instr] = v
					break
				}
			}
			fr.env[instr] = x[in.index(idx, len(x))]
		case *SymStr:
			n := strLen(in, x)
			if s, ok := idx.(*Sym); ok && !x.hasAtom() {
				if v, ok := in.symSelect(x.E, s); ok {
					fr.env[instr] = v
					break
				}
			}
			fr.env[instr] = x.E[in.index(idx, n)]
		default:
			panic(fmt.Sprintf("unexpected x type in Index: %T", x))
		}
	case *ssa.Lookup:
		fr.env[instr] = in.lookup(instr, fr.get(instr.X), fr.get(instr.Index))
	case *ssa.MapUpdate:
		m := fr.get(instr.Map).(*Map)
		if m == nil {
			panic(runtimePanic{"assignment to entry in nil map"})
		}
		m.insert(in, fr.get(instr.Key), fr.get(instr.Value))
	case *ssa.TypeAssert:
		fr.env[instr] = typeAssert(instr, fr.get(instr.X).(iface))
	case *ssa.MakeClosure:
		var bindings []value
		for _, b := range instr.Bindings {
			bindings = append(bindings, fr.get(b))
		}
		fr.env[instr] = &closure{instr.Fn.(*ssa.Function), bindings}
	case *ssa.Phi:
		panic("unreachable: phi")
	case *ssa.Select:
		panic(unsupported{"select"})
	default:
		panic(fmt.Sprintf("unexpected instruction: %T", instr))
	}
	return kNext
}

const (
	kNext = iota
	kReturn
	kJump
)

func (fr *frame) jump(to *ssa.BasicBlock) {
	// loop unwinding bound: count entries into a block from a later-or-equal block index
	if to.Index <= fr.block.Index {
		if fr.visits == nil {
			fr.visits = map[*ssa.BasicBlock]int{}
		}
		fr.visits[to]++
		if fr.visits[to] > fr.in.unwind {
			panic(limitHit{fmt.Sprintf("unwinding bound %d exceeded in %s", fr.in.unwind, fr.fn.String())})
		}
	}
	fr.prevBlock, fr.block = fr.block, to
}

// boundsCheck forks on idx out of [0,n) and panics on the failing side.
func (in *interp) boundsCheck(s *Sym, n int) {
	w := kindWidth(s.K)
	var ok *Term
	if kindSigned(s.K) {
		ok = in.tp.And(in.tp.bvCmp(OpBVSle, in.tp.BV(0, w), s.T), in.tp.bvCmp(OpBVSlt, s.T, in.tp.BV(uint64(n), w)))
	} else {
		ok = in.tp.bvCmp(OpBVUlt, s.T, in.tp.BV(uint64(n), w))
		if w < 64 && uint64(n) > mask(w) {
			ok = in.tp.Bool(true)
		}
	}
	if !in.decide(ok, "index in range") {
		panic(runtimePanic{fmt.Sprintf("index out of range [symbolic] with length %d", n)})
	}
}

// index returns a concrete in-range index (forking over feasible values).
func (in *interp) index(idx value, n int) int {
	if s, ok := idx.(*Sym); ok {
		in.boundsCheck(s, n)
		return int(asInt64(in.concretize(s, "index")))
	}
	i := asInt64(idx)
	if i < 0 || i >= int64(n) {
		panic(runtimePanic{fmt.Sprintf("index out of range [%d] with length %d", i, n)})
	}
	return int(i)
}

// symSelect returns elems[idx] for a symbolic idx as an ite chain over runs of equal
// elements (run-length compressed: constant tables such as unicode.properties have few
// runs). It performs the bounds check (forking on out-of-range).
func (in *interp) symSelect(elems []value, idx *Sym) (value, bool) {
	if len(elems) == 0 || len(elems) > 1024 {
		return nil, false
	}
	k, ok := kindOfValue(elems[0])
	if !ok {
		return nil, false
	}
	for _, e := range elems {
		k2, ok := kindOfValue(e)
		if !ok || k2 != k {
			return nil, false
		}
	}
	in.boundsCheck(idx, len(elems))
	w := kindWidth(idx.K)
	// runs of identical terms
	type run struct {
		last int
		t    *Term
	}
	var runs []run
	for i, e := range elems {
		t := in.termOf(e)
		if n := len(runs); n > 0 && runs[n-1].t == t {
			runs[n-1].last = i
		} else {
			runs = append(runs, run{i, t})
		}
	}
	r := runs[len(runs)-1].t
	for i := len(runs) - 2; i >= 0; i-- {
		var c *Term
		if runs[i].last == 0 || (i > 0 && runs[i-1].last+1 == runs[i].last) {
			c = in.tp.Eq(idx.T, in.tp.BV(uint64(runs[i].last), w))
		} else if kindSigned(idx.K) {
			c = in.tp.bvCmp(OpBVSle, idx.T, in.tp.BV(uint64(runs[i].last), w))
		} else {
			c = in.tp.bvCmp(OpBVUle, idx.T, in.tp.BV(uint64(runs[i].last), w))
		}
		r = in.tp.Ite(c, runs[i].t, r)
	}
	return in.mk(k, r), true
}

func (in *interp) slice(x, lo, hi, max value) value {
	var Len, Cap int
	switch x := x.(type) {
	case string:
		Len = len(x)
	case *SymStr:
		Len = strLen(in, x)
	case []value:
		Len = len(x)
		Cap = cap(x)
	case *value:
		if x == nil {
			panic(runtimePanic{"nil pointer dereference (slice of nil array pointer)"})
		}
		a := (*x).(array)
		Len = len(a)
		Cap = cap(a)
	}
	l := int64(0)
	if lo != nil {
		l = in.asIntBounded(lo, "slice low")
	}
	h := int64(Len)
	if hi != nil {
		h = in.asIntBounded(hi, "slice high")
	}
	m := int64(Cap)
	if max != nil {
		m = in.asIntBounded(max, "slice max")
	}
	switch x := x.(type) {
	case string:
		if l < 0 || h < l || h > int64(len(x)) {
			panic(runtimePanic{fmt.Sprintf("slice bounds out of range [%d:%d] with length %d", l, h, len(x))})
		}
		return x[l:h]
	case *SymStr:
		if l < 0 || h < l || h > int64(len(x.E)) {
			panic(runtimePanic{fmt.Sprintf("slice bounds out of range [%d:%d] with length %d", l, h, len(x.E))})
		}
		return mkStr(x.E[l:h])
	case []value:
		if l < 0 || h < l || m < h || m > int64(cap(x)) {
			panic(runtimePanic{fmt.Sprintf("slice bounds out of range [%d:%d:%d] with capacity %d", l, h, m, cap(x))})
		}
		if x == nil {
			return x
		}
		return x[l:h:m]
	case *value:
		a := (*x).(array)
		if l < 0 || h < l || m < h || m > int64(cap(a)) {
			panic(runtimePanic{fmt.Sprintf("slice bounds out of range [%d:%d:%d] with capacity %d", l, h, m, cap(a))})
		}
		return []value(a)[l:h:m]
	}
	panic(fmt.Sprintf("slice: unexpected X type: %T", x))
}

// asIntBounded concretizes slice bounds (symbolic bounds fork over values).
func (in *interp) asIntBounded(v value, why string) int64 {
	return in.asInt(v, why)
}

func (in *interp) lookup(instr *ssa.Lookup, x, idx value) value {
	m, ok := x.(*Map)
	if !ok {
		panic(fmt.Sprintf("unexpected x type in Lookup: %T", x))
	}
	v, found := m.lookup(in, idx)
	if !found {
		v = zero(instr.X.Type().Underlying().(*types.Map).Elem())
	} else {
		v = copyVal(v)
	}
	if instr.CommaOk {
		return tuple{v, found}
	}
	return v
}

func (in *interp) rangeIter(x value) iter {
	switch x := x.(type) {
	case *Map:
		it := &mapIter{m: x}
		if x != nil {
			it.order = make([]int, len(x.keys))
			for i := range it.order {
				it.order[i] = i
			}
			if in.mapOrder && x.n > 1 {
				in.permuteMapOrder(it)
			}
		}
		return it
	case string, *SymStr:
		return &stringIter{s: x}
	}
	panic(fmt.Sprintf("cannot range over %T", x))
}

func typeAssert(instr *ssa.TypeAssert, itf iface) value {
	var v value
	err := ""
	if itf.t == nil {
		err = fmt.Sprintf("interface conversion: interface is nil, not %s", instr.AssertedType)
	} else if idst, ok := instr.AssertedType.Underlying().(*types.Interface); ok {
		v = itf
		err = checkInterface(idst, itf)
	} else if types.Identical(itf.t, instr.AssertedType) {
		v = itf.v
	} else {
		err = fmt.Sprintf("interface conversion: interface is %s, not %s", itf.t, instr.AssertedType)
	}
	if err != "" {
		if !instr.CommaOk {
			panic(runtimePanic{err})
		}
		return tuple{zero(instr.AssertedType), false}
	}
	if instr.CommaOk {
		return tuple{v, true}
	}
	return v
}

func (in *interp) lookupMethod(typ types.Type, meth *types.Func) *ssa.Function {
	return in.prog.LookupMethod(typ, meth.Pkg(), meth.Name())
}

func (in *interp) prepareCall(fr *frame, call *ssa.CallCommon) (fn value, args []value) {
	v := fr.get(call.Value)
	if call.Method == nil {
		fn = v
	} else {
		recv := v.(iface)
		if recv.t == nil {
			panic(runtimePanic{"invalid memory address or nil pointer dereference (method call on nil interface)"})
		}
		f := in.lookupMethod(recv.t, call.Method)
		if f == nil {
			panic(fmt.Sprintf("method set for dynamic type %v does not contain %s", recv.t, call.Method))
		}
		fn = f
		args = append(args, recv.v)
	}
	for _, arg := range call.Args {
		args = append(args, fr.get(arg))
	}
	return
}

func (in *interp) call(caller *frame, callpos token.Pos, fn value, args []value) value {
	switch fn := fn.(type) {
	case *ssa.Function:
		if fn == nil {
			panic(runtimePanic{"call of nil function"})
		}
		return in.callSSA(caller, callpos, fn, args, nil)
	case *closure:
		return in.callSSA(caller, callpos, fn.Fn, args, fn.Env)
	case *ssa.Builtin:
		return in.callBuiltin(caller, fn, args)
	case *nativeClosure:
		return fn.f(in, caller, args)
	}
	panic(fmt.Sprintf("cannot call %T", fn))
}

// nativeClosure is a function value implemented by the engine.
type nativeClosure struct {
	f func(in *interp, caller *frame, args []value) value
}

func (in *interp) callSSA(caller *frame, callpos token.Pos, fn *ssa.Function, args []value, env []value) value {
	fr := &frame{in: in, caller: caller, fn: fn, callpos: callpos}
	if fn.Parent() == nil {
		name := fn.String()
		if ov, ok := in.overrides[name]; ok {
			return in.call(caller, callpos, ov, args)
		}
		if ext := in.w.externals[name]; ext != nil && in.noExt != name {
			if r, handled := ext(fr, args); handled {
				return r
			}
		}
		if fn.Synthetic != "" && strings.Contains(fn.Synthetic, "package initializer") && fn.Pkg != nil {
			path := fn.Pkg.Pkg.Path()
			if !isModulePkg(path) && !(in.stdInit && stdInitAllow[path]) {
				return nil
			}
		}
		if fn.Blocks == nil {
			panic(unsupported{"no code for function: " + name})
		}
	}
	if fn.TypeParams().Len() > 0 && len(fn.TypeArgs()) == 0 {
		panic("uninstantiated generic function " + fn.String())
	}
	fr.depth = in.depth
	in.depth++
	if in.boundSteps > 0 && in.depth > in.boundDepth {
		in.boundViolated(fmt.Sprintf("call nesting deeper than the declared bound %d", in.boundDepth))
	}
	if in.depth > in.maxDepth {
		panic(limitHit{fmt.Sprintf("call depth %d exceeded", in.maxDepth)})
	}
	if in.symCalls != nil {
		for _, a := range args {
			if anySym(a, nil) {
				in.symCalls[fn.String()] = true
				break
			}
		}
	}
	prevTop := in.top
	in.top = fr
	fr.env = make(map[ssa.Value]value, 16)
	fr.block = fn.Blocks[0]
	fr.locals = make([]value, len(fn.Locals))
	for i, l := range fn.Locals {
		fr.locals[i] = zero(mustDeref(l.Type()))
		fr.env[l] = &fr.locals[i]
	}
	for i, p := range fn.Params {
		fr.env[p] = args[i]
	}
	for i, fv := range fn.FreeVars {
		fr.env[fv] = env[i]
	}
	for fr.block != nil {
		in.runFrame(fr)
	}
	in.depth = fr.depth
	in.top = prevTop
	return fr.result
}

func (in *interp) runFrame(fr *frame) {
	defer func() {
		if fr.block == nil {
			return
		}
		r := recover()
		if isEnginePanic(r) {
			panic(r) // not catchable by the target
		}
		// target panic: run deferred calls, then propagate (or resume at Recover block)
		fr.panicking = true
		fr.panic = r
		in.depth = fr.depth + 1
		in.top = fr
		fr.runDefers()
		fr.block = fr.fn.Recover
		if fr.block == nil {
			// recovered in a function without named results: return zero value
			fr.result = zeroResult(fr.fn)
		}
	}()
	for {
		nonPhis := executePhis(fr)
		for _, instr := range nonPhis {
			if in.visitInstr(fr, instr) == kReturn {
				return
			}
		}
	}
}

func zeroResult(fn *ssa.Function) value {
	res := fn.Signature.Results()
	switch res.Len() {
	case 0:
		return nil
	case 1:
		return zero(res.At(0).Type())
	}
	return zero(res)
}

func executePhis(fr *frame) []ssa.Instruction {
	firstNonPhi := -1
	for i, instr := range fr.block.Instrs {
		if _, ok := instr.(*ssa.Phi); !ok {
			firstNonPhi = i
			break
		}
	}
	nonPhis := fr.block.Instrs[firstNonPhi:]
	if fr.phisDone {
		fr.phisDone = false
		return nonPhis
	}
	if firstNonPhi > 0 {
		phis := fr.block.Instrs[:firstNonPhi]
		predIndex := slices.Index(fr.block.Preds, fr.prevBlock)
		fr.phitemps = fr.phitemps[:0]
		for _, phi := range phis {
			phi := phi.(*ssa.Phi)
			fr.phitemps = append(fr.phitemps, fr.get(phi.Edges[predIndex]))
		}
		for i, phi := range phis {
			fr.env[phi.(*ssa.Phi)] = fr.phitemps[i]
		}
	}
	return nonPhis
}

func (in *interp) doRecover(caller *frame) value {
	if caller != nil && !caller.panicking && caller.caller != nil && caller.caller.panicking {
		caller.caller.panicking = false
		p := caller.caller.panic
		caller.caller.panic = nil
		switch p := p.(type) {
		case targetPanic:
			return p.v
		case runtimePanic:
			return iface{in.w.errorStringType(), in.w.newErrorString("runtime error: " + p.msg)}
		default:
			panic(fmt.Sprintf("unexpected panic type %T in target call to recover()", p))
		}
	}
	return iface{}
}

func (in *interp) callBuiltin(caller *frame, fn *ssa.Builtin, args []value) value {
	switch fn.Name() {
	case "append":
		if len(args) == 1 {
			return args[0]
		}
		switch s := args[1].(type) {
		case string:
			arg0 := args[0].([]value)
			for i := 0; i < len(s); i++ {
				arg0 = append(arg0, s[i])
			}
			return arg0
		case *SymStr:
			if s.hasAtom() {
				panic(unsupported{"append([]byte, atom string...)"})
			}
			return append(args[0].([]value), s.E...)
		}
		a0 := args[0].([]value)
		a1 := args[1].([]value)
		// copy struct/array elements to avoid aliasing
		for _, e := range a1 {
			a0 = append(a0, copyVal(e))
		}
		return a0
	case "copy":
		dst := args[0].([]value)
		switch src := args[1].(type) {
		case string:
			n := 0
			for i := 0; i < len(src) && i < len(dst); i++ {
				dst[i] = src[i]
				n++
			}
			return n
		case *SymStr:
			if src.hasAtom() {
				panic(unsupported{"copy from atom string"})
			}
			return copy(dst, src.E)
		case []value:
			n := len(src)
			if len(dst) < n {
				n = len(dst)
			}
			// handle overlap like the runtime (memmove)
			tmp := make([]value, n)
			for i := 0; i < n; i++ {
				tmp[i] = copyVal(src[i])
			}
			copy(dst, tmp)
			return n
		}
		panic(fmt.Sprintf("copy: %T", args[1]))
	case "close":
		panic(unsupported{"close(chan)"})
	case "delete":
		m := args[0].(*Map)
		if m != nil {
			m.delete(in, args[1])
		}
		return nil
	case "print", "println":
		return nil
	case "len":
		switch x := args[0].(type) {
		case string:
			return len(x)
		case *SymStr:
			return strLen(in, x)
		case array:
			return len(x)
		case *value:
			return len((*x).(array))
		case []value:
			return len(x)
		case *Map:
			return x.Len()
		}
		panic(fmt.Sprintf("len: illegal operand: %T", args[0]))
	case "cap":
		switch x := args[0].(type) {
		case array:
			return cap(x)
		case *value:
			return cap((*x).(array))
		case []value:
			return cap(x)
		}
		panic(fmt.Sprintf("cap: illegal operand: %T", args[0]))
	case "min":
		return in.foldMinMax(args, true)
	case "max":
		return in.foldMinMax(args, false)
	case "clear":
		switch x := args[0].(type) {
		case *Map:
			if x != nil {
				x.keys, x.vals, x.live, x.n, x.symKey = nil, nil, nil, 0, 0
				x.idx = map[any]int{}
			}
		case []value:
			t := fn.Type().(*types.Signature).Params().At(0).Type().Underlying().(*types.Slice).Elem()
			for i := range x {
				x[i] = zero(t)
			}
		}
		return nil
	case "panic":
		panic(targetPanic{args[0]})
	case "recover":
		return in.doRecover(caller)
	case "ssa:wrapnilchk":
		recv := args[0]
		if recv.(*value) == nil {
			panic(runtimePanic{fmt.Sprintf("value method (%s).%s called using nil *%s pointer", args[1], args[2], args[1])})
		}
		return recv
	case "ssa:deferstack":
		return &caller.defers
	case "real", "imag", "complex":
		panic(unsupported{"complex numbers"})
	}
	panic("unknown built-in: " + fn.Name())
}

func (in *interp) foldMinMax(args []value, isMin bool) value {
	x := args[0]
	for _, y := range args[1:] {
		if anySym(x, y) {
			k, _ := kindOfValue(x)
			if kindFloat(k) {
				panic(unsupported{"builtin min/max on symbolic floats"})
			}
			var c value
			if isMin {
				c = in.binop(token.LSS, nil, y, x)
			} else {
				c = in.binop(token.GTR, nil, y, x)
			}
			x = in.mk(k, in.tp.Ite(in.termOf(c), in.termOf(y), in.termOf(x)))
			continue
		}
		if isMin {
			x = cmin(x, y)
		} else {
			x = cmax(x, y)
		}
	}
	return x
}

// stackTrace lists the active target frames, innermost first.
func (in *interp) stackTrace() []string {
	var out []string
	for fr := in.top; fr != nil && len(out) < 12; fr = fr.caller {
		pos := ""
		if fr.callpos != token.NoPos {
			pos = " called at " + in.prog.Fset.Position(fr.callpos).String()
		}
		out = append(out, fr.fn.String()+pos)
	}
	return out
}

// symPtr is the address of cells[idx] for a symbolic idx (in range on this path).
// It only flows into loads and stores (checked statically by symPtrOK).
type symPtr struct {
	cells []value
	idx   *Sym
}

var symPtrCache sync.Map // *ssa.IndexAddr -> bool

// symPtrOK reports whether a symbolic index at this IndexAddr can be kept symbolic:
// every use of the address is a load or a store, and all cells are scalars of one kind.
func (in *interp) symPtrOK(instr *ssa.IndexAddr, cells []value) bool {
	if len(cells) == 0 || len(cells) > 1024 {
		return false
	}
	ok, cached := symPtrCache.Load(instr)
	if !cached {
		good := true
		if refs := instr.Referrers(); refs != nil {
			for _, r := range *refs {
				switch u := r.(type) {
				case *ssa.UnOp:
					if u.Op != token.MUL {
						good = false
					}
				case *ssa.Store:
					if u.Addr != ssa.Value(instr) {
						good = false
					}
				case *ssa.DebugRef:
				default:
					good = false
				}
			}
		} else {
			good = false
		}
		symPtrCache.Store(instr, good)
		ok = good
	}
	if !ok.(bool) {
		return false
	}
	k, isScalar := kindOfValue(cells[0])
	if !isScalar {
		return false
	}
	for _, c := range cells {
		k2, ok2 := kindOfValue(c)
		if !ok2 || k2 != k {
			return false
		}
	}
	return true
}

func (in *interp) symStore(sp *symPtr, v value) {
	k, ok := kindOfValue(v)
	if !ok {
		panic(unsupported{"store of a non-scalar through a symbolic index"})
	}
	if in.frozen != nil {
		for i := range sp.cells {
			if in.frozen[&sp.cells[i]] {
				in.freezeEv = append(in.freezeEv, "store into frozen memory through a symbolic index")
				break
			}
		}
	}
	in.boundsCheck(sp.idx, len(sp.cells))
	w := kindWidth(sp.idx.K)
	vt := in.termOf(v)
	for i := range sp.cells {
		c := in.tp.Eq(sp.idx.T, in.tp.BV(uint64(i), w))
		sp.cells[i] = in.mk(k, in.tp.Ite(c, vt, in.termOf(sp.cells[i])))
	}
}

// boundViolated ends the path with a violation: the code under zz.Bounded exceeded its
// declared resource bound on a feasible path.
func (in *interp) boundViolated(how string) {
	msg := in.boundMsg + " [" + how + "]"
	in.boundSteps = 0
	p := in.path
	if p.check(in.tp.Bool(true)) == "sat" {
		if m, err := p.model(); err == nil {
			in.recordWitness("bound", msg, m)
		}
	}
	panic(pathEnd{"resource bound exceeded"})
}
