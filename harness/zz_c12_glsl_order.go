//go:build verif

package naga

import (
	"github.com/gogpu/naga/glsl"
	"github.com/gogpu/naga/hlsl"
	zz "github.com/gogpu/naga/internal/zzverif"
	"github.com/gogpu/naga/msl"
	"github.com/gogpu/naga/spirv"
)

// Determinism under map iteration order (C12): the GLSL text and its reflection data for a
// program in which textures are combined with several samplers must not depend on the order
// in which Go iterates the writer's maps. The engine turns every range over a map with two or
// more entries into a decision (natural / reversed order, up to 10 per path) once
// zz.MapOrder(true) is set; the output must equal the output of the natural order.
const zzSamplerProgram = `
@group(0) @binding(0) var tex_a: texture_2d<f32>;
@group(0) @binding(1) var tex_b: texture_2d<f32>;
@group(0) @binding(2) var samp_x: sampler;
@group(0) @binding(3) var samp_y: sampler;
@group(0) @binding(4) var samp_z: sampler;
@fragment fn main(@location(0) uv: vec2<f32>) -> @location(0) vec4<f32> {
    return textureSample(tex_a, samp_y, uv) + textureSample(tex_a, samp_x, uv) + textureSample(tex_b, samp_z, uv) + textureSample(tex_a, samp_z, uv);
}`

func zzGLSLOut() (string, []string, bool) {
	ast, err := Parse(zzSamplerProgram)
	if err != nil {
		return "", nil, false
	}
	mod, err := LowerWithSource(ast, zzSamplerProgram)
	if err != nil {
		return "", nil, false
	}
	o := glsl.DefaultOptions()
	o.LangVersion = glsl.Version430
	text, info, err := glsl.Compile(mod, o)
	if err != nil {
		return "", nil, false
	}
	return text, info.TextureSamplerPairs, true
}

func ZZ_C12_glsl_map_order_independent() {
	want, wantPairs, ok := zzGLSLOut()
	zz.Assert(ok, "program rejected")
	zz.MapOrder(true)
	got, gotPairs, ok2 := zzGLSLOut()
	zz.MapOrder(false)
	zz.Assert(ok2, "program rejected under another map iteration order")
	if ok && ok2 {
		zz.Assert(got == want, "GLSL text depends on map iteration order")
		zz.Assert(len(gotPairs) == len(wantPairs), "TextureSamplerPairs depend on map iteration order")
		if len(gotPairs) == len(wantPairs) {
			for i := range gotPairs {
				zz.Assert(gotPairs[i] == wantPairs[i], "TextureSamplerPairs depend on map iteration order")
			}
		}
	}
	zz.Reach("end")
}

func zzBackendOut(which int) (string, bool) {
	ast, err := Parse(zzSamplerProgram)
	if err != nil {
		return "", false
	}
	mod, err := LowerWithSource(ast, zzSamplerProgram)
	if err != nil {
		return "", false
	}
	switch which {
	case 0:
		t, _, err := hlsl.Compile(mod, hlsl.DefaultOptions())
		return t, err == nil
	case 1:
		t, _, err := msl.Compile(mod, msl.DefaultOptions())
		return t, err == nil
	}
	b, err := GenerateSPIRV(mod, spirv.DefaultOptions())
	return string(b), err == nil
}

// The same for the HLSL, MSL and SPIR-V back ends (and for the front end, which runs again
// under the permuted order).
func ZZ_C12_backends_map_order_independent() {
	which := zz.Choice("backend", 3)
	want, ok := zzBackendOut(which)
	zz.Assert(ok, "program rejected")
	zz.MapOrder(true)
	got, ok2 := zzBackendOut(which)
	zz.MapOrder(false)
	zz.Assert(ok2, "program rejected under another map iteration order")
	if ok && ok2 {
		zz.Assert(got == want, "back-end output depends on map iteration order")
	}
	zz.Reach("end")
}
