//go:build verif

package naga

import (
	"github.com/gogpu/naga/internal/zzspv"
	zz "github.com/gogpu/naga/internal/zzverif"
	"github.com/gogpu/naga/spirv"
)

// Stage interface attributes survive translation (C17): `@invariant` on the position output
// must reach the SPIR-V as an Invariant decoration (decoration 18) on the variable that
// carries BuiltIn Position (decoration 11, builtin 0), for the direct and the struct form.
func ZZ_C17_spirv_invariant_position() {
	direct := zz.Flag("direct-return")
	invariant := zz.Flag("invariant")
	attr := "@builtin(position)"
	if invariant {
		attr = "@invariant @builtin(position)"
	}
	src := "struct Out { " + attr + " pos: vec4<f32>, @location(0) c: f32 }\n@vertex fn main(@location(0) x: f32) -> Out { return Out(vec4<f32>(x, 0.0, 0.0, 1.0), x); }"
	if direct {
		src = "@vertex fn main(@location(0) x: f32) -> " + attr + " vec4<f32> { return vec4<f32>(x, 0.0, 0.0, 1.0); }"
	}
	if invariant {
		zz.Cell("invariant")
	} else {
		zz.Cell("plain")
	}
	ast, err := Parse(src)
	zz.Assert(err == nil, "program does not parse")
	if err != nil {
		return
	}
	mod, err := LowerWithSource(ast, src)
	zz.Assert(err == nil, "program does not lower")
	if err != nil {
		return
	}
	out, err := GenerateSPIRV(mod, spirv.DefaultOptions())
	zz.Assert(err == nil, "SPIR-V backend rejected the program")
	if err != nil {
		return
	}
	_, insts, ok := zzspv.Parse(out)
	zz.Assert(ok, "malformed SPIR-V")
	position := map[uint32]bool{}
	invariantIDs := map[uint32]bool{}
	for _, in := range insts {
		if in.Op == 71 && len(in.Words) >= 2 { // OpDecorate
			if in.Words[1] == 11 && len(in.Words) >= 3 && in.Words[2] == 0 {
				position[in.Words[0]] = true
			}
			if in.Words[1] == 18 {
				invariantIDs[in.Words[0]] = true
			}
		}
	}
	zz.Assert(len(position) == 1, "exactly one variable carries BuiltIn Position")
	for id := range position {
		zz.Assert(invariantIDs[id] == invariant, "the Invariant decoration of the position output differs from the WGSL @invariant attribute")
	}
	zz.Reach("end")
}
