//go:build verif

package naga

import (
	"github.com/gogpu/naga/glsl"
	"github.com/gogpu/naga/hlsl"
	"github.com/gogpu/naga/internal/zzclike"
	zz "github.com/gogpu/naga/internal/zzverif"
	"github.com/gogpu/naga/msl"
)

// Shared by the translation-validation harnesses of the text back ends (C03/C04/C05 and the
// C07 layout harnesses): options and compile-and-run drivers.

func zzHLSLOptions() *hlsl.Options {
	o := hlsl.DefaultOptions()
	switch zz.Choice("options", 3) {
	case 1:
		o.ShaderModel = hlsl.ShaderModel6_0
		o.ForceLoopBounding = false
	case 2:
		o.RestrictIndexing = false
	}
	return o
}

func zzCompileAndRunHLSL(src string, in []uint32, wid [3]uint32, garbage []uint32) ([]uint32, bool) {
	ast, err := Parse(src)
	zz.Assert(err == nil, "template does not parse: "+src)
	if err != nil {
		return nil, false
	}
	mod, err := LowerWithSource(ast, src)
	zz.Assert(err == nil, "template does not lower: "+src)
	if err != nil {
		return nil, false
	}
	verrs, err := Validate(mod)
	zz.Assert(err == nil && len(verrs) == 0, "template rejected by the validator: "+src)
	text, info, err := hlsl.Compile(mod, zzHLSLOptions())
	zz.Assert(err == nil, "HLSL backend rejected the template: "+src)
	if err != nil {
		return nil, false
	}
	entry := "main"
	if info != nil {
		if n, ok := info.EntryPointNames["main"]; ok && n != "" {
			entry = n
		}
	}
	prog, perr := zzclike.Parse(text, zzclike.HLSL)
	zz.Assert(perr == "", "emitted HLSL is outside the reference grammar: "+perr)
	if perr != "" {
		return nil, false
	}
	for _, dup := range prog.Dups {
		zz.Fail("emitted HLSL redefines a name: " + dup)
	}
	prog.WorkgroupID, prog.WorkgroupSize, prog.Garbage, prog.Uniform = wid, [3]uint32{1, 1, 1}, garbage, zzUniformImage
	out, rerr := prog.Run(entry, in)
	zz.Assert(rerr == "", "emitted HLSL cannot be executed by the reference evaluator: "+rerr)
	if rerr != "" {
		return nil, false
	}
	return out, true
}

func zzMSLOptions() msl.Options {
	o := msl.DefaultOptions()
	switch zz.Choice("options", 3) {
	case 1:
		o.LangVersion = msl.Version3_0
		o.ForceLoopBounding = false
	case 2:
		o.LangVersion = msl.Version1_2
	}
	return o
}

func zzCompileAndRunMSL(src string, in []uint32, wid [3]uint32, garbage []uint32) ([]uint32, bool) {
	ast, err := Parse(src)
	zz.Assert(err == nil, "template does not parse: "+src)
	if err != nil {
		return nil, false
	}
	mod, err := LowerWithSource(ast, src)
	zz.Assert(err == nil, "template does not lower: "+src)
	if err != nil {
		return nil, false
	}
	verrs, err := Validate(mod)
	zz.Assert(err == nil && len(verrs) == 0, "template rejected by the validator: "+src)
	text, info, err := msl.Compile(mod, zzMSLOptions())
	zz.Assert(err == nil, "MSL backend rejected the template: "+src)
	if err != nil {
		return nil, false
	}
	entry := "main_"
	if n, ok := info.EntryPointNames["main"]; ok && n != "" {
		entry = n
	}
	prog, perr := zzclike.Parse(text, zzclike.MSL)
	zz.Assert(perr == "", "emitted MSL is outside the reference grammar: "+perr)
	if perr != "" {
		return nil, false
	}
	for _, dup := range prog.Dups {
		zz.Fail("emitted MSL redefines a name: " + dup)
	}
	prog.WorkgroupID, prog.WorkgroupSize, prog.Garbage, prog.Uniform = wid, [3]uint32{1, 1, 1}, garbage, zzUniformImage
	out, rerr := prog.Run(entry, in)
	zz.Assert(rerr == "", "emitted MSL cannot be executed by the reference evaluator: "+rerr)
	if rerr != "" {
		return nil, false
	}
	return out, true
}

func zzGLSLOptions() glsl.Options {
	o := glsl.DefaultOptions()
	switch zz.Choice("options", 3) {
	case 0:
		o.LangVersion = glsl.Version430
	case 1:
		o.LangVersion = glsl.VersionES310
	case 2:
		o.LangVersion = glsl.Version450
		o.ForceHighPrecision = false
	}
	return o
}

func zzCompileAndRunGLSL(src string, in []uint32, wid [3]uint32, garbage []uint32) ([]uint32, bool) {
	ast, err := Parse(src)
	zz.Assert(err == nil, "template does not parse: "+src)
	if err != nil {
		return nil, false
	}
	mod, err := LowerWithSource(ast, src)
	zz.Assert(err == nil, "template does not lower: "+src)
	if err != nil {
		return nil, false
	}
	verrs, err := Validate(mod)
	zz.Assert(err == nil && len(verrs) == 0, "template rejected by the validator: "+src)
	text, info, err := glsl.Compile(mod, zzGLSLOptions())
	zz.Assert(err == nil, "GLSL backend rejected the template: "+src)
	if err != nil {
		return nil, false
	}
	entry := "main"
	_ = info
	prog, perr := zzclike.Parse(text, zzclike.GLSL)
	zz.Assert(perr == "", "emitted GLSL is outside the reference grammar: "+perr)
	if perr != "" {
		return nil, false
	}
	for _, dup := range prog.Dups {
		zz.Fail("emitted GLSL redefines a name: " + dup)
	}
	prog.WorkgroupID, prog.WorkgroupSize, prog.Garbage, prog.Uniform = wid, [3]uint32{1, 1, 1}, garbage, zzUniformImage
	out, rerr := prog.Run(entry, in)
	zz.Assert(rerr == "", "emitted GLSL cannot be executed by the reference evaluator: "+rerr)
	if rerr != "" {
		return nil, false
	}
	return out, true
}
