//go:build verif

package naga

import (
	"strings"

	zz "github.com/gogpu/naga/internal/zzverif"
)

// C11 over whole programs: (valid program, rule, site). The base program is valid (checked on
// every path's sibling: the "none" rule); each rule-breaking edit is placed at every site where
// it is applicable — entry point top level, if-branch inside a loop, else-branch, loop
// continuing block, helper function, switch case, doubly nested block, module-scope const
// initialiser, argument of a builtin — and the real Parse -> Lower -> Validate pipeline must
// return an error. When the error carries a position, a syntax error must point at the first
// token that cannot continue the grammar and a semantic error must lie within the module-scope
// declaration that contains the offending construct.

type zzRule struct {
	name, text string
	syntaxAt   int // >= 0: a syntax error whose offending token starts at this offset of text; -2: the token after text
}

var zzStmtRules = []zzRule{
	{"undeclared-ident", "let zq = zundeclared + 1;", -1},
	{"undeclared-type", "var zq: ZUndeclared;", -1},
	{"undeclared-fn", "let zq = zundeclared_fn(1);", -1},
	{"unknown-member", "let zq = zs.nomember;", -1},
	{"arg-count-more", "let zq = leaf(1, 2);", -1},
	{"arg-count-less", "let zq = leaf();", -1},
	{"arg-type", "let zq = leaf(true);", -1},
	{"must-use", "mu(1);", -1},
	{"const-assert", "const_assert 1 > 2;", -1},
	{"array-size-0", "var zq: array<i32, 0>;", -1},
	{"array-size-neg", "var zq: array<i32, -1>;", -1},
	{"swizzle-mix", "let zq = vec3<i32>(1, 2, 3).xg;", -1},
	{"swizzle-width", "let zq = vec2<i32>(1, 2).z;", -1},
	{"missing-semicolon", "let zq = 1", -2},
	{"unbalanced", "let zq = (1 + 2;", 15},
	{"const-div-zero", "let zq = 1 / 0;", -1},
	{"const-mod-zero", "const zq = 1 % 0;", -1},
	{"let-undeclared-type", "let zq: ZNope = 1;", -1},
	{"const-undeclared-type", "const zq: ZNope = 1;", -1},
	{"let-array-size-0", "let zq: array<i32, 0> = array<i32, 0>();", -1},
	{"array-size-div-zero", "var zq: array<i32, 4 / 0>;", -1},
	{"call-unbalanced", "let zq = leaf(1;", 15},
	{"index-unbalanced", "let zq = zarr[1;", 15},
	{"template-unbalanced", "var zq: vec3<f32 = vec3<f32>(1.0);", 17},
	{"arg-type-u32", "let zq = leaf(1u);", -1},
	{"arg-type-f32", "let zq = leaf(1.5f);", -1},
	{"arg-type-abstract-float", "let zq = leaf(1.5);", -1},
	{"arg-type-vector-scalar-kind", "let zq = vleaf(vec2<f32>(1.0, 2.0));", -1},
	{"arg-type-array-length", "let zq = aleaf(array<i32, 3>(1, 2, 3));", -1},
	{"arg-type-other-struct", "let zq = sleaf(ZT(1));", -1},
	{"unknown-member-const-assert", "const_assert zcs.nomember == 1;", -1},
	{"vector-div-zero", "let zq = vec2<i32>(1, 2) / vec2<i32>(0, 1);", -1},
}

var zzExprRules = []zzRule{
	{"undeclared-ident", "zundeclared +", -1},
	{"undeclared-fn", "zundeclared_fn(1) +", -1},
	{"unknown-member", "zs.nomember +", -1},
	{"arg-count-more", "leaf(1, 2) +", -1},
	{"swizzle-mix", "vec3<i32>(1, 2, 3).xg.x +", -1},
	{"const-div-zero", "(1 / 0) +", -1},
}

// Module-scope declarations appended to the base program.
var zzModuleAdditions = [][2]string{
	{"private-init-unknown-function", "var<private> zp: i32 = znope();"},
	{"private-init-undeclared-identifier", "var<private> zp: i32 = znope;"},
	{"private-init-div-zero", "var<private> zp: i32 = 1 / 0;"},
	{"override-init-div-zero", "override zo: i32 = 1 / 0;"},
	{"override-init-unknown-function", "override zo: i32 = znope();"},
	{"group-non-literal-without-binding", "const ZG = 0;\n@group(ZG) var<uniform> zu: f32;"},
	{"workgroup-size-div-zero", "@compute @workgroup_size(1 / 0) fn third() { }"},
	{"private-undeclared-type", "var<private> zp: ZNope;"},
	{"struct-member-undeclared-type", "struct ZQ { a: ZNope }"},
	{"parameter-undeclared-type", "fn zf(a: ZNope) { }"},
	{"result-undeclared-type", "fn zf() -> ZNope { }"},
	{"alias-undeclared-type", "alias ZA = ZNope;"},
	{"private-array-size-0", "var<private> zp: array<i32, 0>;"},
	{"private-array-size-negative", "var<private> zp: array<i32, -2>;"},
	{"attribute-unbalanced", "@group(0 @binding(7) var<uniform> zu: f32;"},
	{"var-template-unbalanced", "@group(0) @binding(7) var<storage, read_write zu: f32;"},
}

var zzModuleEdits = [][3]string{
	{"group-without-binding/buf", "@group(0) @binding(0) var<storage", "@group(0) var<storage"},
	{"binding-without-group/buf", "@group(0) @binding(0) var<storage", "@binding(0) var<storage"},
	{"group-without-binding/uni", "@group(0) @binding(1) var<uniform>", "@group(0) var<uniform>"},
	{"binding-without-group/uni", "@group(0) @binding(1) var<uniform>", "@binding(1) var<uniform>"},
	{"no-workgroup-size/main", "@compute @workgroup_size(1) fn main", "@compute fn main"},
	{"no-workgroup-size/second", "@compute @workgroup_size(2) fn second", "@compute fn second"},
}

// zzCompileError runs the front end and the validator and returns the first error.
func zzCompileError(src string) error {
	ast, err := Parse(src)
	if err != nil {
		return err
	}
	mod, err := LowerWithSource(ast, src)
	if err != nil {
		return err
	}
	verrs, err := Validate(mod)
	if err != nil {
		return err
	}
	if len(verrs) > 0 {
		return &verrs[0]
	}
	return nil
}

func zzLineCol(src string, off int) (line, col int) {
	line, col = 1, 1
	for i := 0; i < off && i < len(src); i++ {
		if src[i] == '\n' {
			line++
			col = 1
		} else {
			col++
		}
	}
	return
}

func zzAtoiPrefix(s string) (n int, rest string, ok bool) {
	i := 0
	for i < len(s) && s[i] >= '0' && s[i] <= '9' {
		n = n*10 + int(s[i]-'0')
		i++
	}
	return n, s[i:], i > 0
}

// zzErrorPosition extracts the reported position: "line L, column C:" (syntax errors) or a
// leading / embedded "L:C:" (semantic errors).
func zzErrorPosition(msg string) (line, col int, syntax, ok bool) {
	if i := strings.Index(msg, "line "); i >= 0 {
		l, rest, ok1 := zzAtoiPrefix(msg[i+5:])
		if ok1 && strings.HasPrefix(rest, ", column ") {
			c, _, ok2 := zzAtoiPrefix(rest[9:])
			if ok2 {
				return l, c, true, true
			}
		}
	}
	for i := 0; i < len(msg); i++ {
		if msg[i] < '0' || msg[i] > '9' || (i > 0 && msg[i-1] != ' ') {
			continue
		}
		l, rest, _ := zzAtoiPrefix(msg[i:])
		if len(rest) > 0 && rest[0] == ':' {
			c, rest2, ok2 := zzAtoiPrefix(rest[1:])
			if ok2 && len(rest2) > 0 && rest2[0] == ':' {
				return l, c, false, true
			}
		}
	}
	return 0, 0, false, false
}

// zzDeclRange: byte range of the module-scope declaration containing offset off (declarations
// of the base program start at column 1 with one of these words).
func zzDeclRange(src string, off int) (int, int) {
	starts := []string{"\nstruct ", "\nvar<", "\n@group", "\n@binding", "\n@must_use", "\nfn ", "\nconst ", "\n@compute"}
	begin, end := 0, len(src)
	for i := 0; i < len(src); i++ {
		for _, s := range starts {
			if strings.HasPrefix(src[i:], s) {
				if i+1 <= off {
					begin = i + 1
				} else if i+1 < end {
					end = i + 1
				}
			}
		}
	}
	return begin, end
}

func zzCheckRejected(name, src string, editOff int, r zzRule) {
	err := zzCompileError(src)
	zz.Assert(err != nil, "rule-breaking program accepted: "+name)
	if err == nil {
		return
	}
	line, col, syntax, ok := zzErrorPosition(err.Error())
	if !ok {
		return // no position reported
	}
	nLines, _ := zzLineCol(src, len(src))
	zz.Assert(line >= 1 && line <= nLines && col >= 1, "reported position lies outside the source text: "+name)
	if r.syntaxAt != -1 {
		zz.Assert(syntax, "syntax error reported without a token position: "+name)
		want := editOff + r.syntaxAt
		if r.syntaxAt == -2 {
			want = editOff + len(r.text)
			for want < len(src) && (src[want] == ' ' || src[want] == '\n' || src[want] == '\t') {
				want++
			}
		}
		wl, wc := zzLineCol(src, want)
		zz.Assert(line == wl && col == wc, "syntax error is not reported at the first token that cannot continue the grammar: "+name)
		return
	}
	b, e := zzDeclRange(src, editOff)
	bl, _ := zzLineCol(src, b)
	el, _ := zzLineCol(src, e)
	zz.Assert(line >= bl && line <= el, "semantic error is reported outside the module-scope declaration that contains the construct: "+name)
}

// zzFewSites: rules that the front end does not diagnose anywhere (open findings in
// known_findings.json) are placed at two sites only - the entry point and the helper function;
// the other five sites would repeat the same finding.
func zzFewSites(rule string) bool {
	return strings.HasPrefix(rule, "arg-type-") || rule == "unknown-member-const-assert" || rule == "vector-div-zero"
}

func ZZ_C11_rule_sites_statements() {
	sites := []string{"S0", "S3", "S1", "S2", "S4", "S5", "S6"}
	r := zzStmtRules[zz.Choice("rule", len(zzStmtRules))]
	nSites := len(sites)
	if zzFewSites(r.name) {
		nSites = 2
	}
	site := sites[zz.Choice("site", nSites)]
	zz.Cell(r.name + "@" + site)
	marker := "/*" + site + "*/"
	off := strings.Index(zzRuleBase, marker)
	zz.Assert(zzCompileError(zzRuleBase) == nil, "the base program is rejected")
	zzCheckRejected(r.name+"@"+site, strings.Replace(zzRuleBase, marker, r.text, 1), off, r)
	zz.Reach("end")
}

func ZZ_C11_rule_sites_expressions() {
	sites := []string{"E0", "E1"}
	r := zzExprRules[zz.Choice("rule", len(zzExprRules))]
	site := sites[zz.Choice("site", len(sites))]
	zz.Cell(r.name + "@" + site)
	marker := "/*" + site + "*/"
	off := strings.Index(zzRuleBase, marker)
	zzCheckRejected(r.name+"@"+site, strings.Replace(zzRuleBase, marker, r.text, 1), off, r)
	zz.Reach("end")
}

func ZZ_C11_rule_sites_module_scope() {
	e := zzModuleEdits[zz.Choice("edit", len(zzModuleEdits))]
	zz.Cell(e[0])
	off := strings.Index(zzRuleBase, e[1])
	zzCheckRejected(e[0], strings.Replace(zzRuleBase, e[1], e[2], 1), off, zzRule{name: e[0], text: e[2], syntaxAt: -1})
	zz.Reach("end")
}

func ZZ_C11_rule_sites_module_additions() {
	a := zzModuleAdditions[zz.Choice("addition", len(zzModuleAdditions))]
	zz.Cell(a[0])
	src := zzRuleBase + a[1] + "\n"
	err := zzCompileError(src)
	zz.Assert(err != nil, "rule-breaking program accepted: "+a[0])
	if err != nil {
		if line, col, _, ok := zzErrorPosition(err.Error()); ok {
			nLines, _ := zzLineCol(src, len(src))
			zz.Assert(line >= 1 && line <= nLines && col >= 1, "reported position lies outside the source text: "+a[0])
		}
	}
	zz.Reach("end")
}
