//go:build verif

package codegen

// A global reachable only through a helper call nested in control flow must still be
// collected (it is then declared in the interface and, for workgroup memory, zero-initialised).
func ZZ_C01_spirv_reachable_globals() { zzUsedGlobalsBody() }
