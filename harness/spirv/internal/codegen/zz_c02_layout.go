//go:build verif

package codegen

// C02: a uniform/storage struct member that is (an array of arrays of) a matrix carries the
// ColMajor and MatrixStride decorations that the Vulkan environment requires for validity.
func ZZ_C02_matrix_member_decorations() { zzLayoutDecorationsBody() }
