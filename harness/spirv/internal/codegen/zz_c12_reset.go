//go:build verif

package codegen

import (
	zz "github.com/gogpu/naga/internal/zzverif"
)

// History independence of a reused Backend: whatever state an earlier Compile left behind
// (modelled as ARBITRARY content in every field of the struct, so that a field added later is
// covered automatically), Reset puts the Backend into the logical state of a fresh one.
func ZZ_C12_spirv_backend_reset() {
	opts := DefaultOptions()
	opts.Version = Version1_3
	b := NewBackend(opts)
	zz.Havoc("b", b)
	// configuration is not per-compilation state ...
	cfg := NewBackend(opts)
	b.options, b.requestedVersion = cfg.options, cfg.requestedVersion
	// ... except that a compilation may have raised the version for a 1.4 feature
	zz.Cell("state")
	if zz.Flag("previousModuleNeeded14") {
		zz.Cell("version-bump")
		b.builder = NewModuleBuilder(opts.Version)
		b.requireSpirvVersion14()
	}
	b.Reset()
	fresh := NewBackend(opts)
	// Compile re-creates these two before use; neutralise them for the comparison
	b.builder, fresh.builder = nil, nil
	b.ib, fresh.ib = InstructionBuilder{}, InstructionBuilder{}
	zz.Assert(zz.SameState(b, fresh), "Backend.Reset leaves state from the previous compilation behind")
	zz.Reach("end")
}

// Same for ModuleBuilder.Reset, which Compile calls on the reused builder.
func ZZ_C12_spirv_builder_reset() {
	v := DefaultOptions().Version
	mb := NewModuleBuilder(v)
	zz.Havoc("mb", mb)
	mb.Reset(v)
	fresh := NewModuleBuilder(v)
	// the arena keeps its backing buffer by design; its content is dead after pos = 0
	mb.arena.buf, fresh.arena.buf = nil, nil
	mb.ib, fresh.ib = InstructionBuilder{}, InstructionBuilder{}
	zz.Assert(zz.SameState(mb, fresh), "ModuleBuilder.Reset leaves state from the previous module behind")
	zz.Reach("end")
}
