//go:build verif

package codegen

// SPIR-V >= 1.4 requires every global an entry point references (also through calls) in its
// OpEntryPoint interface list: the used-globals collector must reach every call site.
func ZZ_C02_entry_point_used_globals() { zzUsedGlobalsBody() }
