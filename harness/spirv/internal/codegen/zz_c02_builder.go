//go:build verif

package codegen

import (
	zz "github.com/gogpu/naga/internal/zzverif"
)

func zzWord(b []byte, i int) uint32 {
	return uint32(b[4*i]) | uint32(b[4*i+1])<<8 | uint32(b[4*i+2])<<16 | uint32(b[4*i+3])<<24
}

// zzName returns a symbolic name of length n without NUL bytes.
func zzName(id string, n int) string {
	s := zz.Str(id, n)
	for i := 0; i < n; i++ {
		zz.Assume(s[i] != 0)
	}
	return s
}

// zzSectionOrder gives the logical-layout rank of an opcode (SPIR-V 2.4).
func zzSectionRank(op uint32) int {
	switch op {
	case 17: // OpCapability
		return 0
	case 10: // OpExtension
		return 1
	case 11: // OpExtInstImport
		return 2
	case 14: // OpMemoryModel
		return 3
	case 15: // OpEntryPoint
		return 4
	case 16: // OpExecutionMode
		return 5
	case 7: // OpString
		return 6
	case 5, 6: // OpName, OpMemberName
		return 7
	case 71, 72: // OpDecorate, OpMemberDecorate
		return 8
	}
	if op >= 19 && op <= 33 || op == 43 || op == 44 || op == 46 { // types, OpConstant, OpConstantComposite, OpConstantNull
		return 9
	}
	if op == 59 { // OpVariable (module scope here)
		return 10
	}
	return 11
}

// U1: a module built from a sequence of builder calls with arbitrary operand words and names
// (every name length 0..5 with arbitrary non-NUL bytes) is a well-formed instruction stream:
// magic, version word, bound above every id handed out, every instruction's word count > 0 and
// covering the stream exactly, literal strings NUL-terminated and zero-padded to a word
// boundary, sections in the order of SPIR-V 2.4.
func ZZ_C02_builder_stream() {
	mb := NewModuleBuilder(Version1_3)
	var ids []uint32
	mb.AddCapability(Capability(zz.U32("cap")))
	extName := zzName("ext", zz.Choice("extLen", 6))
	ids = append(ids, mb.AddExtInstImport(extName))
	mb.SetMemoryModel(AddressingModelLogical, MemoryModelGLSL450)
	tVoid := mb.AddTypeVoid()
	tF := mb.AddTypeFloat(zz.U32("fwidth"))
	tV := mb.AddTypeVector(tF, zz.U32("vcount"))
	ids = append(ids, tVoid, tF, tV)
	c := mb.AddConstant(tF, zz.U32("cval"))
	ids = append(ids, c)
	nm := zzName("name", zz.Choice("nameLen", 6))
	mb.AddName(c, nm)
	mb.AddDecorate(tV, Decoration(zz.U32("deco")), zz.U32("dparam"))
	mb.AddMemberDecorate(tV, zz.U32("member"), DecorationOffset, zz.U32("offset"))
	fnT := mb.AddTypeFunction(tVoid)
	ids = append(ids, fnT)
	ep := zzName("ep", zz.Choice("epLen", 5))
	f := mb.AddFunction(fnT, tVoid, FunctionControlNone)
	ids = append(ids, f, mb.AddLabel())
	mb.AddReturn()
	mb.AddFunctionEnd()
	mb.AddEntryPoint(ExecutionModelGLCompute, f, ep, []uint32{c})
	mb.AddExecutionMode(f, ExecutionModeLocalSize, zz.U32("lx"), 1, 1)
	out := mb.Build()

	zz.Assert(len(out)%4 == 0 && len(out) >= 20, "module length")
	n := len(out) / 4
	zz.Assert(zzWord(out, 0) == 0x07230203, "magic number")
	zz.Assert(zzWord(out, 1) == 0x00010300, "version word")
	bound := zzWord(out, 3)
	for _, id := range ids {
		zz.Assert(id != 0 && id < bound, "id bound not above every result id")
	}
	zz.Assert(zzWord(out, 4) == 0, "schema word")
	pos := 5
	rank := 0
	count := 0
	for pos < n {
		w := zzWord(out, pos)
		wc, op := int(w>>16), w&0xFFFF
		zz.Assert(wc >= 1 && pos+wc <= n, "instruction word count is zero or runs past the end of the module")
		if wc < 1 || pos+wc > n {
			break
		}
		r := zzSectionRank(op)
		zz.Assert(r >= rank, "sections out of the order mandated by SPIR-V 2.4")
		rank = r
		// literal string operands: OpExtInstImport (after result id), OpName (after target), OpEntryPoint (after model, id)
		strAt := -1
		switch op {
		case 11:
			strAt = 2
		case 5:
			strAt = 2
		case 15:
			strAt = 3
		}
		if strAt >= 0 {
			// find the terminating NUL within the instruction
			terminated := false
			end := pos + wc
			for wi := pos + strAt; wi < end && !terminated; wi++ {
				for bi := 0; bi < 4; bi++ {
					if out[4*wi+bi] == 0 {
						terminated = true
						// the rest of this word must be zero padding
						for bj := bi; bj < 4; bj++ {
							zz.Assert(out[4*wi+bj] == 0, "literal string padding is not zero")
						}
						if op != 15 {
							zz.Assert(wi == end-1, "literal string does not end in the last word of the instruction")
						}
						break
					}
				}
			}
			zz.Assert(terminated, "literal string is not NUL-terminated inside its instruction")
		}
		pos += wc
		count++
	}
	zz.Assert(pos == n, "instruction stream does not end at the end of the module")
	zz.Assert(count == 17, "number of instructions emitted")
	zz.Reach("end")
}
