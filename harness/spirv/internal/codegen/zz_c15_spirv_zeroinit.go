//go:build verif

package codegen

// Workgroup variables are zero-initialised only if the used-globals collector finds them: it
// must follow calls at every statement position (loop continuing blocks, switch cases, ...).
func ZZ_C15_spirv_workgroup_vars_found() { zzUsedGlobalsBody() }
