//go:build verif

package codegen

// SPIR-V carries the declared @group/@binding as DescriptorSet/Binding on a StorageBuffer
// variable, @workgroup_size as LocalSize, for every number (compiled by the real backend).
func ZZ_C17_spirv_binding_numbers() { zzLayoutDecorationsBody() }

// The entry-point interface / used-resource set reaches every call site.
func ZZ_C17_spirv_used_globals() { zzUsedGlobalsBody() }
