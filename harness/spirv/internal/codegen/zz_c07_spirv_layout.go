//go:build verif

package codegen

// C07-U2: SPIR-V Offset / ArrayStride / MatrixStride / ColMajor decorations equal the IR layout.
func ZZ_C07_spirv_layout_decorations() { zzLayoutDecorationsBody() }
