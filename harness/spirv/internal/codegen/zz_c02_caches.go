//go:build verif

package codegen

import (
	zz "github.com/gogpu/naga/internal/zzverif"
)

func zzIDs(name string, n int, small bool) []uint32 {
	ids := make([]uint32, n)
	for i := range ids {
		if small {
			ids[i] = []uint32{3, 33, 4, 34}[zz.Choice(name+string(rune('0'+i)), 4)]
		} else {
			ids[i] = zz.U32(name + string(rune('0'+i)))
			zz.Assume(ids[i] >= 1 && ids[i] < 1<<24) // SPIR-V ids emitted by naga stay far below 2^24
		}
	}
	return ids
}

func zzSameIDs(a, b []uint32) bool {
	if len(a) != len(b) {
		return false
	}
	same := true
	for i := range a {
		same = same && a[i] == b[i]
	}
	return same
}

func zzFuncTypeCheck(small bool) {
	n1, n2 := zz.Choice("arity1", 3), zz.Choice("arity2", 3)
	s1, s2 := zzIDs("a", n1+1, small), zzIDs("b", n2+1, small)
	b := zzBackend()
	id1 := b.getFuncType(s1[0], s1[1:])
	id2 := b.getFuncType(s2[0], s2[1:])
	zz.Assert((id1 == id2) == zzSameIDs(s1, s2), "OpTypeFunction cache: two different signatures share one type (or one signature was declared twice)")
	zz.Reach("end")
}

// Non-aggregate types unique: the function-type cache returns the same id iff return and
// parameter types are equal, for every id value (ids < 2^24) and arities 0..2.
func ZZ_C02_func_type_cache() { zzFuncTypeCheck(false) }

// Same over the small id set {3,4,33,34}: concrete witnesses for key collisions such as a
// missing separator ("3"+"33" = "33"+"3").
func ZZ_C02_func_type_cache_small() {
	zz.AtomConcretize(true)
	zzFuncTypeCheck(true)
}

// Pointer / vector / matrix type caches use packed integer keys: injective for ids < 2^24.
func ZZ_C02_packed_type_caches() {
	which := zz.Choice("which", 3)
	x1, x2 := zzIDs("x", 1, false)[0], zzIDs("y", 1, false)[0]
	b := zzBackend()
	switch which {
	case 0:
		c1, c2 := StorageClass(zz.U32("class1")), StorageClass(zz.U32("class2"))
		zz.Assume(c1 < 256 && c2 < 256)
		id1 := b.emitPointerType(c1, x1)
		id2 := b.emitPointerType(c2, x2)
		zz.Assert((id1 == id2) == (c1 == c2 && x1 == x2), "OpTypePointer cache: distinct pointer types share an id (or one was declared twice)")
	case 1:
		n1, n2 := zz.U32("n1"), zz.U32("n2")
		zz.Assume(n1 >= 2 && n1 <= 4 && n2 >= 2 && n2 <= 4)
		id1 := b.emitVectorType(x1, n1)
		id2 := b.emitVectorType(x2, n2)
		zz.Assert((id1 == id2) == (n1 == n2 && x1 == x2), "OpTypeVector cache: distinct vector types share an id (or one was declared twice)")
	default:
		n1, n2 := zz.U32("n1"), zz.U32("n2")
		zz.Assume(n1 >= 2 && n1 <= 4 && n2 >= 2 && n2 <= 4)
		id1 := b.emitMatrixType(x1, n1)
		id2 := b.emitMatrixType(x2, n2)
		zz.Assert((id1 == id2) == (n1 == n2 && x1 == x2), "OpTypeMatrix cache: distinct matrix types share an id (or one was declared twice)")
	}
	zz.Reach("end")
}
