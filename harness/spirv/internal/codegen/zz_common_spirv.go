//go:build verif

package codegen

import (
	zz "github.com/gogpu/naga/internal/zzverif"
	"github.com/gogpu/naga/ir"
)

func zzBackend() *Backend {
	opts := DefaultOptions()
	b := NewBackend(opts)
	b.builder = NewModuleBuilder(opts.Version)
	b.ib = InstructionBuilder{arena: &b.builder.arena}
	return b
}

// zzNest wraps inner into the statement shape number site.
func zzNest(site int, inner []ir.Statement) []ir.Statement {
	switch site {
	case 0:
		return inner
	case 1:
		return []ir.Statement{{Kind: ir.StmtBlock{Block: inner}}}
	case 2:
		return []ir.Statement{{Kind: ir.StmtIf{Condition: 0, Accept: inner}}}
	case 3:
		return []ir.Statement{{Kind: ir.StmtIf{Condition: 0, Reject: inner}}}
	case 4:
		return []ir.Statement{{Kind: ir.StmtSwitch{Selector: 0, Cases: []ir.SwitchCase{{Value: ir.SwitchValueI32(1), Body: inner}, {Value: ir.SwitchValueDefault{}}}}}}
	case 5:
		return []ir.Statement{{Kind: ir.StmtSwitch{Selector: 0, Cases: []ir.SwitchCase{{Value: ir.SwitchValueI32(1)}, {Value: ir.SwitchValueDefault{}, Body: inner}}}}}
	case 6:
		return []ir.Statement{{Kind: ir.StmtLoop{Body: inner}}}
	default:
		return []ir.Statement{{Kind: ir.StmtLoop{Continuing: inner}}}
	}
}

const zzNumSites = 8

// zzUsedGlobalsBody: the set of globals an entry point uses must contain every global referenced
// by a helper reached through a call at ANY statement position (two nesting levels of
// block / if-accept / if-reject / switch case / switch default / loop body / loop continuing),
// through a chain of two helpers, and nothing else; the list is sorted without duplicates.
func zzUsedGlobalsBody() {
	s1, s2 := zz.Choice("outerSite", zzNumSites), zz.Choice("innerSite", zzNumSites)
	gHelper := ir.GlobalVariableHandle(zz.Choice("helperGlobal", 4))
	gEntry := ir.GlobalVariableHandle(zz.Choice("entryGlobal", 4))
	chain := zz.Flag("viaSecondHelper")
	m := &ir.Module{GlobalVariables: make([]ir.GlobalVariable, 4)}
	leaf := ir.Function{Name: "leaf", Expressions: []ir.Expression{{Kind: ir.ExprGlobalVariable{Variable: gHelper}}}}
	mid := ir.Function{Name: "mid", Expressions: []ir.Expression{{Kind: ir.Literal{Value: ir.LiteralBool(true)}}},
		Body: zzNest(s2, []ir.Statement{{Kind: ir.StmtCall{Function: 0}}})}
	m.Functions = []ir.Function{leaf, mid}
	callee := ir.FunctionHandle(0)
	if chain {
		callee = 1
	}
	entry := ir.Function{Name: "main", Expressions: []ir.Expression{{Kind: ir.Literal{Value: ir.LiteralBool(true)}}, {Kind: ir.ExprGlobalVariable{Variable: gEntry}}},
		Body: zzNest(s1, zzNest(s2, []ir.Statement{{Kind: ir.StmtCall{Function: callee}}}))}
	b := zzBackend()
	b.module = m
	got := b.collectUsedGlobalVars(&entry)
	hasH, hasE := false, false
	for i, g := range got {
		if g == gHelper {
			hasH = true
		}
		if g == gEntry {
			hasE = true
		}
		zz.Assert(g == gHelper || g == gEntry, "a global that is not used was collected")
		if i > 0 {
			zz.Assert(got[i-1] < g, "used-globals list is not strictly increasing")
		}
	}
	zz.Assert(hasE, "global referenced directly by the entry point is missing")
	zz.Assert(hasH, "global referenced by a helper called from a nested statement position is missing from the entry point's used set (interface list / workgroup zero-init)")
	zz.Reach("end")
}

// ---- reference SPIR-V reader ----

type zzInst struct {
	op    uint32
	words []uint32 // operands (without the first word)
}

func zzParseSPIRV(out []byte) (bound uint32, insts []zzInst, ok bool) {
	if len(out)%4 != 0 || len(out) < 20 {
		return 0, nil, false
	}
	n := len(out) / 4
	w := func(i int) uint32 {
		return uint32(out[4*i]) | uint32(out[4*i+1])<<8 | uint32(out[4*i+2])<<16 | uint32(out[4*i+3])<<24
	}
	if w(0) != 0x07230203 {
		return 0, nil, false
	}
	bound = w(3)
	pos := 5
	for pos < n {
		h := w(pos)
		wc, op := int(h>>16), h&0xFFFF
		if wc < 1 || pos+wc > n {
			return bound, insts, false
		}
		in := zzInst{op: op}
		for i := 1; i < wc; i++ {
			in.words = append(in.words, w(pos+i))
		}
		insts = append(insts, in)
		pos += wc
	}
	return bound, insts, true
}

const (
	zzOpMemberDecorate = 72
	zzOpDecorate       = 71
	zzOpTypeStruct     = 30
	zzOpTypeArray      = 28
	zzOpVariable       = 59
	zzOpExecutionMode  = 16
	zzOpEntryPoint     = 15
	zzDecoBlock        = 2
	zzDecoColMajor     = 5
	zzDecoArrayStride  = 6
	zzDecoMatrixStride = 7
	zzDecoBinding      = 33
	zzDecoDescSet      = 34
	zzDecoOffset       = 35
)

// zzLayoutModule: storage buffer `g: S` with
//
//	struct S { a: f32 @0, m: M @off1, c: f32 @off2 }  (offsets symbolic)
//
// where M is mat3x3<f32>, array<mat3x3,2>, array<array<mat3x3,2>,2> or array<vec4<f32>,3>
// (strides symbolic), bound at (@group G, @binding B) with symbolic numbers, and a compute entry
// point with symbolic workgroup size that stores to g.a.
func zzLayoutModule() (m *ir.Module, shape int, off1, off2, span, stride1, stride2, group, binding uint32, wg [3]uint32) {
	shape = zz.Choice("memberShape", 4)
	off1, off2, span = zz.U32("off1"), zz.U32("off2"), zz.U32("span")
	stride1, stride2 = zz.U32("stride1"), zz.U32("stride2")
	group, binding = zz.U32("group"), zz.U32("binding")
	wg = [3]uint32{zz.U32("wgx"), zz.U32("wgy"), zz.U32("wgz")}
	zz.Assume(wg[0] >= 1 && wg[1] >= 1 && wg[2] >= 1)
	// strides of host-shareable arrays are at least the element size (never 0)
	zz.Assume(stride1 >= 16 && stride2 >= 16)
	f32 := ir.ScalarType{Kind: ir.ScalarFloat, Width: 4}
	two, three := uint32(2), uint32(3)
	m = &ir.Module{Types: []ir.Type{
		{Inner: f32}, // 0
		{Inner: ir.MatrixType{Columns: 3, Rows: 3, Scalar: f32}},                              // 1
		{Inner: ir.ArrayType{Base: 1, Size: ir.ArraySize{Constant: &two}, Stride: stride1}},   // 2
		{Inner: ir.ArrayType{Base: 2, Size: ir.ArraySize{Constant: &two}, Stride: stride2}},   // 3
		{Inner: ir.VectorType{Size: 4, Scalar: f32}},                                          // 4
		{Inner: ir.ArrayType{Base: 4, Size: ir.ArraySize{Constant: &three}, Stride: stride1}}, // 5
	}}
	memberType := []ir.TypeHandle{1, 2, 3, 5}[shape]
	m.Types = append(m.Types, ir.Type{Name: "S", Inner: ir.StructType{Span: span, Members: []ir.StructMember{
		{Name: "a", Type: 0, Offset: 0}, {Name: "m", Type: memberType, Offset: off1}, {Name: "c", Type: 0, Offset: off2}}}}) // 6
	m.GlobalVariables = []ir.GlobalVariable{{Name: "g", Space: ir.SpaceStorage, Type: 6, Access: ir.StorageReadWrite,
		Binding: &ir.ResourceBinding{Group: group, Binding: binding}}}
	fn := ir.Function{Name: "main", Expressions: []ir.Expression{
		{Kind: ir.ExprGlobalVariable{Variable: 0}},
		{Kind: ir.ExprAccessIndex{Base: 0, Index: 0}},
		{Kind: ir.Literal{Value: ir.LiteralF32(1)}},
	}}
	fn.Body = ir.Block{{Kind: ir.StmtEmit{Range: ir.Range{Start: 1, End: 2}}}, {Kind: ir.StmtStore{Pointer: 1, Value: 2}}, {Kind: ir.StmtReturn{}}}
	for i := range fn.Expressions {
		r, err := ir.ResolveExpressionType(m, &fn, ir.ExpressionHandle(i))
		if err == nil {
			fn.ExpressionTypes = append(fn.ExpressionTypes, r)
		} else {
			fn.ExpressionTypes = append(fn.ExpressionTypes, ir.TypeResolution{})
		}
	}
	m.EntryPoints = []ir.EntryPoint{{Name: "main", Stage: ir.StageCompute, Function: fn, Workgroup: wg}}
	return
}

// zzLayoutDecorationsBody compiles zzLayoutModule with the real backend and reads the binary
// back: Offset / ArrayStride / MatrixStride / ColMajor decorations carry the IR layout for every
// offset and stride value; DescriptorSet / Binding / LocalSize carry the declared numbers.
func zzLayoutDecorationsBody() {
	m, shape, off1, off2, _, stride1, stride2, group, binding, wg := zzLayoutModule()
	opts := DefaultOptions()
	out, err := NewBackend(opts).Compile(m)
	zz.Assert(err == nil, "backend rejected a valid module")
	if err != nil {
		zz.Reach("end")
		return
	}
	_, insts, ok := zzParseSPIRV(out)
	zz.Assert(ok, "emitted binary is not a well-formed instruction stream")
	// the struct type with three members
	var structID uint32
	for _, in := range insts {
		if in.op == zzOpTypeStruct && len(in.words) == 4 {
			structID = in.words[0]
		}
	}
	zz.Assert(structID != 0, "struct S not emitted")
	var gotOff [3]uint32
	var haveOff [3]bool
	haveColMajor, haveMatStride := false, false
	var matStride uint32
	for _, in := range insts {
		if in.op == zzOpMemberDecorate && len(in.words) >= 3 && in.words[0] == structID {
			mem, deco := in.words[1], in.words[2]
			if deco == zzDecoOffset && mem < 3 && len(in.words) == 4 {
				gotOff[mem], haveOff[mem] = in.words[3], true
			}
			if mem == 1 && deco == zzDecoColMajor {
				haveColMajor = true
			}
			if mem == 1 && deco == zzDecoMatrixStride && len(in.words) == 4 {
				haveMatStride, matStride = true, in.words[3]
			}
		}
	}
	zz.Assert(haveOff[0] && haveOff[1] && haveOff[2], "a struct member has no Offset decoration")
	zz.Assert(gotOff[0] == 0 && gotOff[1] == off1 && gotOff[2] == off2, "Offset decoration differs from the IR member offset")
	if shape <= 2 {
		zz.Assert(haveColMajor && haveMatStride, "matrix member (possibly inside arrays) lacks ColMajor/MatrixStride")
		zz.Assert(!haveMatStride || matStride == 16, "MatrixStride of mat3x3<f32> must be 16")
	}
	// array strides: every ArrayStride decoration carries one of the IR strides, and each
	// array type used by the member has one
	has1, has2 := false, false
	nStride := 0
	for _, in := range insts {
		if in.op == zzOpDecorate && len(in.words) == 3 && in.words[1] == zzDecoArrayStride {
			nStride++
			if in.words[2] == stride1 {
				has1 = true
			}
			if in.words[2] == stride2 {
				has2 = true
			}
			zz.Assert(in.words[2] == stride1 || in.words[2] == stride2, "ArrayStride decoration with a value that is no IR stride")
		}
	}
	switch shape {
	case 1, 3:
		zz.Assert(has1 && nStride >= 1, "ArrayStride differs from the IR stride")
	case 2:
		zz.Assert(has1 && has2 && nStride >= 2, "ArrayStride of a nested array differs from the IR stride")
	}
	// resource binding
	var varID uint32
	for _, in := range insts {
		if in.op == zzOpVariable && len(in.words) >= 3 && in.words[2] == 12 { // StorageBuffer
			varID = in.words[1]
		}
	}
	zz.Assert(varID != 0, "storage buffer variable not emitted in StorageBuffer class")
	gotSet, gotBind := false, false
	for _, in := range insts {
		if in.op == zzOpDecorate && len(in.words) == 3 && in.words[0] == varID {
			if in.words[1] == zzDecoDescSet {
				gotSet = in.words[2] == group
			}
			if in.words[1] == zzDecoBinding {
				gotBind = in.words[2] == binding
			}
		}
	}
	zz.Assert(gotSet && gotBind, "DescriptorSet/Binding decorations differ from @group/@binding")
	// execution mode LocalSize
	okLocal := false
	for _, in := range insts {
		if in.op == zzOpExecutionMode && len(in.words) == 5 && in.words[1] == 17 {
			okLocal = in.words[2] == wg[0] && in.words[3] == wg[1] && in.words[4] == wg[2]
		}
	}
	zz.Assert(okLocal, "LocalSize execution mode differs from @workgroup_size")
	zz.Reach("end")
}

// ---- reference SPIR-V evaluator (32-bit integer / boolean scalars and vectors, straight-line
// functions). Written from the SPIR-V specification; undefined behaviour (division by zero,
// signed overflow of OpSDiv/OpSRem) is reported through zz.Assert. ----

type zzVal struct {
	comps  []uint32
	isBool bool
}

type zzSPV struct {
	insts  []zzInst
	vecLen map[uint32]int   // vector type id -> count (scalars: absent)
	consts map[uint32]zzVal // constant id -> value
	boolTy map[uint32]bool  // type id is bool or vector of bool
}

func zzLoadSPV(out []byte) (*zzSPV, bool) {
	_, insts, ok := zzParseSPIRV(out)
	if !ok {
		return nil, false
	}
	s := &zzSPV{insts: insts, vecLen: map[uint32]int{}, consts: map[uint32]zzVal{}, boolTy: map[uint32]bool{}}
	for _, in := range insts {
		switch in.op {
		case 20: // OpTypeBool
			s.boolTy[in.words[0]] = true
		case 23: // OpTypeVector
			s.vecLen[in.words[0]] = int(in.words[2])
			if s.boolTy[in.words[1]] {
				s.boolTy[in.words[0]] = true
			}
		case 43: // OpConstant (32-bit)
			if len(in.words) == 3 {
				s.consts[in.words[1]] = zzVal{comps: []uint32{in.words[2]}}
			}
		case 41: // OpConstantTrue
			s.consts[in.words[1]] = zzVal{comps: []uint32{1}, isBool: true}
		case 42: // OpConstantFalse
			s.consts[in.words[1]] = zzVal{comps: []uint32{0}, isBool: true}
		case 44: // OpConstantComposite
			var v zzVal
			for _, c := range in.words[2:] {
				cv, ok := s.consts[c]
				if !ok || len(cv.comps) != 1 {
					v.comps = nil
					break
				}
				v.comps = append(v.comps, cv.comps[0])
				v.isBool = cv.isBool
			}
			if v.comps != nil {
				s.consts[in.words[1]] = v
			}
		case 46: // OpConstantNull
			n := 1
			if l, ok := s.vecLen[in.words[0]]; ok {
				n = l
			}
			s.consts[in.words[1]] = zzVal{comps: make([]uint32, n), isBool: s.boolTy[in.words[0]]}
		}
	}
	return s, true
}

func zzB(b bool) uint32 {
	if b {
		return 1
	}
	return 0
}

// zzRunFunction executes function fnID on args; returns the OpReturnValue operand.
func (s *zzSPV) zzRunFunction(fnID uint32, args []zzVal) (zzVal, bool) {
	env := map[uint32]zzVal{}
	for k, v := range s.consts {
		env[k] = v
	}
	inFn := false
	argi := 0
	for _, in := range s.insts {
		if in.op == 54 { // OpFunction
			inFn = in.words[1] == fnID
			continue
		}
		if !inFn {
			continue
		}
		get := func(id uint32) zzVal {
			v, ok := env[id]
			zz.Assert(ok, "SPIR-V id used before its definition")
			return v
		}
		bin := func(f func(a, b uint32) uint32, isBool bool) {
			a, b := get(in.words[2]), get(in.words[3])
			zz.Assert(len(a.comps) == len(b.comps), "operand shapes differ")
			r := zzVal{isBool: isBool, comps: make([]uint32, len(a.comps))}
			for i := range a.comps {
				r.comps[i] = f(a.comps[i], b.comps[i])
			}
			env[in.words[1]] = r
		}
		switch in.op {
		case 55: // OpFunctionParameter
			if argi < len(args) {
				env[in.words[1]] = args[argi]
			}
			argi++
		case 248: // OpLabel
		case 170: // OpIEqual
			bin(func(a, b uint32) uint32 { return zzB(a == b) }, true)
		case 171:
			bin(func(a, b uint32) uint32 { return zzB(a != b) }, true)
		case 166: // OpLogicalOr
			bin(func(a, b uint32) uint32 { return a | b }, true)
		case 167: // OpLogicalAnd
			bin(func(a, b uint32) uint32 { return a & b }, true)
		case 168: // OpLogicalNot
			a := get(in.words[2])
			r := zzVal{isBool: true, comps: make([]uint32, len(a.comps))}
			for i := range a.comps {
				r.comps[i] = a.comps[i] ^ 1
			}
			env[in.words[1]] = r
		case 169: // OpSelect cond, a, b
			c, a, b := get(in.words[2]), get(in.words[3]), get(in.words[4])
			r := zzVal{isBool: a.isBool, comps: make([]uint32, len(a.comps))}
			for i := range a.comps {
				ci := c.comps[0]
				if len(c.comps) == len(a.comps) {
					ci = c.comps[i]
				}
				if ci == 1 {
					r.comps[i] = a.comps[i]
				} else {
					r.comps[i] = b.comps[i]
				}
			}
			env[in.words[1]] = r
		case 128:
			bin(func(a, b uint32) uint32 { return a + b }, false)
		case 130:
			bin(func(a, b uint32) uint32 { return a - b }, false)
		case 132:
			bin(func(a, b uint32) uint32 { return a * b }, false)
		case 134: // OpUDiv
			bin(func(a, b uint32) uint32 {
				zz.Assert(b != 0, "OpUDiv by zero: undefined behaviour")
				if b == 0 {
					return 0
				}
				return a / b
			}, false)
		case 137: // OpUMod
			bin(func(a, b uint32) uint32 {
				zz.Assert(b != 0, "OpUMod by zero: undefined behaviour")
				if b == 0 {
					return 0
				}
				return a % b
			}, false)
		case 135: // OpSDiv
			bin(func(a, b uint32) uint32 {
				zz.Assert(b != 0, "OpSDiv by zero: undefined behaviour")
				zz.Assert(!(a == 0x80000000 && b == 0xFFFFFFFF), "OpSDiv overflow: undefined behaviour")
				if b == 0 || (a == 0x80000000 && b == 0xFFFFFFFF) {
					return 0
				}
				return uint32(int32(a) / int32(b))
			}, false)
		case 138: // OpSRem: sign of the result follows operand 1
			bin(func(a, b uint32) uint32 {
				zz.Assert(b != 0, "OpSRem by zero: undefined behaviour")
				zz.Assert(!(a == 0x80000000 && b == 0xFFFFFFFF), "OpSRem overflow: undefined behaviour")
				if b == 0 || (a == 0x80000000 && b == 0xFFFFFFFF) {
					return 0
				}
				return uint32(int32(a) % int32(b))
			}, false)
		case 139: // OpSMod: sign of the result follows operand 2
			bin(func(a, b uint32) uint32 {
				zz.Assert(b != 0, "OpSMod by zero: undefined behaviour")
				if b == 0 || (a == 0x80000000 && b == 0xFFFFFFFF) {
					return 0
				}
				r := int32(a) % int32(b)
				if r != 0 && (r < 0) != (int32(b) < 0) {
					r += int32(b)
				}
				return uint32(r)
			}, false)
		case 254: // OpReturnValue
			return get(in.words[0]), true
		case 253, 56: // OpReturn, OpFunctionEnd
			return zzVal{}, false
		default:
			zz.Fail("reference SPIR-V evaluator: opcode not modelled")
			return zzVal{}, false
		}
	}
	return zzVal{}, false
}
