//go:build verif

package codegen

import (
	zz "github.com/gogpu/naga/internal/zzverif"
	"github.com/gogpu/naga/ir"
)

func zzBackend() *Backend {
	opts := DefaultOptions()
	b := NewBackend(opts)
	b.builder = NewModuleBuilder(opts.Version)
	b.ib = InstructionBuilder{arena: &b.builder.arena}
	return b
}

// zzNest wraps inner into the statement shape number site.
func zzNest(site int, inner []ir.Statement) []ir.Statement {
	switch site {
	case 0:
		return inner
	case 1:
		return []ir.Statement{{Kind: ir.StmtBlock{Block: inner}}}
	case 2:
		return []ir.Statement{{Kind: ir.StmtIf{Condition: 0, Accept: inner}}}
	case 3:
		return []ir.Statement{{Kind: ir.StmtIf{Condition: 0, Reject: inner}}}
	case 4:
		return []ir.Statement{{Kind: ir.StmtSwitch{Selector: 0, Cases: []ir.SwitchCase{{Value: ir.SwitchValueI32(1), Body: inner}, {Value: ir.SwitchValueDefault{}}}}}}
	case 5:
		return []ir.Statement{{Kind: ir.StmtSwitch{Selector: 0, Cases: []ir.SwitchCase{{Value: ir.SwitchValueI32(1)}, {Value: ir.SwitchValueDefault{}, Body: inner}}}}}
	case 6:
		return []ir.Statement{{Kind: ir.StmtLoop{Body: inner}}}
	default:
		return []ir.Statement{{Kind: ir.StmtLoop{Continuing: inner}}}
	}
}

const zzNumSites = 8

// zzUsedGlobalsBody: the set of globals an entry point uses must contain every global referenced
// by a helper reached through a call at ANY statement position (two nesting levels of
// block / if-accept / if-reject / switch case / switch default / loop body / loop continuing),
// through a chain of two helpers, and nothing else; the list is sorted without duplicates.
func zzUsedGlobalsBody() {
	s1, s2 := zz.Choice("outerSite", zzNumSites), zz.Choice("innerSite", zzNumSites)
	gHelper := ir.GlobalVariableHandle(zz.Choice("helperGlobal", 4))
	gEntry := ir.GlobalVariableHandle(zz.Choice("entryGlobal", 4))
	chain := zz.Flag("viaSecondHelper")
	m := &ir.Module{GlobalVariables: make([]ir.GlobalVariable, 4)}
	leaf := ir.Function{Name: "leaf", Expressions: []ir.Expression{{Kind: ir.ExprGlobalVariable{Variable: gHelper}}}}
	mid := ir.Function{Name: "mid", Expressions: []ir.Expression{{Kind: ir.Literal{Value: ir.LiteralBool(true)}}},
		Body: zzNest(s2, []ir.Statement{{Kind: ir.StmtCall{Function: 0}}})}
	m.Functions = []ir.Function{leaf, mid}
	callee := ir.FunctionHandle(0)
	if chain {
		callee = 1
	}
	entry := ir.Function{Name: "main", Expressions: []ir.Expression{{Kind: ir.Literal{Value: ir.LiteralBool(true)}}, {Kind: ir.ExprGlobalVariable{Variable: gEntry}}},
		Body: zzNest(s1, zzNest(s2, []ir.Statement{{Kind: ir.StmtCall{Function: callee}}}))}
	b := zzBackend()
	b.module = m
	got := b.collectUsedGlobalVars(&entry)
	hasH, hasE := false, false
	for i, g := range got {
		if g == gHelper {
			hasH = true
		}
		if g == gEntry {
			hasE = true
		}
		zz.Assert(g == gHelper || g == gEntry, "a global that is not used was collected")
		if i > 0 {
			zz.Assert(got[i-1] < g, "used-globals list is not strictly increasing")
		}
	}
	zz.Assert(hasE, "global referenced directly by the entry point is missing")
	zz.Assert(hasH, "global referenced by a helper called from a nested statement position is missing from the entry point's used set (interface list / workgroup zero-init)")
	zz.Reach("end")
}

// ---- reference SPIR-V reader ----

type zzInst struct {
	op    uint32
	words []uint32 // operands (without the first word)
}

func zzParseSPIRV(out []byte) (bound uint32, insts []zzInst, ok bool) {
	if len(out)%4 != 0 || len(out) < 20 {
		return 0, nil, false
	}
	n := len(out) / 4
	w := func(i int) uint32 {
		return uint32(out[4*i]) | uint32(out[4*i+1])<<8 | uint32(out[4*i+2])<<16 | uint32(out[4*i+3])<<24
	}
	if w(0) != 0x07230203 {
		return 0, nil, false
	}
	bound = w(3)
	pos := 5
	for pos < n {
		h := w(pos)
		wc, op := int(h>>16), h&0xFFFF
		if wc < 1 || pos+wc > n {
			return bound, insts, false
		}
		in := zzInst{op: op}
		for i := 1; i < wc; i++ {
			in.words = append(in.words, w(pos+i))
		}
		insts = append(insts, in)
		pos += wc
	}
	return bound, insts, true
}

const (
	zzOpMemberDecorate = 72
	zzOpDecorate       = 71
	zzOpTypeStruct     = 30
	zzOpTypeArray      = 28
	zzOpVariable       = 59
	zzOpExecutionMode  = 16
	zzOpEntryPoint     = 15
	zzDecoBlock        = 2
	zzDecoColMajor     = 5
	zzDecoArrayStride  = 6
	zzDecoMatrixStride = 7
	zzDecoBinding      = 33
	zzDecoDescSet      = 34
	zzDecoOffset       = 35
)

// zzLayoutModule: storage buffer `g: S` with
//   struct S { a: f32 @0, m: M @off1, c: f32 @off2 }  (offsets symbolic)
// where M is mat3x3<f32>, array<mat3x3,2>, array<array<mat3x3,2>,2> or array<vec4<f32>,3>
// (strides symbolic), bound at (@group G, @binding B) with symbolic numbers, and a compute entry
// point with symbolic workgroup size that stores to g.a.
func zzLayoutModule() (m *ir.Module, shape int, off1, off2, span, stride1, stride2, group, binding uint32, wg [3]uint32) {
	shape = zz.Choice("memberShape", 4)
	off1, off2, span = zz.U32("off1"), zz.U32("off2"), zz.U32("span")
	stride1, stride2 = zz.U32("stride1"), zz.U32("stride2")
	group, binding = zz.U32("group"), zz.U32("binding")
	wg = [3]uint32{zz.U32("wgx"), zz.U32("wgy"), zz.U32("wgz")}
	zz.Assume(wg[0] >= 1 && wg[1] >= 1 && wg[2] >= 1)
	// strides of host-shareable arrays are at least the element size (never 0)
	zz.Assume(stride1 >= 16 && stride2 >= 16)
	f32 := ir.ScalarType{Kind: ir.ScalarFloat, Width: 4}
	two, three := uint32(2), uint32(3)
	m = &ir.Module{Types: []ir.Type{
		{Inner: f32}, // 0
		{Inner: ir.MatrixType{Columns: 3, Rows: 3, Scalar: f32}},                        // 1
		{Inner: ir.ArrayType{Base: 1, Size: ir.ArraySize{Constant: &two}, Stride: stride1}}, // 2
		{Inner: ir.ArrayType{Base: 2, Size: ir.ArraySize{Constant: &two}, Stride: stride2}}, // 3
		{Inner: ir.VectorType{Size: 4, Scalar: f32}},                                     // 4
		{Inner: ir.ArrayType{Base: 4, Size: ir.ArraySize{Constant: &three}, Stride: stride1}}, // 5
	}}
	memberType := []ir.TypeHandle{1, 2, 3, 5}[shape]
	m.Types = append(m.Types, ir.Type{Name: "S", Inner: ir.StructType{Span: span, Members: []ir.StructMember{
		{Name: "a", Type: 0, Offset: 0}, {Name: "m", Type: memberType, Offset: off1}, {Name: "c", Type: 0, Offset: off2}}}}) // 6
	m.GlobalVariables = []ir.GlobalVariable{{Name: "g", Space: ir.SpaceStorage, Type: 6, Access: ir.StorageReadWrite,
		Binding: &ir.ResourceBinding{Group: group, Binding: binding}}}
	fn := ir.Function{Name: "main", Expressions: []ir.Expression{
		{Kind: ir.ExprGlobalVariable{Variable: 0}},
		{Kind: ir.ExprAccessIndex{Base: 0, Index: 0}},
		{Kind: ir.Literal{Value: ir.LiteralF32(1)}},
	}}
	fn.Body = ir.Block{{Kind: ir.StmtEmit{Range: ir.Range{Start: 1, End: 2}}}, {Kind: ir.StmtStore{Pointer: 1, Value: 2}}, {Kind: ir.StmtReturn{}}}
	for i := range fn.Expressions {
		r, err := ir.ResolveExpressionType(m, &fn, ir.ExpressionHandle(i))
		if err == nil {
			fn.ExpressionTypes = append(fn.ExpressionTypes, r)
		} else {
			fn.ExpressionTypes = append(fn.ExpressionTypes, ir.TypeResolution{})
		}
	}
	m.EntryPoints = []ir.EntryPoint{{Name: "main", Stage: ir.StageCompute, Function: fn, Workgroup: wg}}
	return
}

// zzLayoutDecorationsBody compiles zzLayoutModule with the real backend and reads the binary
// back: Offset / ArrayStride / MatrixStride / ColMajor decorations carry the IR layout for every
// offset and stride value; DescriptorSet / Binding / LocalSize carry the declared numbers.
func zzLayoutDecorationsBody() {
	m, shape, off1, off2, _, stride1, stride2, group, binding, wg := zzLayoutModule()
	opts := DefaultOptions()
	out, err := NewBackend(opts).Compile(m)
	zz.Assert(err == nil, "backend rejected a valid module")
	if err != nil {
		zz.Reach("end")
		return
	}
	_, insts, ok := zzParseSPIRV(out)
	zz.Assert(ok, "emitted binary is not a well-formed instruction stream")
	// the struct type with three members
	var structID uint32
	for _, in := range insts {
		if in.op == zzOpTypeStruct && len(in.words) == 4 {
			structID = in.words[0]
		}
	}
	zz.Assert(structID != 0, "struct S not emitted")
	var gotOff [3]uint32
	var haveOff [3]bool
	haveColMajor, haveMatStride := false, false
	var matStride uint32
	for _, in := range insts {
		if in.op == zzOpMemberDecorate && len(in.words) >= 3 && in.words[0] == structID {
			mem, deco := in.words[1], in.words[2]
			if deco == zzDecoOffset && mem < 3 && len(in.words) == 4 {
				gotOff[mem], haveOff[mem] = in.words[3], true
			}
			if mem == 1 && deco == zzDecoColMajor {
				haveColMajor = true
			}
			if mem == 1 && deco == zzDecoMatrixStride && len(in.words) == 4 {
				haveMatStride, matStride = true, in.words[3]
			}
		}
	}
	zz.Assert(haveOff[0] && haveOff[1] && haveOff[2], "a struct member has no Offset decoration")
	zz.Assert(gotOff[0] == 0 && gotOff[1] == off1 && gotOff[2] == off2, "Offset decoration differs from the IR member offset")
	if shape <= 2 {
		zz.Assert(haveColMajor && haveMatStride, "matrix member (possibly inside arrays) lacks ColMajor/MatrixStride")
		zz.Assert(!haveMatStride || matStride == 16, "MatrixStride of mat3x3<f32> must be 16")
	}
	// array strides: every ArrayStride decoration carries one of the IR strides, and each
	// array type used by the member has one
	has1, has2 := false, false
	nStride := 0
	for _, in := range insts {
		if in.op == zzOpDecorate && len(in.words) == 3 && in.words[1] == zzDecoArrayStride {
			nStride++
			if in.words[2] == stride1 {
				has1 = true
			}
			if in.words[2] == stride2 {
				has2 = true
			}
			zz.Assert(in.words[2] == stride1 || in.words[2] == stride2, "ArrayStride decoration with a value that is no IR stride")
		}
	}
	switch shape {
	case 1, 3:
		zz.Assert(has1 && nStride >= 1, "ArrayStride differs from the IR stride")
	case 2:
		zz.Assert(has1 && has2 && nStride >= 2, "ArrayStride of a nested array differs from the IR stride")
	}
	// resource binding
	var varID uint32
	for _, in := range insts {
		if in.op == zzOpVariable && len(in.words) >= 3 && in.words[2] == 12 { // StorageBuffer
			varID = in.words[1]
		}
	}
	zz.Assert(varID != 0, "storage buffer variable not emitted in StorageBuffer class")
	gotSet, gotBind := false, false
	for _, in := range insts {
		if in.op == zzOpDecorate && len(in.words) == 3 && in.words[0] == varID {
			if in.words[1] == zzDecoDescSet {
				gotSet = in.words[2] == group
			}
			if in.words[1] == zzDecoBinding {
				gotBind = in.words[2] == binding
			}
		}
	}
	zz.Assert(gotSet && gotBind, "DescriptorSet/Binding decorations differ from @group/@binding")
	// execution mode LocalSize
	okLocal := false
	for _, in := range insts {
		if in.op == zzOpExecutionMode && len(in.words) == 5 && in.words[1] == 17 {
			okLocal = in.words[2] == wg[0] && in.words[3] == wg[1] && in.words[4] == wg[2]
		}
	}
	zz.Assert(okLocal, "LocalSize execution mode differs from @workgroup_size")
	zz.Reach("end")
}
