//go:build verif

package codegen

import (
	zz "github.com/gogpu/naga/internal/zzverif"
	"github.com/gogpu/naga/ir"
)

// zzWGSLDivMod: WGSL run-time semantics of integer / and % (13.? "Integer division and
// remainder"): x/0 = x, MIN/-1 = MIN, x%0 = 0, MIN%-1 = 0, otherwise truncated division.
func zzWGSLDivMod(mod, signed bool, a, b uint32) uint32 {
	if signed {
		x, y := int32(a), int32(b)
		if y == 0 || (x == -2147483648 && y == -1) {
			if mod {
				return 0
			}
			return a
		}
		if mod {
			return uint32(x % y)
		}
		return uint32(x / y)
	}
	if b == 0 {
		if mod {
			return 0
		}
		return a
	}
	if mod {
		return a % b
	}
	return a / b
}

// U1: the div/mod wrapper the backend emits, executed by the reference SPIR-V evaluator on
// EVERY operand pair: no undefined OpSDiv/OpSRem/OpUDiv/OpUMod is reached and the result is
// the WGSL-defined value. {/, %} x {i32, u32} x {scalar, vec2..vec4}.
func ZZ_C15_spirv_wrapped_divmod() {
	mod := zz.Flag("mod")
	signed := zz.Flag("signed")
	n := zz.Choice("components", 4) + 1
	b := zzBackend()
	b.module = &ir.Module{}
	kind := ir.ScalarUint
	if signed {
		kind = ir.ScalarSint
	}
	scalar := ir.ScalarType{Kind: kind, Width: 4}
	tyID, err := b.emitScalarType(scalar)
	zz.Assert(err == nil, "scalar type")
	var inner ir.TypeInner = scalar
	if n > 1 {
		tyID = b.emitVectorType(tyID, uint32(n))
		inner = ir.VectorType{Size: ir.VectorSize(n), Scalar: scalar}
	}
	op := ir.BinaryDivide
	if mod {
		op = ir.BinaryModulo
	}
	zz.Assert(b.emitWrappedBinaryOp(op, inner, tyID, tyID) == nil, "wrapper emission failed")
	fnID := b.wrappedFuncIDs[wrappedBinaryOp{op: op, leftTypeID: tyID, rightTypeID: tyID}]
	out := b.builder.Build()
	spv, ok := zzLoadSPV(out)
	zz.Assert(ok, "emitted module is not a well-formed instruction stream")
	if !ok {
		zz.Reach("end")
		return
	}
	var lhs, rhs zzVal
	for i := 0; i < n; i++ {
		lhs.comps = append(lhs.comps, zz.U32("lhs"+string(rune('0'+i))))
		rhs.comps = append(rhs.comps, zz.U32("rhs"+string(rune('0'+i))))
	}
	res, ok := spv.zzRunFunction(fnID, []zzVal{lhs, rhs})
	zz.Assert(ok && len(res.comps) == n, "wrapper does not return a value of the operand shape")
	if ok && len(res.comps) == n {
		for i := 0; i < n; i++ {
			zz.Assert(res.comps[i] == zzWGSLDivMod(mod, signed, lhs.comps[i], rhs.comps[i]), "wrapped integer division/remainder differs from the WGSL-defined result")
		}
	}
	zz.Reach("end")
}
