//go:build verif

package ir

import (
	zz "github.com/gogpu/naga/internal/zzverif"
)

// Entry-point interface rules of the validator against a reference predicate (WGSL 13.x):
// a vertex entry point must return @builtin(position) - directly or as a struct member, with
// or without @invariant, next to any other members; a compute entry point needs a non-zero
// workgroup size; fragment entry points have no such requirement. Every well-formed shape
// must be ACCEPTED (C08) and the two diagnosed violations rejected.
func ZZ_C08_validator_entry_point_interface() {
	vec4 := Type{Inner: VectorType{Size: 4, Scalar: ScalarType{Kind: ScalarFloat, Width: 4}}}
	f32 := Type{Inner: ScalarType{Kind: ScalarFloat, Width: 4}}
	mod := &Module{Types: []Type{vec4, f32}}
	stage := ShaderStage(zz.Choice("stage", 3))
	shape := zz.Choice("result-shape", 4) // none, direct builtin, struct with position, struct without
	invariant := zz.Bool("invariant")
	posFirst := zz.Flag("position-first")
	var pos Binding = BuiltinBinding{Builtin: BuiltinPosition, Invariant: invariant}
	var loc Binding = LocationBinding{Location: zz.U32("location")}
	fn := Function{Name: "main"}
	hasPosition := false
	switch shape {
	case 1:
		fn.Result = &FunctionResult{Type: 0, Binding: &pos}
		hasPosition = true
	case 2:
		members := []StructMember{{Name: "p", Type: 0, Binding: &pos}, {Name: "c", Type: 1, Binding: &loc, Offset: 16}}
		if !posFirst {
			members = []StructMember{{Name: "c", Type: 1, Binding: &loc}, {Name: "p", Type: 0, Binding: &pos, Offset: 16}}
		}
		mod.Types = append(mod.Types, Type{Name: "Out", Inner: StructType{Members: members, Span: 32}})
		fn.Result = &FunctionResult{Type: 2}
		hasPosition = true
	case 3:
		mod.Types = append(mod.Types, Type{Name: "Out", Inner: StructType{Members: []StructMember{{Name: "c", Type: 1, Binding: &loc}}, Span: 4}})
		fn.Result = &FunctionResult{Type: 2}
	}
	wg := [3]uint32{zz.U32("wx"), zz.U32("wy"), zz.U32("wz")}
	ep := EntryPoint{Name: "main", Stage: stage, Function: fn}
	if stage == StageCompute {
		ep.Workgroup = wg
	}
	mod.EntryPoints = []EntryPoint{ep}
	errs, err := Validate(mod)
	accepted := err == nil && len(errs) == 0
	valid := true
	switch stage {
	case StageVertex:
		valid = hasPosition
	case StageCompute:
		valid = wg[0] != 0 && wg[1] != 0 && wg[2] != 0 && shape == 0
	}
	if stage == StageCompute && shape != 0 {
		zz.Reach("end") // compute entry points return nothing: not a shape of interest
		return
	}
	if valid {
		zz.Cell("valid-entry-point-rejected")
		zz.Assert(accepted, "a valid entry point interface is rejected by the validator")
	} else {
		zz.Cell("invalid-entry-point-accepted")
		zz.Assert(!accepted, "vertex entry point without @builtin(position) / compute entry point with a zero workgroup size is accepted")
	}
	zz.Reach("end")
}
