//go:build verif

package ir

import (
	zz "github.com/gogpu/naga/internal/zzverif"
)

// Wrapper kinds for building a nest around one jump statement.
const (
	zzWBlock = iota
	zzWIfAccept
	zzWSwitchCase
	zzWLoopBody
	zzWLoopContinuing
	zzNumWrappers
)

func zzWrap(kind int, inner Block) Block {
	switch kind {
	case zzWBlock:
		return Block{{Kind: StmtBlock{Block: inner}}}
	case zzWIfAccept:
		return Block{{Kind: StmtIf{Condition: 0, Accept: inner}}}
	case zzWSwitchCase:
		return Block{{Kind: StmtSwitch{Selector: 1, Cases: []SwitchCase{{Value: SwitchValueI32(1), Body: inner}, {Value: SwitchValueDefault{}}}}}}
	case zzWLoopBody:
		return Block{{Kind: StmtLoop{Body: inner}}}
	default:
		return Block{{Kind: StmtLoop{Continuing: inner}}}
	}
}

// zzJumpValid is the WGSL rule (9.4 control flow) for a break / continue / return placed
// inside the nest `wrappers` (outermost first):
//
//	break    - the innermost enclosing switch or loop must exist; if it is a loop, the break
//	           must not sit in that loop's continuing block;
//	continue - the innermost enclosing loop must exist and the continue must not sit in its
//	           continuing block;
//	return   - must not be inside any continuing block.
func zzJumpValid(jump int, wrappers []int) bool {
	switch jump {
	case 0: // break
		for i := len(wrappers) - 1; i >= 0; i-- {
			switch wrappers[i] {
			case zzWSwitchCase, zzWLoopBody:
				return true
			case zzWLoopContinuing:
				return false
			}
		}
		return false
	case 1: // continue
		for i := len(wrappers) - 1; i >= 0; i-- {
			switch wrappers[i] {
			case zzWLoopBody:
				return true
			case zzWLoopContinuing:
				return false
			}
		}
		return false
	default: // return
		for _, w := range wrappers {
			if w == zzWLoopContinuing {
				return false
			}
		}
		return true
	}
}

// The validator accepts a helper function iff its break / continue / return placement is valid
// WGSL, for every nest of up to three of {block, if, switch case, loop body, loop continuing}.
func ZZ_C08_validator_jump_placement() {
	jump := zz.Choice("jump", 3)
	depth := zz.Choice("depth", 4)
	var wrappers []int
	for i := 0; i < depth; i++ {
		wrappers = append(wrappers, zz.Choice("w"+string(rune('0'+i)), zzNumWrappers))
	}
	var leaf Statement
	switch jump {
	case 0:
		leaf = Statement{Kind: StmtBreak{}}
	case 1:
		leaf = Statement{Kind: StmtContinue{}}
	default:
		leaf = Statement{Kind: StmtReturn{}}
	}
	body := Block{leaf}
	for i := len(wrappers) - 1; i >= 0; i-- {
		body = zzWrap(wrappers[i], body)
	}
	m := &Module{Types: []Type{{Inner: ScalarType{Kind: ScalarBool, Width: 1}}, {Inner: ScalarType{Kind: ScalarSint, Width: 4}}}}
	m.Functions = []Function{{Name: "helper",
		Expressions: []Expression{{Kind: Literal{Value: LiteralBool(true)}}, {Kind: Literal{Value: LiteralI32(1)}}},
		Body:        body}}
	errs, err := Validate(m)
	zz.Assert(err == nil, "validator failed")
	valid := zzJumpValid(jump, wrappers)
	zz.Cell("accepts-invalid")
	if !valid {
		zz.Assert(len(errs) > 0, "validator accepts a jump statement that WGSL forbids at this position")
	}
	if valid {
		if jump == 0 {
			zz.Cell("break-rejected")
		} else {
			zz.Cell("jump-rejected")
		}
		zz.Assert(len(errs) == 0, "validator rejects a valid program (jump statement placement)")
	}
	zz.Reach("end")
}

// Binding uniqueness: two resources may share (@group, @binding) unless one entry point uses
// both (WGSL 12.3.2: a collision is a pipeline-creation error per entry point). All group /
// binding numbers; each of two entry points uses any subset of the two resources.
func ZZ_C08_validator_binding_collision() {
	g0, b0, g1, b1 := zz.U32("group0"), zz.U32("binding0"), zz.U32("group1"), zz.U32("binding1")
	use := [2][2]bool{{zz.Flag("ep0usesA"), zz.Flag("ep0usesB")}, {zz.Flag("ep1usesA"), zz.Flag("ep1usesB")}}
	m := &Module{Types: []Type{{Inner: ScalarType{Kind: ScalarUint, Width: 4}}}}
	m.GlobalVariables = []GlobalVariable{
		{Name: "a", Space: SpaceStorage, Type: 0, Binding: &ResourceBinding{Group: g0, Binding: b0}},
		{Name: "b", Space: SpaceStorage, Type: 0, Binding: &ResourceBinding{Group: g1, Binding: b1}},
	}
	for e := 0; e < 2; e++ {
		fn := Function{Name: "main" + string(rune('0'+e))}
		for g := 0; g < 2; g++ {
			if use[e][g] {
				fn.Expressions = append(fn.Expressions, Expression{Kind: ExprGlobalVariable{Variable: GlobalVariableHandle(g)}})
			}
		}
		for i := range fn.Expressions {
			r, _ := ResolveExpressionType(m, &fn, ExpressionHandle(i))
			fn.ExpressionTypes = append(fn.ExpressionTypes, r)
		}
		m.EntryPoints = append(m.EntryPoints, EntryPoint{Name: fn.Name, Stage: StageCompute, Function: fn, Workgroup: [3]uint32{1, 1, 1}})
	}
	errs, err := Validate(m)
	zz.Assert(err == nil, "validator failed")
	same := g0 == g1 && b0 == b1
	clash := same && ((use[0][0] && use[0][1]) || (use[1][0] && use[1][1]))
	if clash {
		zz.Cell("clash-accepted")
		zz.Assert(len(errs) > 0, "two resources with the same binding used by one entry point are accepted")
	} else {
		zz.Cell("shared-binding-across-entry-points")
		zz.Assert(len(errs) == 0, "validator rejects a valid module (resources with equal bindings that no entry point uses together)")
	}
	zz.Reach("end")
}
