//go:build verif

package ir

import (
	zz "github.com/gogpu/naga/internal/zzverif"
)

// C14, every binary operator at a use site: a function computes `a OP k` (or `k OP a`) with
// `a` an override of type i32 / u32 whose value is supplied, `k` a literal. After
// ProcessOverrides the expression the statement refers to must be EITHER still the operator
// applied to the substituted constant and the literal (left to the back end) OR a literal of
// the RESULT type holding the WGSL value of the expression - never a substituted wrong value
// (the evaluator goes through float64 and knows only some operators).
// Bounds: supplied value and literal 16 bits wide (exact in binary64, no overflow).

const zzNumIRBinaryOps = 18 // BinaryAdd .. BinaryShiftRight

func zzIntBinaryRef(op BinaryOperator, signed bool, x, y uint32) (bits uint32, isBool bool, b bool, defined bool) {
	sx, sy := int32(x), int32(y)
	switch op {
	case BinaryAdd:
		return x + y, false, false, true
	case BinarySubtract:
		if !signed && x < y {
			return 0, false, false, false
		}
		return x - y, false, false, true
	case BinaryMultiply:
		return x * y, false, false, true
	case BinaryDivide:
		if y == 0 {
			return 0, false, false, false
		}
		if signed {
			return uint32(sx / sy), false, false, true
		}
		return x / y, false, false, true
	case BinaryModulo:
		if y == 0 {
			return 0, false, false, false
		}
		if signed {
			return uint32(sx % sy), false, false, true
		}
		return x % y, false, false, true
	case BinaryEqual:
		return 0, true, x == y, true
	case BinaryNotEqual:
		return 0, true, x != y, true
	case BinaryLess:
		if signed {
			return 0, true, sx < sy, true
		}
		return 0, true, x < y, true
	case BinaryLessEqual:
		if signed {
			return 0, true, sx <= sy, true
		}
		return 0, true, x <= y, true
	case BinaryGreater:
		if signed {
			return 0, true, sx > sy, true
		}
		return 0, true, x > y, true
	case BinaryGreaterEqual:
		if signed {
			return 0, true, sx >= sy, true
		}
		return 0, true, x >= y, true
	case BinaryAnd:
		return x & y, false, false, true
	case BinaryExclusiveOr:
		return x ^ y, false, false, true
	case BinaryInclusiveOr:
		return x | y, false, false, true
	case BinaryShiftLeft:
		if y >= 32 {
			return 0, false, false, false
		}
		return x << y, false, false, true
	case BinaryShiftRight:
		if y >= 32 {
			return 0, false, false, false
		}
		if signed {
			return uint32(sx >> y), false, false, true
		}
		return x >> y, false, false, true
	}
	return 0, false, false, false // logical && || are not integer operators
}

func ZZ_C14_function_operators() {
	signed := zz.Flag("signed")
	op := BinaryOperator(zz.Choice("op", zzNumIRBinaryOps))
	swap := zz.Flag("swap")
	var a, k uint32
	var av float64
	edge := op == BinaryDivide && zz.Choice("division-operands", 2) == 1
	if edge {
		// quotients a hair below an integer: a = q*k - 1 for large divisors k (concrete table;
		// rounding instead of truncating the float quotient shows only here)
		kk := []uint32{2000000, 3000000, 1000001, 16777216, 715827883}[zz.Choice("edge-divisor", 5)]
		q := uint32(zz.Choice("edge-quotient", 3) + 1)
		zz.Assume(uint64(q)*uint64(kk) <= 0x7FFFFFFF)
		a, k, av = q*kk-1, kk, float64(q*kk-1)
		if signed && zz.Flag("edge-negative") {
			a = uint32(-int32(a))
			av = float64(int32(a))
		}
	} else if op == BinaryModulo {
		// bound: 8-bit operands (the remainder goes through a float division, truncation,
		// multiplication and subtraction; the solvers decide the residual float terms only
		// at this width)
		if signed {
			ai, ki := int32(zz.I8("a8")), int32(zz.I8("k8"))
			a, k, av = uint32(ai), uint32(ki), float64(ai)
		} else {
			au, ku := uint32(zz.U8("a8")), uint32(zz.U8("k8"))
			a, k, av = au, ku, float64(au)
		}
	} else if signed {
		ai, ki := int32(zz.I16("a")), int32(zz.I16("k"))
		a, k, av = uint32(ai), uint32(ki), float64(ai)
		if op == BinaryShiftLeft || op == BinaryShiftRight {
			zz.Assume(ki >= 0) // the shift amount is a u32 in WGSL
		}
	} else {
		au, ku := uint32(zz.U16("a")), uint32(zz.U16("k"))
		a, k, av = au, ku, float64(au)
	}
	ty := TypeHandle(2)
	if signed {
		ty = 1
	}
	lit := func(bits uint32) LiteralValue {
		if signed {
			return LiteralI32(int32(bits))
		}
		return LiteralU32(bits)
	}
	kLit := lit(k)
	if (op == BinaryShiftLeft || op == BinaryShiftRight) && !swap {
		kLit = LiteralU32(k)
	}
	x, y := a, k
	if swap {
		x, y = k, a
		if op == BinaryShiftLeft || op == BinaryShiftRight {
			zz.Assume(!signed) // `k << a` needs an unsigned a
		}
	}
	want, isBool, wantB, defined := zzIntBinaryRef(op, signed, x, y)
	zz.Assume(defined)
	if op == BinaryMultiply || op == BinaryAdd || op == BinarySubtract || op == BinaryShiftLeft {
		// no overflow of the 32-bit type (an override expression that overflows is an error)
		if signed {
			r := int64(int32(x))
			switch op {
			case BinaryMultiply:
				r *= int64(int32(y))
			case BinaryAdd:
				r += int64(int32(y))
			case BinarySubtract:
				r -= int64(int32(y))
			default:
				r <<= y
			}
			zz.Assume(r == int64(int32(r)))
		} else {
			r := uint64(x)
			switch op {
			case BinaryMultiply:
				r *= uint64(y)
			case BinaryAdd:
				r += uint64(y)
			case BinarySubtract:
			default:
				r <<= y
			}
			zz.Assume(r <= 0xFFFFFFFF)
		}
	}
	m := &Module{Types: zzTypes()}
	m.GlobalExpressions = []Expression{{Kind: Literal{Value: lit(3)}}}
	m.Overrides = []Override{{Name: "a", Ty: ty, ID: zzU16p(0), Init: zzEHp(0)}}
	l, r := ExpressionHandle(0), ExpressionHandle(1)
	if swap {
		l, r = r, l
	}
	fn := Function{
		Name: "use",
		Expressions: []Expression{
			{Kind: ExprOverride{Override: 0}},             // 0
			{Kind: Literal{Value: kLit}},                  // 1
			{Kind: ExprBinary{Op: op, Left: l, Right: r}}, // 2
			{Kind: ExprLocalVariable{Variable: 0}},        // 3
		},
		LocalVars: []LocalVariable{{Name: "acc", Type: ty}},
		Body: Block{
			{Kind: StmtEmit{Range: Range{Start: 2, End: 3}}},
			{Kind: StmtStore{Pointer: 3, Value: 2}},
		},
	}
	m.EntryPoints = []EntryPoint{{Name: "main", Stage: StageCompute, Function: fn, Workgroup: [3]uint32{1, 1, 1}}}
	err := ProcessOverrides(m, PipelineConstants{"0": av})
	zz.Assert(err == nil, "unexpected error")
	if err != nil {
		return
	}
	cf := &m.EntryPoints[0].Function
	var use ExpressionHandle
	found := false
	for _, s := range cf.Body {
		if st, ok := s.Kind.(StmtStore); ok {
			use, found = st.Value, true
		}
	}
	zz.Assert(found && int(use) < len(cf.Expressions), "use-site handle out of range after rebuild")
	if !found || int(use) >= len(cf.Expressions) {
		return
	}
	// value of an operand after the rebuild: a literal, or the constant the override became
	operand := func(h ExpressionHandle) (LiteralValue, bool) {
		if int(h) >= len(cf.Expressions) {
			return nil, false
		}
		switch e := cf.Expressions[h].Kind.(type) {
		case Literal:
			return e.Value, true
		case ExprConstant:
			if int(e.Constant) < len(m.Constants) && int(m.Constants[e.Constant].Init) < len(m.GlobalExpressions) {
				if lv, ok := m.GlobalExpressions[m.Constants[e.Constant].Init].Kind.(Literal); ok {
					return lv.Value, true
				}
			}
		}
		return nil, false
	}
	switch e := cf.Expressions[use].Kind.(type) {
	case Literal:
		if isBool {
			zz.Assert(zz.Same(e.Value, LiteralValue(LiteralBool(wantB))), "comparison with an override was replaced by a literal that is not the bool result")
		} else {
			zz.Assert(zz.Same(e.Value, lit(want)), "operator applied to an override was replaced by a literal other than the WGSL value")
		}
	case ExprBinary:
		zz.Assert(e.Op == op, "operator changed by override substitution")
		lv, lok := operand(e.Left)
		rv, rok := operand(e.Right)
		zz.Assert(lok && rok, "operands of the kept operator are neither literals nor resolved constants")
		if lok && rok {
			wl, wr := lit(a), kLit
			if swap {
				wl, wr = kLit, lit(a)
			}
			zz.Assert(zz.Same(lv, wl) && zz.Same(rv, wr), "operands of the kept operator differ from the supplied override value / the literal")
		}
	default:
		zz.Fail("use site is neither a literal nor the operator after override substitution")
	}
	zz.Reach("end")
}

// A derived override whose initialiser chains an integer division with a multiplication:
// b = a / k1 * k2. Integer division truncates at every step ((7 / 2) * 2 is 6, not 7).
// Bounds: a 16 bits, k1 8 bits (k1 != 0), k2 in {2, 3, 7, -2, 100}, i32 or u32.
func ZZ_C14_derived_division_chain() {
	signed := zz.Flag("signed")
	var a, k1, k2 uint32
	var av float64
	// the multiplier is one of a few constants (a symbolic multiplier after a symbolic
	// division at two different widths is beyond the solvers)
	mult := []int32{2, 3, 7, -2, 100}[zz.Choice("k2", 5)]
	if signed {
		ai, k1i := int32(zz.I16("a")), int32(zz.I8("k1"))
		a, k1, k2, av = uint32(ai), uint32(k1i), uint32(mult), float64(ai)
	} else {
		zz.Assume(mult > 0)
		au, k1u := uint32(zz.U16("a")), uint32(zz.U8("k1"))
		a, k1, k2, av = au, k1u, uint32(mult), float64(au)
	}
	zz.Assume(k1 != 0)
	ty := TypeHandle(2)
	if signed {
		ty = 1
	}
	lit := func(bits uint32) LiteralValue {
		if signed {
			return LiteralI32(int32(bits))
		}
		return LiteralU32(bits)
	}
	m := &Module{Types: zzTypes()}
	m.GlobalExpressions = []Expression{
		{Kind: Literal{Value: lit(3)}},                            // 0 default of a
		{Kind: ExprOverride{Override: 0}},                         // 1
		{Kind: Literal{Value: lit(k1)}},                           // 2
		{Kind: ExprBinary{Op: BinaryDivide, Left: 1, Right: 2}},   // 3
		{Kind: Literal{Value: lit(k2)}},                           // 4
		{Kind: ExprBinary{Op: BinaryMultiply, Left: 3, Right: 4}}, // 5
	}
	m.Overrides = []Override{
		{Name: "a", Ty: ty, ID: zzU16p(1), Init: zzEHp(0)},
		{Name: "b", Ty: ty, Init: zzEHp(5)},
	}
	var want uint32
	if signed {
		want = uint32((int32(a) / int32(k1)) * int32(k2))
	} else {
		want = (a / k1) * k2
	}
	err := ProcessOverrides(m, PipelineConstants{"1": av})
	zz.Assert(err == nil, "unexpected error")
	if err == nil {
		got, ok := zzConstLiteral(m, "b")
		zz.Assert(ok, "derived override did not resolve to a literal")
		zz.Assert(zz.Same(got, lit(want)), "derived override differs from WGSL evaluation of (a / k1) * k2")
	}
	zz.Reach("end")
}
