//go:build verif

package ir

import (
	zz "github.com/gogpu/naga/internal/zzverif"
)

// Remap completeness: for every statement kind and every renumbering of the expression arena,
// the inliner's statement remapper maps exactly the expression handles (also those held
// through pointers, in nested blocks and in atomic functions) and changes nothing else.
func ZZ_C13_inline_remap_statements() {
	zz.CheckImplementors("ir.StatementKind", zzStmtKinds())
	k := zz.Choice("kind", ZZNumHavocStmts)
	table, raw := ZZHandleTable(4)
	st := Statement{Kind: ZZHavocStmt(k)}
	want := zz.MapHandles(st, "ir.ExpressionHandle", raw)
	got := remapInlineStatementHandles(st, table, 0)
	zz.Assert(zz.SameState(got, want), "inlining remapper: a handle was not mapped (or something else changed)")
	zz.Reach("end")
}

// Same for the in-place remapper used by override processing.
func ZZ_C13_override_remap_statements() {
	k := zz.Choice("kind", ZZNumHavocStmts)
	table, raw := ZZHandleTable(4)
	st := Statement{Kind: ZZHavocStmt(k)}
	want := zz.MapHandles(st, "ir.ExpressionHandle", raw)
	blk := Block{st}
	remapBlockHandles(blk, table)
	zz.Assert(zz.SameState(blk[0], want), "override remapper: a handle was not mapped (or something else changed)")
	zz.Reach("end")
}

// Same for the compaction remapper.
func ZZ_C13_compact_remap_statements() {
	k := zz.Choice("kind", ZZNumHavocStmts)
	table, raw := ZZHandleTable(4)
	st := Statement{Kind: ZZHavocStmt(k)}
	want := zz.MapHandles(st, "ir.ExpressionHandle", raw)
	blk := []Statement{st}
	remapStmtExprHandles(blk, table)
	zz.Assert(zz.SameState(blk[0], want), "compaction remapper: a handle was not mapped (or something else changed)")
	zz.Reach("end")
}

// Same for the statement remapper that CompactExpressions itself uses (it also rewrites emit
// ranges; with every expression marked used nothing is dropped, so every other statement kind
// must come out with exactly its handles mapped).
func ZZ_C13_compact_expressions_remap_statements() {
	k := zz.Choice("kind", ZZNumHavocStmts)
	table, raw := ZZHandleTable(4)
	st := Statement{Kind: ZZHavocStmt(k)}
	want := zz.MapHandles(st, "ir.ExpressionHandle", raw)
	used := make([]bool, len(table))
	for i := range used {
		used[i] = true
	}
	out := remapStmtExprHandlesCompact([]Statement{st}, table, used)
	zz.Assert(len(out) == 1, "compaction dropped or duplicated a statement although every expression is used")
	if len(out) == 1 {
		zz.Assert(zz.SameState(out[0], want), "CompactExpressions remapper: a handle was not mapped (or something else changed)")
	}
	zz.Reach("end")
}
