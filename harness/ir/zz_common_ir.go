//go:build verif

package ir

import (
	zz "github.com/gogpu/naga/internal/zzverif"
)

// Types of the hand-built module: 0 bool, 1 i32, 2 u32, 3 f32.
func zzTypes() []Type {
	return []Type{
		{Inner: ScalarType{Kind: ScalarBool, Width: 1}},
		{Inner: ScalarType{Kind: ScalarSint, Width: 4}},
		{Inner: ScalarType{Kind: ScalarUint, Width: 4}},
		{Inner: ScalarType{Kind: ScalarFloat, Width: 4}},
	}
}

func zzU16p(v uint16) *uint16                    { return &v }
func zzEHp(v ExpressionHandle) *ExpressionHandle { return &v }

// zzConstLiteral returns the literal that a resolved override (as Constant -> GlobalExpression) holds.
func zzConstLiteral(m *Module, name string) (LiteralValue, bool) {
	for i := range m.Constants {
		if m.Constants[i].Name == name {
			h := m.Constants[i].Init
			if int(h) >= len(m.GlobalExpressions) {
				return nil, false
			}
			lit, ok := m.GlobalExpressions[h].Kind.(Literal)
			return lit.Value, ok
		}
	}
	return nil, false
}

// U3: use site in a function and a private global initialiser derived from the override;
// resolution on a clone must not write into the caller's module (write barrier in the
// engine, deep comparison natively).
// shape 0: helper returns the override-derived value (the statement holds the handle through a
//
//	pointer: known finding "clone-shares-stmt-pointers");
//
// shape 1: helper stores the value into a local (no pointer-held handles in statements).
func zzIsolationBody() {
	vi := int32(zz.I16("v")) // bound: 16-bit supplied value, 8-bit literal (exact products)
	v := float64(vi)
	k := int32(zz.I8("k"))
	shape := zz.Choice("shape", 2)
	entry := zz.Flag("inEntryPoint")
	m := &Module{Types: zzTypes()}
	m.GlobalExpressions = []Expression{
		{Kind: Literal{Value: LiteralI32(3)}},                // 0 default of a
		{Kind: ExprOverride{Override: 0}},                    // 1
		{Kind: Literal{Value: LiteralI32(k)}},                // 2
		{Kind: ExprBinary{Op: BinaryAdd, Left: 1, Right: 2}}, // 3  private var init = a + k
	}
	m.Overrides = []Override{{Name: "a", Ty: 1, ID: zzU16p(0), Init: zzEHp(0)}}
	m.GlobalVariables = []GlobalVariable{{Name: "g", Space: SpacePrivate, Type: 1, InitExpr: zzEHp(3)}}
	fn := Function{
		Name: "use",
		Expressions: []Expression{
			{Kind: ExprOverride{Override: 0}},                         // 0
			{Kind: Literal{Value: LiteralI32(k)}},                     // 1
			{Kind: ExprBinary{Op: BinaryMultiply, Left: 0, Right: 1}}, // 2
			{Kind: ExprLocalVariable{Variable: 0}},                    // 3
		},
		LocalVars:        []LocalVariable{{Name: "acc", Type: 1, Init: zzEHp(1)}},
		NamedExpressions: map[ExpressionHandle]string{2: "prod"},
	}
	if shape == 0 {
		fn.Result = &FunctionResult{Type: 1}
		fn.Body = Block{
			{Kind: StmtEmit{Range: Range{Start: 2, End: 3}}},
			{Kind: StmtReturn{Value: zzEHp(2)}},
		}
		zz.Cell("clone-shares-stmt-pointers")
	} else {
		fn.Body = Block{
			{Kind: StmtEmit{Range: Range{Start: 2, End: 3}}},
			{Kind: StmtStore{Pointer: 3, Value: 2}},
		}
		zz.Cell("store-only")
	}
	if entry {
		m.EntryPoints = []EntryPoint{{Name: "main", Stage: StageCompute, Function: fn, Workgroup: [3]uint32{1, 1, 1}}}
	} else {
		m.Functions = []Function{fn}
	}
	zz.Freeze(m)
	c := CloneModuleForOverrides(m)
	err := ProcessOverrides(c, PipelineConstants{"0": v})
	zz.Assert(err == nil, "unexpected error")
	zz.Assert(zz.FrozenWrites() == 0, "override resolution on a clone wrote into the caller's module")
	zz.Cell("values")
	if err == nil {
		a := vi
		f := &c.EntryPoints
		_ = f
		var cf *Function
		if entry {
			cf = &c.EntryPoints[0].Function
		} else {
			cf = &c.Functions[0]
		}
		// the stored / returned expression must be the literal a*k
		var use ExpressionHandle
		found := false
		for _, s := range cf.Body {
			switch st := s.Kind.(type) {
			case StmtReturn:
				if st.Value != nil {
					use, found = *st.Value, true
				}
			case StmtStore:
				use, found = st.Value, true
			}
		}
		zz.Assert(found && int(use) < len(cf.Expressions), "use-site handle out of range after rebuild")
		if found && int(use) < len(cf.Expressions) {
			lit, ok := cf.Expressions[use].Kind.(Literal)
			zz.Assert(ok, "use site was not folded to a literal")
			if ok {
				zz.Assert(zz.Same(lit.Value, LiteralValue(LiteralI32(a*k))), "use site value differs from a*k")
			}
		}
		ih := cf.LocalVars[0].Init
		zz.Assert(ih != nil && int(*ih) < len(cf.Expressions), "local initialiser handle out of range")
		if ih != nil && int(*ih) < len(cf.Expressions) {
			lit, ok := cf.Expressions[*ih].Kind.(Literal)
			zz.Assert(ok && zz.Same(lit.Value, LiteralValue(LiteralI32(k))), "local initialiser no longer refers to its literal")
		}
		// private global initialiser
		gi := c.GlobalVariables[0].InitExpr
		zz.Assert(gi != nil && int(*gi) < len(c.GlobalExpressions), "global initialiser handle")
		if gi != nil && int(*gi) < len(c.GlobalExpressions) {
			lit, ok := c.GlobalExpressions[*gi].Kind.(Literal)
			zz.Assert(ok && zz.Same(lit.Value, LiteralValue(LiteralI32(a+k))), "global initialiser differs from a+k")
		}
	}
	zz.Reach("end")
}
