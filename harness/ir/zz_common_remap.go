//go:build verif

package ir

import (
	zz "github.com/gogpu/naga/internal/zzverif"
)

// ZZHandleTable returns n symbolic expression handles (the image of an arbitrary renumbering).
func ZZHandleTable(n int) ([]ExpressionHandle, []uint32) {
	hs := make([]ExpressionHandle, n)
	us := make([]uint32, n)
	for i := range hs {
		us[i] = zz.U32("map" + string(rune('0'+i)))
		hs[i] = ExpressionHandle(us[i])
	}
	return hs, us
}

// zzStmtKinds lists every statement kind (the engine fails the run as STALE-HARNESS when a type
// implementing ir.StatementKind is missing here). Each is filled by Havoc: all handle fields
// symbolic, pointer-held handles present, nested blocks one statement long.
func zzStmtKinds() []any {
	var (
		s1  StmtEmit
		s2  StmtBlock
		s3  StmtIf
		s4  StmtSwitch
		s5  StmtLoop
		s6  StmtBreak
		s7  StmtContinue
		s8  StmtReturn
		s9  StmtKill
		s10 StmtBarrier
		s11 StmtStore
		s12 StmtImageStore
		s13 StmtAtomic
		s14 StmtImageAtomic
		s15 StmtWorkGroupUniformLoad
		s16 StmtCall
		s17 StmtRayQuery
		s18 StmtSubgroupBallot
		s19 StmtSubgroupCollectiveOperation
		s20 StmtSubgroupGather
	)
	return []any{s1, s2, s3, s4, s5, s6, s7, s8, s9, s10, s11, s12, s13, s14, s15, s16, s17, s18, s19, s20}
}

// ZZHavocStmt returns statement kind number k filled with arbitrary content.
func ZZHavocStmt(k int) StatementKind {
	switch k {
	case 0:
		var s StmtBlock
		zz.Havoc("s", &s)
		s.Block = Block{{Kind: StmtStore{Pointer: ExpressionHandle(zz.U32("s.inner.p")), Value: ExpressionHandle(zz.U32("s.inner.v"))}}}
		return s
	case 1:
		var s StmtIf
		zz.Havoc("s", &s)
		s.Accept = Block{{Kind: StmtStore{Pointer: ExpressionHandle(zz.U32("s.acc.p")), Value: ExpressionHandle(zz.U32("s.acc.v"))}}}
		s.Reject = Block{{Kind: StmtReturn{Value: zzEHp(ExpressionHandle(zz.U32("s.rej.v")))}}}
		return s
	case 2:
		var s StmtSwitch
		zz.Havoc("s", &s)
		s.Cases = []SwitchCase{{Value: SwitchValueDefault{}, Body: Block{{Kind: StmtStore{Pointer: ExpressionHandle(zz.U32("s.case.p")), Value: ExpressionHandle(zz.U32("s.case.v"))}}}}}
		return s
	case 3:
		var s StmtLoop
		zz.Havoc("s", &s)
		s.Body = Block{{Kind: StmtStore{Pointer: ExpressionHandle(zz.U32("s.body.p")), Value: ExpressionHandle(zz.U32("s.body.v"))}}}
		s.Continuing = Block{{Kind: StmtStore{Pointer: ExpressionHandle(zz.U32("s.cont.p")), Value: ExpressionHandle(zz.U32("s.cont.v"))}}}
		return s
	case 4:
		var s StmtReturn
		zz.Havoc("s", &s)
		return s
	case 5:
		var s StmtStore
		zz.Havoc("s", &s)
		return s
	case 6:
		var s StmtImageStore
		zz.Havoc("s", &s)
		return s
	case 7:
		var s StmtAtomic
		zz.Havoc("s", &s)
		s.Fun = AtomicExchange{Compare: zzEHp(ExpressionHandle(zz.U32("s.cmp")))}
		return s
	case 8:
		var s StmtWorkGroupUniformLoad
		zz.Havoc("s", &s)
		return s
	case 9:
		var s StmtCall
		zz.Havoc("s", &s)
		return s
	case 10:
		var s StmtBarrier
		zz.Havoc("s", &s)
		return s
	case 11:
		return StmtBreak{}
	case 12:
		return StmtContinue{}
	case 13:
		var s StmtImageAtomic
		zz.Havoc("s", &s)
		return s
	case 14:
		var s StmtRayQuery
		zz.Havoc("s", &s)
		switch zz.Choice("rq", 3) {
		case 0:
			s.Fun = RayQueryInitialize{AccelerationStructure: ExpressionHandle(zz.U32("s.as")), Descriptor: ExpressionHandle(zz.U32("s.desc"))}
		case 1:
			s.Fun = RayQueryProceed{Result: ExpressionHandle(zz.U32("s.res"))}
		default:
			s.Fun = RayQueryGenerateIntersection{HitT: ExpressionHandle(zz.U32("s.hit"))}
		}
		return s
	case 15:
		var s StmtSubgroupBallot
		zz.Havoc("s", &s)
		return s
	case 16:
		var s StmtSubgroupCollectiveOperation
		zz.Havoc("s", &s)
		return s
	case 17:
		var s StmtSubgroupGather
		zz.Havoc("s", &s)
		s.Mode = GatherShuffleXor{Mask: ExpressionHandle(zz.U32("s.mask"))}
		return s
	default:
		return StmtKill{}
	}
}

const ZZNumHavocStmts = 19
