//go:build verif

package ir

// No pass run on a clone may write into the module the caller handed in (the caller may share
// it with other backends / goroutines): same body as the C14 isolation check.
func ZZ_C12_clone_isolation() { zzIsolationBody() }
