//go:build verif

package ir

import (
	zz "github.com/gogpu/naga/internal/zzverif"
)

func zzExprKinds() []any {
	return []any{Literal{}, ExprConstant{}, ExprOverride{}, ExprZeroValue{}, ExprCompose{}, ExprAccess{}, ExprAccessIndex{}, ExprSplat{},
		ExprSwizzle{}, ExprFunctionArgument{}, ExprGlobalVariable{}, ExprLocalVariable{}, ExprLoad{}, ExprAlias{}, ExprPhi{},
		ExprImageSample{}, ExprImageLoad{}, ExprImageQuery{}, ExprUnary{}, ExprBinary{}, ExprSelect{}, ExprDerivative{},
		ExprRelational{}, ExprMath{}, ExprAs{}, ExprCallResult{}, ExprArrayLength{}, ExprAtomicResult{},
		ExprWorkGroupUniformLoadResult{}, ExprRayQueryProceedResult{}, ExprRayQueryGetIntersection{}, ExprSubgroupBallotResult{},
		ExprSubgroupOperationResult{}}
}

func zzH(n string) ExpressionHandle { return ExpressionHandle(zz.U32(n)) }

// ZZHavocExpr returns expression kind number k with arbitrary content (every handle symbolic,
// optional handles present, nested interface variants chosen by Choice).
func ZZHavocExpr(k int) ExpressionKind {
	switch k {
	case 0:
		var e ExprCompose
		zz.Havoc("e", &e)
		e.Components = []ExpressionHandle{zzH("e.c0"), zzH("e.c1")}
		return e
	case 1:
		var e ExprAccess
		zz.Havoc("e", &e)
		return e
	case 2:
		var e ExprAccessIndex
		zz.Havoc("e", &e)
		return e
	case 3:
		var e ExprSplat
		zz.Havoc("e", &e)
		return e
	case 4:
		var e ExprSwizzle
		zz.Havoc("e", &e)
		return e
	case 5:
		var e ExprLoad
		zz.Havoc("e", &e)
		return e
	case 6:
		var e ExprAlias
		zz.Havoc("e", &e)
		return e
	case 7:
		var e ExprPhi
		zz.Havoc("e", &e)
		return e
	case 8:
		var e ExprImageSample
		zz.Havoc("e", &e)
		switch zz.Choice("level", 5) {
		case 0:
			e.Level = SampleLevelAuto{}
		case 1:
			e.Level = SampleLevelZero{}
		case 2:
			e.Level = SampleLevelExact{Level: zzH("e.lvl")}
		case 3:
			e.Level = SampleLevelBias{Bias: zzH("e.bias")}
		default:
			e.Level = SampleLevelGradient{X: zzH("e.gx"), Y: zzH("e.gy")}
		}
		return e
	case 9:
		var e ExprImageLoad
		zz.Havoc("e", &e)
		return e
	case 10:
		var e ExprImageQuery
		zz.Havoc("e", &e)
		if zz.Flag("sizeQuery") {
			e.Query = ImageQuerySize{Level: zzEHp(zzH("e.qlvl"))}
		} else {
			e.Query = ImageQueryNumLevels{}
		}
		return e
	case 11:
		var e ExprUnary
		zz.Havoc("e", &e)
		return e
	case 12:
		var e ExprBinary
		zz.Havoc("e", &e)
		return e
	case 13:
		var e ExprSelect
		zz.Havoc("e", &e)
		return e
	case 14:
		var e ExprDerivative
		zz.Havoc("e", &e)
		return e
	case 15:
		var e ExprRelational
		zz.Havoc("e", &e)
		return e
	case 16:
		var e ExprMath
		zz.Havoc("e", &e)
		return e
	case 17:
		var e ExprAs
		zz.Havoc("e", &e)
		return e
	case 18:
		var e ExprArrayLength
		zz.Havoc("e", &e)
		return e
	case 19:
		var e ExprRayQueryGetIntersection
		zz.Havoc("e", &e)
		return e
	case 20:
		var e ExprLocalVariable
		zz.Havoc("e", &e)
		return e
	case 21:
		var e ExprCallResult
		zz.Havoc("e", &e)
		return e
	default:
		var e ExprAtomicResult
		zz.Havoc("e", &e)
		return e
	}
}

const ZZNumHavocExprs = 23

// Remap completeness for expression kinds: the override-processing remapper.
func ZZ_C13_override_remap_expressions() {
	zz.CheckImplementors("ir.ExpressionKind", zzExprKinds())
	k := zz.Choice("kind", ZZNumHavocExprs)
	table, raw := ZZHandleTable(4)
	e := ZZHavocExpr(k)
	want := zz.MapHandles(Expression{Kind: e}, "ir.ExpressionHandle", raw)
	got := Expression{Kind: overrideRemapExprHandles(e, table)}
	zz.Assert(zz.SameState(got, want), "override remapper: an expression handle was not mapped (or something else changed)")
	zz.Reach("end")
}

// The compaction remapper. ExprAlias and ExprPhi are excluded: they are created only by the
// DXIL mem2reg pass, which runs after the last compaction (lowering), so no module that is
// compacted contains them.
func ZZ_C13_compact_remap_expressions() {
	k := zz.Choice("kind", ZZNumHavocExprs)
	zz.Assume(k != 6 && k != 7)
	table, raw := ZZHandleTable(4)
	e := ZZHavocExpr(k)
	want := zz.MapHandles(Expression{Kind: e}, "ir.ExpressionHandle", raw)
	got := Expression{Kind: remapExprHandles(e, table)}
	zz.Assert(zz.SameState(got, want), "compaction remapper: an expression handle was not mapped (or something else changed)")
	zz.Reach("end")
}
