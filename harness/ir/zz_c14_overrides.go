//go:build verif

package ir

import (
	zz "github.com/gogpu/naga/internal/zzverif"
)

// U1: one override, value supplied by @id / by name / absent (default literal or none).
// Oracle: WebGPU conversion of the supplied number on its uncontroversial domain
// (bool from {0,1}; i32/u32 from integral in-range numbers; f32 = nearest binary32 of a finite
// in-range number); default literal otherwise; error when neither exists.
func ZZ_C14_supplied_or_default() {
	ty := TypeHandle(zz.Choice("type", 4))
	hasID := zz.Flag("hasID")
	hasDefault := zz.Flag("hasDefault")
	supply := zz.Choice("supply", 3) // 0 absent, 1 by id, 2 by name
	zz.Assume(!(supply == 1 && !hasID))
	v := zz.F64("v")
	vi := zz.I64("vInt") // integral supplied values are float64(vInt)
	defBits := zz.U32("default")

	m := &Module{Types: zzTypes()}
	ov := Override{Name: "gain", Ty: ty}
	if hasID {
		ov.ID = zzU16p(7)
	}
	var defLit LiteralValue
	switch ty {
	case 0:
		defLit = LiteralBool(defBits&1 == 1)
	case 1:
		defLit = LiteralI32(int32(defBits))
	case 2:
		defLit = LiteralU32(defBits)
	default:
		f := zz.F32("defaultF")
		zz.Assume(f == f && f-f == 0)
		defLit = LiteralF32(f)
	}
	if hasDefault {
		m.GlobalExpressions = append(m.GlobalExpressions, Expression{Kind: Literal{Value: defLit}})
		ov.Init = zzEHp(0)
	}
	m.Overrides = []Override{ov}
	pc := PipelineConstants{}
	// domain of the supplied value
	if supply != 0 {
		switch ty {
		case 0:
			zz.Assume(v == 0 || v == 1)
		case 1:
			zz.Assume(vi >= -2147483648 && vi <= 2147483647)
			v = float64(int32(vi))
		case 2:
			zz.Assume(vi >= 0 && vi <= 4294967295)
			v = float64(uint32(vi))
		default:
			zz.Assume(v == v && v >= -3.4028234663852886e38 && v <= 3.4028234663852886e38)
		}
	}
	switch supply {
	case 1:
		pc["7"] = v
	case 2:
		pc["gain"] = v
	}
	err := ProcessOverrides(m, pc)
	if supply == 0 && !hasDefault {
		zz.Assert(err != nil, "missing value without default must be an error")
		zz.Reach("end")
		return
	}
	zz.Assert(err == nil, "unexpected error resolving an override")
	if err != nil {
		zz.Reach("end")
		return
	}
	got, ok := zzConstLiteral(m, "gain")
	zz.Assert(ok, "resolved override is not a literal constant")
	var want LiteralValue
	if supply == 0 {
		want = defLit
	} else {
		switch ty {
		case 0:
			want = LiteralBool(v == 1)
		case 1:
			want = LiteralI32(int32(vi))
		case 2:
			want = LiteralU32(uint32(vi))
		default:
			want = LiteralF32(float32(v))
		}
	}
	zz.Assert(zz.Same(got, want), "override resolved to a value different from the supplied/default one")
	zz.Reach("end")
}

// zzTypedBinary evaluates x op y in the override's type (WGSL semantics), ok=false when the
// reference makes no claim (overflow / division by zero / operator outside + - * /).
func zzTypedBinaryI32(op BinaryOperator, x, y int32) (int32, bool) {
	switch op {
	case BinaryAdd:
		r := int64(x) + int64(y)
		return int32(r), r == int64(int32(r))
	case BinarySubtract:
		r := int64(x) - int64(y)
		return int32(r), r == int64(int32(r))
	case BinaryMultiply:
		r := int64(x) * int64(y)
		return int32(r), r == int64(int32(r))
	case BinaryDivide:
		if y == 0 || (x == -2147483648 && y == -1) {
			return 0, false
		}
		return x / y, true
	}
	return 0, false
}

func zzTypedBinaryU32(op BinaryOperator, x, y uint32) (uint32, bool) {
	switch op {
	case BinaryAdd:
		r := uint64(x) + uint64(y)
		return uint32(r), r <= 0xFFFFFFFF
	case BinarySubtract:
		return x - y, x >= y
	case BinaryMultiply:
		r := uint64(x) * uint64(y)
		return uint32(r), r <= 0xFFFFFFFF
	case BinaryDivide:
		if y == 0 {
			return 0, false
		}
		return x / y, true
	}
	return 0, false
}

// U2: a derived override b = a OP k (or k OP a) evaluated from its default initialiser, a supplied
// or defaulted, integer types, OP in + - * / (no overflow, divisor != 0). Oracle: typed WGSL evaluation.
func ZZ_C14_derived_int() {
	signed := zz.Flag("signed")
	op := BinaryOperator(zz.Choice("op", 4)) // Add, Subtract, Multiply, Divide
	swap := zz.Flag("swap")
	supplyA := zz.Flag("supplyA")
	aDef := zz.U32("aDefault")
	k := zz.U32("k")
	avi := zz.I64("aSupplied") // supplied value is the integral number float64(avi)
	if op == BinaryMultiply {
		// bound: multiplication operands are 16-bit values (the product of two 32-bit operands
		// is not exact in binary64 and the solver cannot decide the float multiplier)
		if signed {
			aDef, k, avi = uint32(int32(zz.I16("aDefault16"))), uint32(int32(zz.I16("k16"))), int64(zz.I16("aSupplied16"))
		} else {
			aDef, k, avi = uint32(zz.U16("aDefault16")), uint32(zz.U16("k16")), int64(zz.U16("aSupplied16"))
		}
	}
	var av float64
	ty := TypeHandle(2)
	if signed {
		ty = 1
	}
	lit := func(bits uint32) LiteralValue {
		if signed {
			return LiteralI32(int32(bits))
		}
		return LiteralU32(bits)
	}
	m := &Module{Types: zzTypes()}
	// global expressions: 0: a default literal, 1: Override(a), 2: literal k, 3: binary
	m.GlobalExpressions = []Expression{
		{Kind: Literal{Value: lit(aDef)}},
		{Kind: ExprOverride{Override: 0}},
		{Kind: Literal{Value: lit(k)}},
	}
	l, r := ExpressionHandle(1), ExpressionHandle(2)
	if swap {
		l, r = r, l
	}
	m.GlobalExpressions = append(m.GlobalExpressions, Expression{Kind: ExprBinary{Op: op, Left: l, Right: r}})
	m.Overrides = []Override{
		{Name: "a", Ty: ty, ID: zzU16p(1), Init: zzEHp(0)},
		{Name: "b", Ty: ty, Init: zzEHp(3)},
	}
	pc := PipelineConstants{}
	var aBits uint32
	if supplyA {
		if signed {
			zz.Assume(avi >= -2147483648 && avi <= 2147483647)
			aBits = uint32(int32(avi))
			av = float64(int32(avi))
		} else {
			zz.Assume(avi >= 0 && avi <= 4294967295)
			aBits = uint32(avi)
			av = float64(uint32(avi))
		}
		pc["1"] = av
	} else {
		aBits = aDef
	}
	x, y := aBits, k
	if swap {
		x, y = y, x
	}
	var wantBits uint32
	var defined bool
	if signed {
		v, ok := zzTypedBinaryI32(op, int32(x), int32(y))
		wantBits, defined = uint32(v), ok
	} else {
		wantBits, defined = zzTypedBinaryU32(op, x, y)
	}
	zz.Assume(defined)
	err := ProcessOverrides(m, pc)
	zz.Assert(err == nil, "unexpected error")
	if err == nil {
		got, ok := zzConstLiteral(m, "b")
		zz.Assert(ok, "derived override did not resolve to a literal")
		zz.Assert(zz.Same(got, lit(wantBits)), "derived override differs from WGSL evaluation of its initialiser")
		ga, ok := zzConstLiteral(m, "a")
		zz.Assert(ok && zz.Same(ga, lit(aBits)), "base override has the wrong value")
	}
	zz.Reach("end")
}

// U2f: derived f32 override, + - * /, unary minus. Oracle: correctly rounded binary32 result
// (computed like naga through binary64 and one rounding; Figueroa's theorem, assumption).
func ZZ_C14_derived_f32() {
	form := zz.Choice("form", 6) // 0..3: a op k ; 4: k op a (sub) ; 5: -a
	a := zz.F32("a")
	k := zz.F32("k")
	zz.Assume(a == a && a-a == 0 && k == k && k-k == 0)
	m := &Module{Types: zzTypes()}
	m.GlobalExpressions = []Expression{
		{Kind: Literal{Value: LiteralF32(a)}},
		{Kind: ExprOverride{Override: 0}},
		{Kind: Literal{Value: LiteralF32(k)}},
	}
	var want float32
	switch form {
	case 0:
		m.GlobalExpressions = append(m.GlobalExpressions, Expression{Kind: ExprBinary{Op: BinaryAdd, Left: 1, Right: 2}})
		want = float32(float64(a) + float64(k))
	case 1:
		m.GlobalExpressions = append(m.GlobalExpressions, Expression{Kind: ExprBinary{Op: BinarySubtract, Left: 1, Right: 2}})
		want = float32(float64(a) - float64(k))
	case 2:
		m.GlobalExpressions = append(m.GlobalExpressions, Expression{Kind: ExprBinary{Op: BinaryMultiply, Left: 1, Right: 2}})
		want = float32(float64(a) * float64(k))
	case 3:
		zz.Assume(k != 0)
		m.GlobalExpressions = append(m.GlobalExpressions, Expression{Kind: ExprBinary{Op: BinaryDivide, Left: 1, Right: 2}})
		want = float32(float64(a) / float64(k))
	case 4:
		m.GlobalExpressions = append(m.GlobalExpressions, Expression{Kind: ExprBinary{Op: BinarySubtract, Left: 2, Right: 1}})
		want = float32(float64(k) - float64(a))
	default:
		m.GlobalExpressions = append(m.GlobalExpressions, Expression{Kind: ExprUnary{Op: UnaryNegate, Expr: 1}})
		want = -a
	}
	m.Overrides = []Override{
		{Name: "a", Ty: 3, Init: zzEHp(0)},
		{Name: "b", Ty: 3, Init: zzEHp(3)},
	}
	err := ProcessOverrides(m, PipelineConstants{})
	zz.Assert(err == nil, "unexpected error")
	if err == nil {
		got, ok := zzConstLiteral(m, "b")
		zz.Assert(ok, "derived override did not resolve to a literal")
		zz.Assert(zz.Same(got, LiteralValue(LiteralF32(want))), "derived f32 override differs from WGSL evaluation")
	}
	zz.Reach("end")
}

// U3: see zzIsolationBody in zz_common_ir.go (shared with C12).
func ZZ_C14_function_use_and_isolation() { zzIsolationBody() }
