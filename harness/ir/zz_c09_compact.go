//go:build verif

package ir

import (
	zz "github.com/gogpu/naga/internal/zzverif"
)

// C09 (lowering yields a well-formed module): CompactExpressions runs at the end of every
// lowering; a statement handle it fails to renumber leaves the module ill-formed. Same body
// as the C13 completeness check of that remapper.
func ZZ_C09_lowering_compaction_remaps_statements() {
	k := zz.Choice("kind", ZZNumHavocStmts)
	table, raw := ZZHandleTable(4)
	st := Statement{Kind: ZZHavocStmt(k)}
	want := zz.MapHandles(st, "ir.ExpressionHandle", raw)
	used := make([]bool, len(table))
	for i := range used {
		used[i] = true
	}
	out := remapStmtExprHandlesCompact([]Statement{st}, table, used)
	zz.Assert(len(out) == 1, "compaction dropped or duplicated a statement although every expression is used")
	if len(out) == 1 {
		zz.Assert(zz.SameState(out[0], want), "CompactExpressions remapper: a handle was not mapped (or something else changed)")
	}
	zz.Reach("end")
}
