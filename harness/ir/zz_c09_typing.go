//go:build verif

package ir

import (
	zz "github.com/gogpu/naga/internal/zzverif"
)

// zzInner resolves a TypeResolution to its TypeInner.
func zzInner(m *Module, r TypeResolution) TypeInner {
	if r.Handle != nil {
		return m.Types[*r.Handle].Inner
	}
	return r.Value
}

func zzVecSize(name string) VectorSize {
	v := VectorSize(zz.U8(name))
	zz.Assume(v >= 2 && v <= 4)
	return v
}

// Type inference of indexing: for every matrix shape CxR (2..4) and vector size, as a value
// (function argument), through a pointer (local variable) and with a dynamic index:
//
//	m[i]  : vecR<T>     (ptr: pointer to vecR<T>)
//	v[i]  : T
//	m[i][j] : T
//
// against the WGSL typing rules written independently.
func ZZ_C09_typing_access() {
	cols, rows := zzVecSize("cols"), zzVecSize("rows")
	vsz := zzVecSize("vsize")
	idx := zz.U32("idx")
	zz.Assume(idx < 2)
	dynamic := zz.Flag("dynamic")
	throughPtr := zz.Flag("throughPointer")
	f32 := ScalarType{Kind: ScalarFloat, Width: 4}
	m := &Module{Types: []Type{
		{Inner: f32}, // 0
		{Inner: MatrixType{Columns: cols, Rows: rows, Scalar: f32}}, // 1
		{Inner: VectorType{Size: vsz, Scalar: f32}},                 // 2
		{Inner: ScalarType{Kind: ScalarUint, Width: 4}},             // 3
	}}
	fn := &Function{
		Arguments: []FunctionArgument{{Name: "m", Type: 1}, {Name: "v", Type: 2}, {Name: "i", Type: 3}},
		LocalVars: []LocalVariable{{Name: "lm", Type: 1}, {Name: "lv", Type: 2}},
	}
	var mBase, vBase Expression
	if throughPtr {
		mBase, vBase = Expression{Kind: ExprLocalVariable{Variable: 0}}, Expression{Kind: ExprLocalVariable{Variable: 1}}
	} else {
		mBase, vBase = Expression{Kind: ExprFunctionArgument{Index: 0}}, Expression{Kind: ExprFunctionArgument{Index: 1}}
	}
	fn.Expressions = []Expression{mBase, vBase, {Kind: ExprFunctionArgument{Index: 2}}}
	var mi, vi Expression
	if dynamic {
		mi, vi = Expression{Kind: ExprAccess{Base: 0, Index: 2}}, Expression{Kind: ExprAccess{Base: 1, Index: 2}}
	} else {
		mi, vi = Expression{Kind: ExprAccessIndex{Base: 0, Index: idx}}, Expression{Kind: ExprAccessIndex{Base: 1, Index: idx}}
	}
	fn.Expressions = append(fn.Expressions, mi, vi)                                                 // 3, 4
	fn.Expressions = append(fn.Expressions, Expression{Kind: ExprAccessIndex{Base: 3, Index: idx}}) // 5: m[i][idx]

	rm, err := ResolveExpressionType(m, fn, 3)
	zz.Assert(err == nil, "indexing a matrix does not type-check")
	rv, err2 := ResolveExpressionType(m, fn, 4)
	zz.Assert(err2 == nil, "indexing a vector does not type-check")
	rs, err3 := ResolveExpressionType(m, fn, 5)
	zz.Assert(err3 == nil, "indexing a matrix column does not type-check")
	if err == nil && err2 == nil && err3 == nil {
		if throughPtr {
			vp, ok := zzInner(m, rm).(ValuePointerType)
			zz.Assert(ok && vp.Size != nil && *vp.Size == rows && vp.Scalar == f32, "pointer to a matrix column must point to vecR<T> (R = rows)")
			sp, ok := zzInner(m, rv).(ValuePointerType)
			zz.Assert(ok && sp.Size == nil && sp.Scalar == f32, "pointer to a vector component must point to T")
			cp, ok := zzInner(m, rs).(ValuePointerType)
			zz.Assert(ok && cp.Size == nil && cp.Scalar == f32, "pointer to a matrix element must point to T")
		} else {
			vt, ok := zzInner(m, rm).(VectorType)
			zz.Assert(ok && vt.Size == rows && vt.Scalar == f32, "a matrix column has type vecR<T> where R is the number of rows")
			st, ok := zzInner(m, rv).(ScalarType)
			zz.Assert(ok && st == f32, "a vector component has the scalar type")
			ct, ok := zzInner(m, rs).(ScalarType)
			zz.Assert(ok && ct == f32, "a matrix element has the scalar type")
		}
	}
	zz.Reach("end")
}
