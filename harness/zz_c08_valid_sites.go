//go:build verif

package naga

import (
	"strings"

	"github.com/gogpu/naga/glsl"
	"github.com/gogpu/naga/hlsl"
	zz "github.com/gogpu/naga/internal/zzverif"
	"github.com/gogpu/naga/msl"
	"github.com/gogpu/naga/spirv"
)

// C08 over whole programs: valid statements of the kinds whose INVALID neighbours C11 places
// at the same sites (explicitly typed let/const, sized arrays, calls with exactly matching
// argument types, used @must_use results, true const_assert, legal swizzles, division by a
// non-zero constant and by a variable, `>=` closing a template list, trailing commas) must be
// accepted at every site by Parse, Lower, Validate and by all four back ends.
var zzValidStatements = []string{
	"let zq: i32 = 1;",
	"const zq: u32 = 2u;",
	"var zq: array<i32, 4>;",
	"var zq: array<i32, 4 / 2>;",
	"let zq = leaf(1);",
	"let zq = leaf(1,);",
	"let zq = vleaf(vec2<i32>(1, 2));",
	"let zq = aleaf(array<i32, 2>(1, 2));",
	"let zq = sleaf(ZS(1, 2));",
	"_ = mu(1);",
	"let zq = mu(leaf(2));",
	"sink(mu(2));",
	"leaf(mu(1));",
	"const_assert 2 > 1;",
	"const zc0 = 6; var zq: array<i32, zc0>; zq[5] = 1; const_assert zc0 == 6;",
	"const zf = -1.0; const zg = -2.0; const_assert zf > zg;",
	"const_assert (1 + 1) > 1;",
	"const_assert(2 > 1);",
	";",
	"var zx: i32; let zp: ptr<function, i32>= &zx; *zp = 1;",
	"let zq = vec3<i32>(1, 2, 3).xz;",
	"let zq = vec4<f32>(1.0).rgba;",
	"let zq = vec4<i32>(1, 2, 3, 4).xyz.x;",
	"let zq = vec4<i32>(1, 2, 3, 4).wzyx.xy;",
	"var zv = vec4<i32>(1, 2, 3, 4); let zq = zv.xyz[1];",
	"var zv = vec3<f32>(1.0); zv.y = zv.zyx.z;",
	"let zq = 4 / 2;",
	"let zq = 5 % 3;",
	"let zq = zarr[1];",
	"var zq: vec3<f32>= vec3<f32>(1.0);",
	"let zq = (1 + 2) * 3;",
	"let zq = zs.a + zcs.b;",
	"let zq = vec2<i32>(4, 6) / vec2<i32>(2, 3);",
	"let zq = clamp(0, 1, 0);",
	"var zq = 7; zq = zq / (zq - 7);",
}

func ZZ_C08_valid_statements_at_sites() {
	sites := []string{"S0", "S1", "S2", "S3", "S4", "S5", "S6"}
	st := zzValidStatements[zz.Choice("statement", len(zzValidStatements))]
	site := sites[zz.Choice("site", len(sites))]
	zz.Cell(st + "@" + site)
	src := strings.Replace(zzRuleBase, "/*"+site+"*/", st, 1)
	ast, err := Parse(src)
	zz.Assert(err == nil, "valid program rejected by the parser: "+st)
	if err != nil {
		return
	}
	mod, err := LowerWithSource(ast, src)
	zz.Assert(err == nil, "valid program rejected by the lowerer: "+st)
	if err != nil {
		return
	}
	verrs, err := Validate(mod)
	zz.Assert(err == nil && len(verrs) == 0, "valid program rejected by the validator: "+st)
	switch zz.Choice("backend", 4) {
	case 0:
		_, err = GenerateSPIRV(mod, spirv.DefaultOptions())
		zz.Assert(err == nil, "valid program rejected by the SPIR-V back end: "+st)
	case 1:
		_, _, err = hlsl.Compile(mod, hlsl.DefaultOptions())
		zz.Assert(err == nil, "valid program rejected by the HLSL back end: "+st)
	case 2:
		_, _, err = msl.Compile(mod, msl.DefaultOptions())
		zz.Assert(err == nil, "valid program rejected by the MSL back end: "+st)
	default:
		o := glsl.DefaultOptions()
		o.LangVersion = glsl.Version450
		o.EntryPoint = "main"
		_, _, err = glsl.Compile(mod, o)
		zz.Assert(err == nil, "valid program rejected by the GLSL back end: "+st)
	}
	zz.Reach("end")
}
