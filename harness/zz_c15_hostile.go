//go:build verif

package naga

import (
	"github.com/gogpu/naga/hlsl"
	"github.com/gogpu/naga/internal/zzclike"
	zz "github.com/gogpu/naga/internal/zzverif"
	"github.com/gogpu/naga/msl"
)

// No reachable undefined behaviour on hostile data (C15): programs whose subscripts are
// taken UNCHECKED from the buffer are compiled with the index policies that promise safety
// (MSL Restrict and ReadZeroSkipWrite, HLSL RestrictIndexing) and the emitted text is executed
// by the reference evaluator on symbolic buffer words; every out-of-bounds subscript,
// division by zero etc. that the target language leaves undefined is an assertion failure of
// the evaluator. The final buffer contents are not compared (WGSL lets an out-of-bounds read
// yield any element or zero).
var zzHostilePrograms = []struct{ name, ty, decl, body string }{
	{"const-table-by-value", "u32", "const TABLE = array<u32, 4>(10u, 20u, 30u, 40u);", "buf[1] = TABLE[buf[0]];"},
	{"let-copy-of-local-array", "u32", "", "var a = array<u32, 4>(1u, 2u, 3u, 4u); a[buf[2] & 3u] = 9u; let c = a; buf[1] = c[buf[0]];"},
	{"local-array-var", "u32", "", "var a = array<u32, 3>(1u, 2u, 3u); a[buf[0]] = buf[1]; buf[2] = a[buf[3]];"},
	{"by-value-array-parameter", "u32", "fn pick(a: array<u32, 4>, i: u32) -> u32 { return a[i]; }", "buf[1] = pick(array<u32, 4>(buf[4], 2u, 3u, 4u), buf[0]);"},
	{"vector-component", "u32", "", "var v = vec3<u32>(buf[1], buf[2], buf[3]); v[buf[0]] = 7u; buf[4] = v[buf[5]];"},
	{"storage-array-itself", "u32", "", "buf[buf[0]] = buf[buf[1]] + 1u;"},
	{"private-array-through-pointer", "i32", "var<private> t: array<i32, 4>; fn get(p: ptr<private, array<i32, 4>>, i: i32) -> i32 { return (*p)[i]; }", "t[buf[0]] = 5; buf[1] = get(&t, buf[2]);"},
	{"nested-array-of-struct", "u32", "struct S { a: array<u32, 2>, b: u32 }", "var s: array<S, 2>; s[buf[0]].a[buf[1]] = 3u; buf[2] = s[buf[3]].a[buf[4]] + s[buf[5]].b;"},
}

func zzHostileSource(k int) (string, string) {
	p := zzHostilePrograms[k]
	return p.name, "@group(0) @binding(0) var<storage, read_write> buf: array<" + p.ty + ", 8>;\n" + p.decl + "\n@compute @workgroup_size(1) fn main() {\n" + p.body + "\n}"
}

func zzRunHostile(text string, d zzclike.Dialect, entry string, what string) {
	prog, perr := zzclike.Parse(text, d)
	zz.Assert(perr == "", "emitted "+what+" is outside the reference grammar: "+perr)
	if perr != "" {
		return
	}
	prog.WorkgroupSize = [3]uint32{1, 1, 1}
	_, rerr := prog.Run(entry, zzInputs())
	zz.Assert(rerr == "", "emitted "+what+" cannot be executed by the reference evaluator: "+rerr)
	zz.Reach("end")
}

func ZZ_C15_hostile_indices_msl() {
	name, src := zzHostileSource(zz.Choice("program", len(zzHostilePrograms)))
	ast, err := Parse(src)
	zz.Assert(err == nil, "program does not parse")
	if err != nil {
		return
	}
	mod, err := LowerWithSource(ast, src)
	zz.Assert(err == nil, "program does not lower")
	if err != nil {
		return
	}
	o := msl.DefaultOptions()
	if zz.Flag("restrict") {
		o.BoundsCheckPolicies = msl.BoundsCheckPolicies{Index: msl.BoundsCheckRestrict, Buffer: msl.BoundsCheckRestrict, Image: msl.BoundsCheckRestrict, BindingArray: msl.BoundsCheckRestrict}
		zz.Cell(name + "/restrict")
	} else {
		zz.Cell(name + "/read-zero-skip-write")
	}
	text, info, err := msl.Compile(mod, o)
	zz.Assert(err == nil, "MSL backend rejected the program")
	if err != nil {
		return
	}
	entry := "main_"
	if n, ok := info.EntryPointNames["main"]; ok && n != "" {
		entry = n
	}
	zzRunHostile(text, zzclike.MSL, entry, "MSL")
}

func ZZ_C15_hostile_indices_hlsl() {
	name, src := zzHostileSource(zz.Choice("program", len(zzHostilePrograms)))
	ast, err := Parse(src)
	zz.Assert(err == nil, "program does not parse")
	if err != nil {
		return
	}
	mod, err := LowerWithSource(ast, src)
	zz.Assert(err == nil, "program does not lower")
	if err != nil {
		return
	}
	zz.Cell(name)
	text, _, err := hlsl.Compile(mod, hlsl.DefaultOptions()) // RestrictIndexing is on by default
	zz.Assert(err == nil, "HLSL backend rejected the program")
	if err != nil {
		return
	}
	zzRunHostile(text, zzclike.HLSL, "main", "HLSL")
}
