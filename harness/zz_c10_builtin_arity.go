//go:build verif

package naga

import (
	zz "github.com/gogpu/naga/internal/zzverif"
)

// Texture builtins with the WRONG NUMBER (or kind) of arguments: for every texture builtin x
// texture type x argument count 0..7 x argument kind the front end returns a module or an
// ordinary error - it never panics (index/slice out of range on the argument list).
var zzTexBuiltins = []string{"textureSample", "textureSampleBias", "textureSampleLevel", "textureSampleGrad", "textureSampleCompare",
	"textureSampleCompareLevel", "textureSampleBaseClampToEdge", "textureGather", "textureGatherCompare", "textureLoad", "textureStore",
	"textureDimensions", "textureNumLayers", "textureNumLevels", "textureNumSamples", "textureAtomicAdd", "textureAtomicMax"}

var zzTexTypes = []string{"texture_2d<f32>", "texture_2d_array<f32>", "texture_cube<f32>", "texture_cube_array<f32>", "texture_3d<f32>",
	"texture_depth_2d", "texture_depth_2d_array", "texture_multisampled_2d<f32>", "texture_storage_2d<rgba8unorm, write>", "texture_storage_2d<r32uint, read_write>"}

var zzArgKinds = []string{"vec2<f32>(0.5, 0.5)", "1", "1.5", "vec3<f32>(0.5)", "vec2<i32>(1, 1)"}

func ZZ_C10_texture_builtin_arity() {
	fn := zzTexBuiltins[zz.Choice("builtin", len(zzTexBuiltins))]
	tt := zzTexTypes[zz.Choice("texture-type", len(zzTexTypes))]
	n := zz.Choice("extra-args", 7)
	arg := zzArgKinds[zz.Choice("arg-kind", len(zzArgKinds))]
	withSampler := zz.Flag("sampler-second")
	samp := "sampler"
	if fn == "textureSampleCompare" || fn == "textureSampleCompareLevel" || fn == "textureGatherCompare" {
		samp = "sampler_comparison"
	}
	call := fn + "(t"
	if withSampler {
		call += ", s"
	}
	for i := 0; i < n; i++ {
		call += ", " + arg
	}
	call += ")"
	src := "@group(0) @binding(0) var t: " + tt + ";\n@group(0) @binding(1) var s: " + samp + ";\n" +
		"@fragment fn main() -> @location(0) vec4<f32> { let r = " + call + "; return vec4<f32>(0.0); }\n"
	if fn == "textureStore" || fn == "textureAtomicAdd" || fn == "textureAtomicMax" {
		src = "@group(0) @binding(0) var t: " + tt + ";\n@group(0) @binding(1) var s: " + samp + ";\n" +
			"@fragment fn main() -> @location(0) vec4<f32> { " + call + "; return vec4<f32>(0.0); }\n"
	}
	zz.Bounded(80_000_000, 400, "front end does not terminate on a texture builtin call with a wrong argument list")
	ast, err := Parse(src)
	if err == nil {
		_, _ = LowerWithSource(ast, src)
	}
	zz.Bounded(0, 0, "")
	zz.Reach("end")
}
