//go:build verif

package naga

import (
	"fmt"

	"github.com/gogpu/naga/glsl"
	"github.com/gogpu/naga/hlsl"
	"github.com/gogpu/naga/internal/zzclike"
	"github.com/gogpu/naga/internal/zzspv"
	zz "github.com/gogpu/naga/internal/zzverif"
	"github.com/gogpu/naga/ir"
	"github.com/gogpu/naga/msl"
	"github.com/gogpu/naga/spirv"
)

// C17, stage interfaces: a vertex entry point whose outputs carry @location numbers in a
// non-monotonic order with every interpolation mode, and a fragment entry point that consumes
// them. The emitted text of each back end is executed by the reference evaluator with the
// stage inputs / outputs addressed by INTERFACE KEY (location number, builtin), on symbolic
// values: the vertex outputs must appear under the WGSL locations with the WGSL
// interpolation, the fragment shader — fed with exactly what the vertex shader produced under
// each key — must produce the WGSL result under the WGSL colour indices, and both sides must
// declare the same interpolation for a location.

var zzLocSets = [][4]int{{3, 0, 5, 1}, {0, 1, 2, 3}, {7, 2, 0, 4}, {1, 30, 15, 0}}

// WGSL interpolation attributes for f32 varyings and their canonical form.
var zzInterps = [][2]string{
	{"", "perspective"},
	{"@interpolate(flat)", "flat"},
	{"@interpolate(linear)", "linear"},
	{"@interpolate(linear, centroid)", "linear centroid"},
	{"@interpolate(linear, sample)", "linear sample"},
	{"@interpolate(perspective, center)", "perspective"},
	{"@interpolate(perspective, centroid)", "perspective centroid"},
	{"@interpolate(perspective, sample)", "perspective sample"},
}

type zzStageCase struct {
	src              string
	loc              [4]int
	interpB, interpD string // canonical
	colX, colY       int
}

func zzStageProgram() zzStageCase {
	loc := zzLocSets[zz.Choice("locations", len(zzLocSets))]
	// quick tier: every interpolation on one varying while the other keeps the default (and
	// the flat / sample pair); thorough tier: the full product
	var ib, id [2]string
	if zz.Thorough() {
		ib = zzInterps[zz.Choice("interp-b", len(zzInterps))]
		id = zzInterps[zz.Choice("interp-d", len(zzInterps))]
	} else {
		k := zz.Choice("interp", len(zzInterps))
		switch zz.Choice("varying", 3) {
		case 0:
			ib, id = zzInterps[k], zzInterps[0]
		case 1:
			ib, id = zzInterps[0], zzInterps[k]
		default:
			ib, id = zzInterps[k], zzInterps[(k+3)%len(zzInterps)]
		}
	}
	swap := zz.Choice("colours", 2)
	colX, colY := 1, 0
	if swap == 1 {
		colX, colY = 0, 2
	}
	mixed := zz.Choice("fragment-arguments", 2) == 1
	zz.Cell(fmt.Sprintf("loc %v b:%s d:%s mixed:%v", loc, ib[1], id[1], mixed))
	if mixed {
		// the fragment entry point takes varying c as a directly bound argument and the
		// others through a struct of its own
		src := fmt.Sprintf(`struct VOut {
  @builtin(position) pos: vec4<f32>,
  @location(%d) @interpolate(flat) a: u32,
  @location(%d) %s b: vec2<f32>,
  @location(%d) c: f32,
  @location(%d) %s d: vec4<f32>,
}
@vertex fn vs(@location(2) p: vec3<f32>, @location(0) q: u32, @builtin(vertex_index) vi: u32) -> VOut {
  return VOut(vec4<f32>(p, 1.0), q + vi, p.xy, p.z, vec4<f32>(p, 0.5));
}
struct FIn {
  @location(%d) %s d: vec4<f32>,
  @location(%d) @interpolate(flat) a: u32,
  @location(%d) %s b: vec2<f32>,
}
struct FOut { @location(%d) x: vec4<f32>, @location(%d) y: vec4<u32>, @builtin(frag_depth) z: f32 }
@fragment fn fs(@location(%d) c: f32, i: FIn, @builtin(front_facing) ff: bool) -> FOut {
  return FOut(i.d, vec4<u32>(bitcast<vec2<u32>>(i.b), bitcast<u32>(c), i.a), select(0.25, 0.5, ff));
}
`, loc[0], loc[1], ib[0], loc[2], loc[3], id[0], loc[3], id[0], loc[0], loc[1], ib[0], colX, colY, loc[2])
		return zzStageCase{src: src, loc: loc, interpB: ib[1], interpD: id[1], colX: colX, colY: colY}
	}
	src := fmt.Sprintf(`struct VOut {
  @builtin(position) pos: vec4<f32>,
  @location(%d) @interpolate(flat) a: u32,
  @location(%d) %s b: vec2<f32>,
  @location(%d) c: f32,
  @location(%d) %s d: vec4<f32>,
}
@vertex fn vs(@location(2) p: vec3<f32>, @location(0) q: u32, @builtin(vertex_index) vi: u32) -> VOut {
  return VOut(vec4<f32>(p, 1.0), q + vi, p.xy, p.z, vec4<f32>(p, 0.5));
}
struct FOut { @location(%d) x: vec4<f32>, @location(%d) y: vec4<u32>, @builtin(frag_depth) z: f32 }
@fragment fn fs(i: VOut, @builtin(front_facing) ff: bool) -> FOut {
  return FOut(i.d, vec4<u32>(bitcast<vec2<u32>>(i.b), bitcast<u32>(i.c), i.a), select(0.25, 0.5, ff));
}
`, loc[0], loc[1], ib[0], loc[2], loc[3], id[0], colX, colY)
	return zzStageCase{src: src, loc: loc, interpB: ib[1], interpD: id[1], colX: colX, colY: colY}
}

func zzKeyEq(got map[string][]uint32, key string, want []uint32, msg string) {
	w, ok := got[key]
	zz.Assert(ok && len(w) == len(want), msg+": no value under interface key "+key)
	if !ok || len(w) != len(want) {
		return
	}
	for i := range want {
		zz.Assert(w[i] == want[i], msg+": wrong value under interface key "+key)
	}
}

type zzStageRunner func(in map[string][]uint32) (map[string][]uint32, map[string]string, bool)

// zzStageRunners compiles the module with one back end and returns functions that execute the
// emitted vertex / fragment entry point on interface-keyed values.
func zzStageRunners(backend int, mod *ir.Module) (zzStageRunner, zzStageRunner, bool) {
	if backend == 3 {
		o := spirv.DefaultOptions()
		if zz.Choice("spirv-version", 2) == 1 {
			o.Version = spirv.Version1_5
		}
		bin, err := GenerateSPIRV(mod, o)
		zz.Assert(err == nil, "SPIR-V backend rejected the stage program")
		if err != nil {
			return nil, nil, false
		}
		run := func(name string) zzStageRunner {
			return func(in map[string][]uint32) (map[string][]uint32, map[string]string, bool) {
				ex, ok := zzspv.NewExec(bin)
				zz.Assert(ok, "emitted SPIR-V is not a well-formed instruction stream")
				if !ok {
					return nil, nil, false
				}
				return ex.RunStage(name, in)
			}
		}
		return run("vs"), run("fs"), true
	}
	var vsText, fsText, vsEntry, fsEntry string
	var d zzclike.Dialect
	switch backend {
	case 0:
		ho := hlsl.DefaultOptions()
		if zz.Choice("hlsl-fragment-filter", 2) == 1 {
			// vertex outputs filtered by the fragment entry point that consumes them: every
			// location the fragment shader reads must still be written
			for i := range mod.EntryPoints {
				if mod.EntryPoints[i].Name == "fs" {
					ho.FragmentEntryPoint = &hlsl.FragmentEntryPoint{Module: mod, Function: &mod.EntryPoints[i].Function}
				}
			}
		}
		t, info, err := hlsl.Compile(mod, ho)
		zz.Assert(err == nil, "HLSL backend rejected the stage program")
		if err != nil {
			return nil, nil, false
		}
		vsText, fsText, vsEntry, fsEntry, d = t, t, "vs", "fs", zzclike.HLSL
		if info != nil {
			if n, ok := info.EntryPointNames["vs"]; ok && n != "" {
				vsEntry = n
			}
			if n, ok := info.EntryPointNames["fs"]; ok && n != "" {
				fsEntry = n
			}
		}
	case 1:
		t, info, err := msl.Compile(mod, msl.DefaultOptions())
		zz.Assert(err == nil, "MSL backend rejected the stage program")
		if err != nil {
			return nil, nil, false
		}
		vsText, fsText, vsEntry, fsEntry, d = t, t, "vs", "fs", zzclike.MSL
		if n, ok := info.EntryPointNames["vs"]; ok && n != "" {
			vsEntry = n
		}
		if n, ok := info.EntryPointNames["fs"]; ok && n != "" {
			fsEntry = n
		}
	default:
		o := glsl.DefaultOptions()
		o.LangVersion = glsl.Version450
		if zz.Choice("glsl-version", 2) == 1 {
			o.LangVersion = glsl.VersionES310
		}
		o.EntryPoint = "vs"
		tv, _, err := glsl.Compile(mod, o)
		zz.Assert(err == nil, "GLSL backend rejected the vertex entry point")
		if err != nil {
			return nil, nil, false
		}
		o.EntryPoint = "fs"
		tf, _, err := glsl.Compile(mod, o)
		zz.Assert(err == nil, "GLSL backend rejected the fragment entry point")
		if err != nil {
			return nil, nil, false
		}
		vsText, fsText, vsEntry, fsEntry, d = tv, tf, "main", "main", zzclike.GLSL
	}
	run := func(text, entry, stage string) zzStageRunner {
		return func(in map[string][]uint32) (map[string][]uint32, map[string]string, bool) {
			prog, perr := zzclike.Parse(text, d)
			zz.Assert(perr == "", "emitted "+stage+" text is outside the reference grammar: "+perr)
			if perr != "" {
				return nil, nil, false
			}
			for _, dup := range prog.Dups {
				zz.Fail("emitted " + stage + " text redefines a name: " + dup)
			}
			out, interp, rerr := prog.RunStage(entry, stage, in)
			zz.Assert(rerr == "", "emitted "+stage+" entry point cannot be executed by the reference evaluator: "+rerr)
			return out, interp, rerr == ""
		}
	}
	return run(vsText, vsEntry, "vertex"), run(fsText, fsEntry, "fragment"), true
}

func zzStageIO(backend int) {
	c := zzStageProgram()
	ast, err := Parse(c.src)
	zz.Assert(err == nil, "stage program does not parse")
	if err != nil {
		return
	}
	mod, err := LowerWithSource(ast, c.src)
	zz.Assert(err == nil, "stage program does not lower")
	if err != nil {
		return
	}
	verrs, err := Validate(mod)
	zz.Assert(err == nil && len(verrs) == 0, "stage program rejected by the validator")
	runVS, runFS, ok := zzStageRunners(backend, mod)
	if !ok {
		return
	}
	p0, p1, p2 := zz.U32("p0"), zz.U32("p1"), zz.U32("p2")
	q, vi := zz.U32("q"), zz.U32("vi")
	ff := zz.U32("ff") & 1
	const one, half, quarter = 0x3f800000, 0x3f000000, 0x3e800000

	vout, vint, ok := runVS(map[string][]uint32{"loc2": {p0, p1, p2}, "loc0": {q}, "vertex_index": {vi}})
	if !ok {
		return
	}
	la, lb, lc, ld := fmt.Sprintf("loc%d", c.loc[0]), fmt.Sprintf("loc%d", c.loc[1]), fmt.Sprintf("loc%d", c.loc[2]), fmt.Sprintf("loc%d", c.loc[3])
	zzKeyEq(vout, "position", []uint32{p0, p1, p2, one}, "vertex output")
	zzKeyEq(vout, la, []uint32{q + vi}, "vertex output")
	zzKeyEq(vout, lb, []uint32{p0, p1}, "vertex output")
	zzKeyEq(vout, lc, []uint32{p2}, "vertex output")
	zzKeyEq(vout, ld, []uint32{p0, p1, p2, half}, "vertex output")
	zz.Assert(vint["out:"+la] == "flat", "vertex output a is not flat")
	zz.Assert(vint["out:"+lb] == c.interpB, "vertex output b carries an interpolation other than the WGSL one")
	zz.Assert(vint["out:"+lc] == "perspective", "vertex output c carries an interpolation other than the WGSL default")
	zz.Assert(vint["out:"+ld] == c.interpD, "vertex output d carries an interpolation other than the WGSL one")

	fin := map[string][]uint32{"front_facing": {ff}}
	for k, w := range vout {
		fin[k] = w
	}
	fout, fint, ok := runFS(fin)
	if !ok {
		return
	}
	depth := uint32(quarter)
	if ff != 0 {
		depth = half
	}
	zzKeyEq(fout, fmt.Sprintf("color%d", c.colX), []uint32{p0, p1, p2, half}, "fragment output")
	zzKeyEq(fout, fmt.Sprintf("color%d", c.colY), []uint32{p0, p1, p2, q + vi}, "fragment output")
	zzKeyEq(fout, "frag_depth", []uint32{depth}, "fragment output")
	for _, l := range []string{la, lb, lc, ld} {
		zz.Assert(fint["in:"+l] == vint["out:"+l], "fragment input and vertex output of one location declare different interpolation")
	}
	zz.Reach("end")
}

func ZZ_C17_stage_io_hlsl()  { zzStageIO(0) }
func ZZ_C17_stage_io_msl()   { zzStageIO(1) }
func ZZ_C17_stage_io_glsl()  { zzStageIO(2) }
func ZZ_C17_stage_io_spirv() { zzStageIO(3) }
