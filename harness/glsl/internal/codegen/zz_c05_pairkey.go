//go:build verif

package codegen

// A colliding texture/sampler pair key makes the emitted GLSL sample another texture.
func ZZ_C05_glsl_pair_key_injective() { zzPairKeyInjective() }
func ZZ_C05_glsl_pair_key_small()     { zzPairKeySmall() }
