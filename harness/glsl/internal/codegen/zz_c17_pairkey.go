//go:build verif

package codegen

func ZZ_C17_glsl_pair_key_injective() { zzPairKeyInjective() }
func ZZ_C17_glsl_pair_key_small()     { zzPairKeySmall() }
