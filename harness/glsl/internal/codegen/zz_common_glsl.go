//go:build verif

package codegen

import (
	zz "github.com/gogpu/naga/internal/zzverif"
	"github.com/gogpu/naga/ir"
)

// The texture/sampler pairing table is keyed by combinedPairKey: two pairs must share a key
// iff they are the same pair, otherwise a texture is sampled through another pair's combined
// sampler and the reported TextureMappings omit it.
func zzPairKeyInjective() {
	t1, s1 := ir.GlobalVariableHandle(zz.U32("t1")), ir.GlobalVariableHandle(zz.U32("s1"))
	t2, s2 := ir.GlobalVariableHandle(zz.U32("t2")), ir.GlobalVariableHandle(zz.U32("s2"))
	zz.Assert((combinedPairKey(t1, s1) == combinedPairKey(t2, s2)) == (t1 == t2 && s1 == s2), "two different texture/sampler pairs share one key")
	zz.Reach("end")
}

// Same over small handles (concrete witnesses for a missing separator: (1,10) vs (11,0)).
func zzPairKeySmall() {
	zz.AtomConcretize(true)
	t1, s1 := ir.GlobalVariableHandle(zz.U32("t1")), ir.GlobalVariableHandle(zz.U32("s1"))
	t2, s2 := ir.GlobalVariableHandle(zz.U32("t2")), ir.GlobalVariableHandle(zz.U32("s2"))
	zz.Assume(t1 < 13 && s1 < 13 && t2 < 13 && s2 < 13)
	zz.Assert((combinedPairKey(t1, s1) == combinedPairKey(t2, s2)) == (t1 == t2 && s1 == s2), "two different texture/sampler pairs share one key")
	zz.Reach("end")
}
