//go:build verif

package codegen

import (
	zz "github.com/gogpu/naga/internal/zzverif"
	"github.com/gogpu/naga/ir"
)

// zzAlwaysJumps: reference (from the IR control-flow semantics) for "control never falls out
// of the end of this block".
func zzAlwaysJumps(b ir.Block) bool {
	if len(b) == 0 {
		return false
	}
	switch k := b[len(b)-1].Kind.(type) {
	case ir.StmtBreak, ir.StmtContinue, ir.StmtReturn, ir.StmtKill:
		return true
	case ir.StmtBlock:
		return zzAlwaysJumps(k.Block)
	case ir.StmtIf:
		return zzAlwaysJumps(k.Accept) && zzAlwaysJumps(k.Reject)
	}
	return false
}

func zzLeaf(n string) ir.Statement {
	switch zz.Choice(n, 6) {
	case 0:
		return ir.Statement{Kind: ir.StmtBreak{}}
	case 1:
		return ir.Statement{Kind: ir.StmtContinue{}}
	case 2:
		return ir.Statement{Kind: ir.StmtReturn{}}
	case 3:
		return ir.Statement{Kind: ir.StmtKill{}}
	case 4:
		return ir.Statement{Kind: ir.StmtStore{Pointer: 0, Value: 1}}
	default:
		return ir.Statement{Kind: ir.StmtBarrier{}}
	}
}

func zzSmallBlock(n string) ir.Block {
	switch zz.Choice(n+"len", 3) {
	case 0:
		return nil
	case 1:
		return ir.Block{zzLeaf(n + "a")}
	default:
		return ir.Block{{Kind: ir.StmtStore{Pointer: 0, Value: 1}}, zzLeaf(n + "b")}
	}
}

// A switch case body gets its `break;` unless it provably never falls out of its end:
// blockEndsWithTerminator(b) must imply that control always leaves b (bodies of depth <= 2:
// leaf statements, nested block, if with both / one / empty arms).
func ZZ_C05_glsl_case_terminator_sound() {
	var b ir.Block
	switch zz.Choice("last", 3) {
	case 0:
		b = zzSmallBlock("top")
	case 1:
		b = ir.Block{{Kind: ir.StmtStore{Pointer: 0, Value: 1}}, {Kind: ir.StmtBlock{Block: zzSmallBlock("inner")}}}
	default:
		b = ir.Block{{Kind: ir.StmtIf{Condition: 0, Accept: zzSmallBlock("acc"), Reject: zzSmallBlock("rej")}}}
	}
	if blockEndsWithTerminator(b) {
		zz.Assert(zzAlwaysJumps(b), "a case body that can fall out of its end is treated as terminated: its `break;` is dropped and execution falls through into the next case")
	}
	zz.Reach("end")
}
