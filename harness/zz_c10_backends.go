//go:build verif

package naga

import (
	"github.com/gogpu/naga/glsl"
	"github.com/gogpu/naga/hlsl"
	zz "github.com/gogpu/naga/internal/zzverif"
	"github.com/gogpu/naga/msl"
	"github.com/gogpu/naga/spirv"
)

// Call cycles are invalid WGSL, but lowering and validation let them through, so every back
// end sees them (C10: each backend on any module that lowering returned terminates and
// returns a result or an ordinary error - no stack overflow, no hang). The call structure of
// three helpers is chosen symbolically (each helper calls one of the three or none, the entry
// point calls one); the whole back end runs under a declared resource bound.
func ZZ_C10_backends_on_call_cycles() {
	names := []string{"fa", "fb", "fc"}
	callee := func(k string) string {
		c := zz.Choice(k, 4)
		if c == 3 {
			return "n"
		}
		return names[c] + "(n)"
	}
	src := "@group(0) @binding(0) var<storage, read_write> o: array<u32, 4>;\nvar<workgroup> wg: u32;\nvar<private> pv: u32;\n" +
		"fn fa(n: u32) -> u32 { if n == 0u { return wg; } return " + callee("fa-calls") + " + 1u; }\n" +
		"fn fb(n: u32) -> u32 { pv = n; return " + callee("fb-calls") + " + o[1]; }\n" +
		"fn fc(n: u32) -> u32 { var r = 0u; for (var i = 0u; i < n; i++) { r += " + callee("fc-calls") + "; } return r; }\n" +
		"@compute @workgroup_size(1) fn main() { o[0] = " + names[zz.Choice("entry-calls", 3)] + "(3u); }\n"
	ast, err := Parse(src)
	zz.Assert(err == nil, "program does not parse")
	if err != nil {
		return
	}
	mod, err := LowerWithSource(ast, src)
	if err != nil {
		zz.Reach("rejected-by-lowering")
		return
	}
	const msg = "back end does not terminate within the declared bound on a module with a call cycle (stack overflow / hang): "
	switch zz.Choice("backend", 4) {
	case 0:
		zz.Bounded(60_000_000, 300, msg+"msl.Compile")
		_, _, _ = msl.Compile(mod, msl.DefaultOptions())
	case 1:
		zz.Bounded(60_000_000, 300, msg+"hlsl.Compile")
		_, _, _ = hlsl.Compile(mod, hlsl.DefaultOptions())
	case 2:
		zz.Bounded(60_000_000, 300, msg+"glsl.Compile")
		_, _, _ = glsl.Compile(mod, glsl.DefaultOptions())
	case 3:
		zz.Bounded(60_000_000, 300, msg+"GenerateSPIRV")
		_, _ = GenerateSPIRV(mod, spirv.DefaultOptions())
	}
	zz.Bounded(0, 0, "")
	zz.Reach("end")
}
