//go:build verif

package parser

import (
	zz "github.com/gogpu/naga/internal/zzverif"
)

// U1: Tokenize on an arbitrary buffer of N bytes: no panic, terminates within the unwinding
// bound, at most N+1 tokens, every lexeme is a substring of the source at increasing offsets.
func zzLexArbitrary(n int) {
	src := zz.Str("src", n)
	zz.Unwind(4*n + 8)
	toks, err := NewLexer(src).Tokenize()
	zz.Assert(err == nil || toks == nil, "tokens returned together with an error")
	if err == nil {
		zz.Assert(len(toks) >= 1 && len(toks) <= n+1, "token count out of range")
		zz.Assert(toks[len(toks)-1].Kind == TokenEOF, "last token is not EOF")
		total := 0
		for _, t := range toks {
			total += len(t.Lexeme)
			zz.Assert(t.Line >= 1, "line number below 1")
		}
		zz.Assert(total <= n, "lexemes longer than the source")
	}
	zz.Reach("end")
}

func ZZ_C10_lexer_arbitrary_bytes() {
	n := 2
	if zz.Thorough() {
		n = 3
	}
	zzLexArbitrary(zz.Choice("len", n) + 1)
}

// U1a: three arbitrary ASCII bytes.
func ZZ_C10_lexer_ascii3() {
	src := zz.Str("src", 3)
	for i := 0; i < 3; i++ {
		zz.Assume(src[i] < 0x80)
	}
	zz.Unwind(32)
	toks, err := NewLexer(src).Tokenize()
	if err == nil {
		zz.Assert(len(toks) >= 1 && len(toks) <= 4, "token count out of range")
		total := 0
		for _, t := range toks {
			total += len(t.Lexeme)
		}
		zz.Assert(total <= 3, "lexemes longer than the source")
	}
	zz.Reach("end")
}

// U1b: longer inputs over the number alphabet (digits, letters used by literals, . + -).
func ZZ_C10_lexer_number_alphabet() {
	n := 5
	if zz.Thorough() {
		n = 7
	}
	alphabet := "019.eE+-xXfhiulaF_"
	b := zz.Bytes("src", n)
	for i := range b {
		in := false
		for j := 0; j < len(alphabet); j++ {
			in = in || b[i] == alphabet[j]
		}
		zz.Assume(in)
	}
	src := string(b)
	zz.Unwind(4*n + 8)
	toks, err := NewLexer(src).Tokenize()
	if err == nil {
		total := 0
		for _, t := range toks {
			total += len(t.Lexeme)
		}
		zz.Assert(total <= n, "lexemes longer than the source")
		zz.Assert(len(toks) <= n+1, "more tokens than bytes")
	}
	zz.Reach("end")
}
