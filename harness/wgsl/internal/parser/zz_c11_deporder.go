//go:build verif

package parser

// C11: the argument-count / argument-type check of a user-function call and the resolution
// of identifiers rely on the callee / constant having been lowered before the caller, i.e. on
// the dependency order; a site at which the dependency is lost lets an invalid call through.
func ZZ_C11_dependency_order_reference_sites() { zzDependencySites() }
