//go:build verif

package parser

import (
	zz "github.com/gogpu/naga/internal/zzverif"
)

// Token texts on either side of the inserted trivia: chosen so that a wrong trivia boundary
// changes the token stream (">"+">" vs ">>", "1"+"." vs "1.", "/"+"*", identifiers/numbers).
var zzSides = []string{"a", "1", ">", "/", "*", ".", "=", "-", "x1", "+", "<", "&"}

// WGSL §3.2 blankspace code points, UTF-8 encoded.
var zzBlank = []string{" ", "\t", "\n", "\v", "\f", "\r", "\u0085", "\u200e", "\u200f", "\u2028", "\u2029"}

// WGSL §3.3 line breaks (a line-ending comment stops before any of them).
var zzLineBreaks = []string{"\n", "\v", "\f", "\r", "\r\n", "\u0085", "\u2028", "\u2029"}

func zzIsLineBreakByte(b byte) bool { return b == '\n' || b == '\v' || b == '\f' || b == '\r' }

// zzCommentText returns n symbolic ASCII bytes that contain no line break.
func zzLineCommentText(name string, n int) string {
	b := zz.Bytes(name, n)
	for i := range b {
		zz.Assume(b[i] < 0x80 && !zzIsLineBreakByte(b[i]))
	}
	return string(b)
}

// zzBlockText returns n symbolic ASCII bytes forming block-comment text without a nested
// opener or closer; next is the byte that follows the text in the source.
func zzBlockText(name string, n int, next byte) string {
	b := zz.Bytes(name, n)
	for i := range b {
		zz.Assume(b[i] < 0x80)
		nx := next
		if i+1 < n {
			nx = b[i+1]
		}
		zz.Assume(!(b[i] == '/' && nx == '*'))
		zz.Assume(!(b[i] == '*' && nx == '/'))
	}
	return string(b)
}

type zzTok struct {
	kind   TokenKind
	lexeme string
}

func zzLex(src string) ([]Token, error) {
	return NewLexer(src).Tokenize()
}

func zzSameTokens(got, want []Token) bool {
	if len(got) != len(want) {
		return false
	}
	for i := range got {
		if got[i].Kind != want[i].Kind || got[i].Lexeme != want[i].Lexeme {
			return false
		}
	}
	return true
}

// zzTrivia builds one trivia item of the chosen kind; its text is WGSL blankspace or a
// comment by construction (the generator is the definition of §3.2-3.4).
// zzTriviaShort limits the variable-length parts of a trivia item to at most one byte (used
// when two items are combined: the product of the full ranges exceeds the path budget).
var zzTriviaShort bool

func zzLenChoice(id string, n int) int {
	if zzTriviaShort && n > 2 {
		n = 2
	}
	return zz.Choice(id, n)
}

func zzTrivia(id string, kind int) string {
	switch kind {
	case 0: // one blankspace code point
		zz.Cell("blankspace")
		if zzTriviaShort {
			return zzBlank[3*zz.Choice(id+"blank", 3)] // space, VT, NEL... a spread of the list
		}
		return zzBlank[zz.Choice(id+"blank", len(zzBlank))]
	case 1: // line-ending comment with 0..2 arbitrary bytes, ended by any line break
		zz.Cell("line-comment")
		n := zzLenChoice(id+"lcLen", 3)
		if zzTriviaShort {
			return "//" + zzLineCommentText(id+"lc", n) + zzLineBreaks[2*zz.Choice(id+"lb", 3)]
		}
		return "//" + zzLineCommentText(id+"lc", n) + zzLineBreaks[zz.Choice(id+"lb", len(zzLineBreaks))]
	case 2: // block comment with 0..3 arbitrary bytes
		zz.Cell("block-comment")
		n := zzLenChoice(id+"bcLen", 4)
		return "/*" + zzBlockText(id+"bc", n, '*') + "*/"
	default: // nested block comment: /* t1 /* t2 */ t3 */
		zz.Cell("nested-block-comment")
		n1, n2, n3 := zzLenChoice(id+"n1", 2), zzLenChoice(id+"n2", 3), zzLenChoice(id+"n3", 2)
		return "/*" + zzBlockText(id+"t1", n1, '/') + "/*" + zzBlockText(id+"t2", n2, '*') + "*/" + zzBlockText(id+"t3", n3, '*') + "*/"
	}
}

// U1: Tokenize(A ‖ trivia ‖ B) has the kinds and lexemes of Tokenize(A ‖ " " ‖ B), for every
// comment content (all ASCII bytes) and every blankspace / line-break code point.
func ZZ_C19_trivia_invariance() {
	ns := len(zzSides)
	if !zz.Thorough() {
		ns = 6 // quick tier: the six most boundary-sensitive token texts
	}
	a := zzSides[zz.Choice("A", ns)]
	b := zzSides[zz.Choice("B", ns)]
	kind := zz.Choice("kind", 4)
	// a comment cannot directly follow a '/' token: "/" + "/*" reads as the line comment "//*"
	zz.Assume(!(a == "/" && kind != 0))
	g := zzTrivia("g", kind)
	want, err0 := zzLex(a + " " + b)
	zz.Assert(err0 == nil, "reference tokenisation failed")
	got, err := zzLex(a + g + b)
	zz.Assert(err == nil, "tokenisation failed after inserting trivia")
	zz.Assert(zzSameTokens(got, want), "token stream changed by inserting blankspace/comment between two tokens")
	zz.Reach("end")
}

// U1b (thorough): two consecutive trivia items (4 x 4 token texts, variable-length parts of
// each item limited to 0..1 bytes, three blankspace / line-break code points per item).
func ZZ_C19_trivia_pairs_T() {
	zzTriviaShort = true
	a := zzSides[zz.Choice("A", 4)]
	b := zzSides[zz.Choice("B", 4)]
	k1 := zz.Choice("kind1", 4)
	zz.Assume(!(a == "/" && k1 != 0))
	g := zzTrivia("g", k1) + zzTrivia("h", zz.Choice("kind2", 4))
	want, _ := zzLex(a + " " + b)
	got, err := zzLex(a + g + b)
	zz.Assert(err == nil, "tokenisation failed after inserting trivia")
	zz.Assert(zzSameTokens(got, want), "token stream changed by inserting two trivia items between two tokens")
	zz.Reach("end")
}
