//go:build verif

package parser

import (
	zz "github.com/gogpu/naga/internal/zzverif"
)

// Forward references: a function that refers to a module-scope constant declared AFTER it must be
// ordered after that constant, whatever local declarations shadow the name elsewhere in the
// function (WGSL scoping: a local is not in scope in its own initialiser and goes out of scope
// at the end of its block). fn f() { <stmt1>; return U2; }  const g = 1;
//
//	stmt1: let L = U1 | var L = U1 | { let L = 1; }      names L, U1, U2 in {g, x} symbolic.
func ZZ_C08_dependency_order_forward_reference() {
	shape := zz.Choice("stmt1", 3)
	L, U1, U2 := zzNameGX("L"), zzNameGX("U1"), zzNameGX("U2")
	var s1 Stmt
	localVisibleAfter := true
	refInInit := false
	switch shape {
	case 0:
		s1 = &ConstDecl{Name: L, Init: &Ident{Name: U1}}
		refInInit = U1 == "g"
	case 1:
		s1 = &VarDecl{Name: L, Init: &Ident{Name: U1}}
		refInInit = U1 == "g"
	default:
		s1 = &BlockStmt{Statements: []Stmt{&ConstDecl{Name: L, Init: &Literal{Kind: TokenIntLiteral, Value: "1"}}}}
		localVisibleAfter = false
	}
	f := &FunctionDecl{Name: "f", Body: &BlockStmt{Statements: []Stmt{s1, &ReturnStmt{Value: &Ident{Name: U2}}}}}
	g := &ConstDecl{Name: "g", Init: &Literal{Kind: TokenIntLiteral, Value: "1"}, IsConst: true}
	x := &ConstDecl{Name: "x", Init: &Literal{Kind: TokenIntLiteral, Value: "2"}, IsConst: true}
	out := DependencyOrder([]Decl{x, f, g})
	zz.Assert(len(out) == 3, "declarations lost or duplicated")
	idx := func(d Decl) int {
		for i, o := range out {
			if o == d {
				return i
			}
		}
		return -1
	}
	fi, gi, xi := idx(f), idx(g), idx(x)
	zz.Assert(fi >= 0 && gi >= 0 && xi >= 0, "output is not a permutation of the input")
	shadowedAtUse := localVisibleAfter && L == "g"
	dep := refInInit || (U2 == "g" && !shadowedAtUse)
	if dep {
		if refInInit {
			zz.Cell("reference-in-own-initialiser")
		} else if !localVisibleAfter {
			zz.Cell("reference-after-inner-block")
		} else {
			zz.Cell("plain-forward-reference")
		}
		zz.Assert(gi < fi, "a function is ordered before a module-scope constant it refers to (the valid forward reference is then reported as an unresolved identifier)")
	}
	zz.Reach("end")
}

func ZZ_C08_dependency_order_reference_sites() { zzDependencySites() }
