//go:build verif

package parser

import (
	zz "github.com/gogpu/naga/internal/zzverif"
)

func zzNameGX(id string) string {
	s := zz.Str(id, 1)
	zz.Assume(s[0] == 'g' || s[0] == 'x')
	return s
}

// zzRefSites builds a function body in which the identifier `name` occurs at exactly one
// syntactic site (the others use the literal 1).
const zzRefSiteCount = 16

func zzBodyWithRefAt(site int, name string) *BlockStmt {
	lit := func() Expr { return &Literal{Kind: TokenIntLiteral, Value: "1"} }
	at := func(k int) Expr {
		if k == site {
			return &Ident{Name: name}
		}
		return lit()
	}
	eq := func(e Expr) Expr { return &BinaryExpr{Left: e, Op: TokenEqualEqual, Right: lit()} }
	return &BlockStmt{Statements: []Stmt{
		&VarDecl{Name: "v", Init: at(0)},
		&IfStmt{Condition: eq(at(1)), Body: &BlockStmt{Statements: []Stmt{&AssignStmt{Left: &Ident{Name: "v"}, Op: TokenEqual, Right: at(2)}}},
			Else: &BlockStmt{Statements: []Stmt{&ExprStmt{Expr: &CallExpr{Func: &Ident{Name: "abs"}, Args: []Expr{at(3)}}}}}},
		&LoopStmt{
			Body:       &BlockStmt{Statements: []Stmt{&IfStmt{Condition: eq(at(4)), Body: &BlockStmt{Statements: []Stmt{&BreakStmt{}}}}}},
			Continuing: &BlockStmt{Statements: []Stmt{&AssignStmt{Left: &Ident{Name: "v"}, Op: TokenEqual, Right: at(5)}, &BreakIfStmt{Condition: eq(at(6))}}},
		},
		&ForStmt{Init: &VarDecl{Name: "i", Init: at(7)}, Condition: eq(at(8)), Update: &AssignStmt{Left: &Ident{Name: "i"}, Op: TokenEqual, Right: at(9)},
			Body: &BlockStmt{Statements: []Stmt{&AssignStmt{Left: &Ident{Name: "v"}, Op: TokenEqual, Right: at(10)}}}},
		&WhileStmt{Condition: eq(at(11)), Body: &BlockStmt{Statements: []Stmt{&BreakStmt{}}}},
		&SwitchStmt{Selector: at(12), Cases: []*SwitchCaseClause{
			{Selectors: []Expr{at(13)}, Body: &BlockStmt{Statements: []Stmt{&AssignStmt{Left: &Ident{Name: "v"}, Op: TokenEqual, Right: at(14)}}}},
			{IsDefault: true, Body: &BlockStmt{}},
		}},
		&ReturnStmt{Value: &IndexExpr{Expr: &Ident{Name: "arr"}, Index: at(15)}},
	}}
}

// Every syntactic site at which a function body can mention a module-scope name yields a
// dependency: the declaration is ordered before the function (otherwise a valid forward
// reference is rejected as unresolved - C08 - and the checks that need the callee's / the
// constant's declaration are silently skipped - C11). The name is symbolic (g = declared
// after the function, x = declared before it).
func zzDependencySites() {
	site := zz.Choice("site", zzRefSiteCount)
	name := zzNameGX("name")
	kind := zz.Choice("decl-kind", 3) // what g is: const, function, global variable
	zz.Cell("reference-site")
	f := &FunctionDecl{Name: "f", Body: zzBodyWithRefAt(site, name)}
	var g Decl
	switch kind {
	case 0:
		g = &ConstDecl{Name: "g", Init: &Literal{Kind: TokenIntLiteral, Value: "1"}, IsConst: true}
	case 1:
		g = &FunctionDecl{Name: "g", Body: &BlockStmt{}}
	default:
		g = &VarDecl{Name: "g", AddressSpace: "private"}
	}
	x := &ConstDecl{Name: "x", Init: &Literal{Kind: TokenIntLiteral, Value: "2"}, IsConst: true}
	out := DependencyOrder([]Decl{x, f, g})
	zz.Assert(len(out) == 3, "declarations lost or duplicated")
	fi, gi := -1, -1
	for i, o := range out {
		if o == Decl(f) {
			fi = i
		}
		if o == g {
			gi = i
		}
	}
	zz.Assert(fi >= 0 && gi >= 0, "output is not a permutation of the input")
	if name == "g" {
		zz.Assert(gi < fi, "a module-scope declaration mentioned in a function body is ordered after the function (site-dependent dependency loss)")
	}
	zz.Reach("end")
}
