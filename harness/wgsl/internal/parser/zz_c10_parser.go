//go:build verif

package parser

import (
	zz "github.com/gogpu/naga/internal/zzverif"
)

var zzStmtKinds = []TokenKind{TokenIdent, TokenIntLiteral, TokenPlus, TokenLess, TokenGreater, TokenGreaterGreater,
	TokenLeftParen, TokenRightParen, TokenLeftBracket, TokenComma, TokenSemicolon, TokenRightBrace, TokenLeftBrace,
	TokenVar, TokenIf, TokenEqual, TokenDot, TokenReturn, TokenLoop, TokenSwitch, TokenCase, TokenColon, TokenAmpersand, TokenStar}

var zzDeclKinds = []TokenKind{TokenIdent, TokenIntLiteral, TokenLess, TokenGreater, TokenLeftParen, TokenRightParen,
	TokenComma, TokenSemicolon, TokenRightBrace, TokenLeftBrace, TokenVar, TokenFn, TokenStruct, TokenConst, TokenAt,
	TokenColon, TokenEqual, TokenArrow, TokenAlias, TokenOverride, TokenF32, TokenVec3, TokenArray}

// zzSymTokens returns k tokens whose kinds are symbolic members of the given set.
func zzSymTokens(name string, k int, set []TokenKind) []Token {
	toks := make([]Token, k)
	for i := range toks {
		kd := TokenKind(zz.U8(name + string(rune('0'+i))))
		in := false
		for _, s := range set {
			in = in || kd == s
		}
		zz.Assume(in)
		toks[i] = Token{Kind: kd, Lexeme: "x", Line: 1, Column: 10 + i}
	}
	return toks
}

func zzTok(k TokenKind, lex string) Token { return Token{Kind: k, Lexeme: lex, Line: 1, Column: 1} }

// U2a: the statement/expression parser on `fn f() { <K arbitrary tokens> EOF`: no panic,
// terminates within the unwinding bound, returns a module or an error.
func ZZ_C10_parser_statement_tokens() {
	k := 3
	if zz.Thorough() {
		k = 4
	}
	toks := []Token{zzTok(TokenFn, "fn"), zzTok(TokenIdent, "f"), zzTok(TokenLeftParen, "("), zzTok(TokenRightParen, ")"), zzTok(TokenLeftBrace, "{")}
	toks = append(toks, zzSymTokens("k", k, zzStmtKinds)...)
	toks = append(toks, zzTok(TokenEOF, ""))
	zz.Unwind(64)
	m, err := NewParser(toks).Parse()
	zz.Assert(m != nil || err != nil, "parser returned neither a module nor an error")
	zz.Reach("end")
}

// U2b: the declaration parser on K arbitrary tokens at module scope.
func ZZ_C10_parser_declaration_tokens() {
	k := 3
	if zz.Thorough() {
		k = 4
	}
	toks := zzSymTokens("k", k, zzDeclKinds)
	toks = append(toks, zzTok(TokenEOF, ""))
	zz.Unwind(64)
	m, err := NewParser(toks).Parse()
	zz.Assert(m != nil || err != nil, "parser returned neither a module nor an error")
	zz.Reach("end")
}
