//go:build verif

package lower

import (
	"github.com/gogpu/naga/internal/registry"
	"github.com/gogpu/naga/ir"
	"github.com/gogpu/naga/wgsl/internal/parser"
)

// ---- WGSL reference semantics (written from the WGSL specification, §8 Expressions) ----

type zzStatus int

const (
	zzOK      zzStatus = iota // value defined
	zzErr                     // shader-creation error in a const-expression
	zzNoClaim                 // the reference makes no claim (anything accepted)
)

// zzRefI32 evaluates `a op b` on i32 with WGSL *run-time* semantics (which is what a folded
// value must equal). Division by zero and MIN/-1 are errors when constant, and have defined
// run-time results (x/0 = x, MIN/-1 = MIN, x%0 = 0, MIN%-1 = 0): a folder may decline or
// produce the run-time value, it must never produce anything else.
func zzRefI32(op ir.BinaryOperator, a, b int32) (val int32, isBool, bval bool, st zzStatus) {
	switch op {
	case ir.BinaryAdd:
		return a + b, false, false, zzOK
	case ir.BinarySubtract:
		return a - b, false, false, zzOK
	case ir.BinaryMultiply:
		return a * b, false, false, zzOK
	case ir.BinaryDivide:
		if b == 0 {
			return a, false, false, zzErr
		}
		if a == -2147483648 && b == -1 {
			return a, false, false, zzErr
		}
		return a / b, false, false, zzOK
	case ir.BinaryModulo:
		if b == 0 {
			return 0, false, false, zzErr
		}
		if a == -2147483648 && b == -1 {
			return 0, false, false, zzErr
		}
		return a % b, false, false, zzOK
	case ir.BinaryAnd:
		return a & b, false, false, zzOK
	case ir.BinaryInclusiveOr:
		return a | b, false, false, zzOK
	case ir.BinaryExclusiveOr:
		return a ^ b, false, false, zzOK
	case ir.BinaryEqual:
		return 0, true, a == b, zzOK
	case ir.BinaryNotEqual:
		return 0, true, a != b, zzOK
	case ir.BinaryLess:
		return 0, true, a < b, zzOK
	case ir.BinaryLessEqual:
		return 0, true, a <= b, zzOK
	case ir.BinaryGreater:
		return 0, true, a > b, zzOK
	case ir.BinaryGreaterEqual:
		return 0, true, a >= b, zzOK
	}
	return 0, false, false, zzNoClaim
}

func zzRefU32(op ir.BinaryOperator, a, b uint32) (val uint32, isBool, bval bool, st zzStatus) {
	switch op {
	case ir.BinaryAdd:
		return a + b, false, false, zzOK
	case ir.BinarySubtract:
		return a - b, false, false, zzOK
	case ir.BinaryMultiply:
		return a * b, false, false, zzOK
	case ir.BinaryDivide:
		if b == 0 {
			return a, false, false, zzErr
		}
		return a / b, false, false, zzOK
	case ir.BinaryModulo:
		if b == 0 {
			return 0, false, false, zzErr
		}
		return a % b, false, false, zzOK
	case ir.BinaryAnd:
		return a & b, false, false, zzOK
	case ir.BinaryInclusiveOr:
		return a | b, false, false, zzOK
	case ir.BinaryExclusiveOr:
		return a ^ b, false, false, zzOK
	case ir.BinaryEqual:
		return 0, true, a == b, zzOK
	case ir.BinaryNotEqual:
		return 0, true, a != b, zzOK
	case ir.BinaryLess:
		return 0, true, a < b, zzOK
	case ir.BinaryLessEqual:
		return 0, true, a <= b, zzOK
	case ir.BinaryGreater:
		return 0, true, a > b, zzOK
	case ir.BinaryGreaterEqual:
		return 0, true, a >= b, zzOK
	}
	return 0, false, false, zzNoClaim
}

// zzRefF32 evaluates the correctly rounded f32 operators. Like naga the reference computes in
// binary64 and rounds once to binary32; for + - * / on binary32 operands this equals the
// directly rounded binary32 result (Figueroa 1995: p=53 >= 2*24+2), listed as an assumption.
func zzRefF32(op ir.BinaryOperator, a, b float32) (val float32, isBool, bval bool, st zzStatus) {
	switch op {
	case ir.BinaryAdd:
		return float32(float64(a) + float64(b)), false, false, zzOK
	case ir.BinarySubtract:
		return float32(float64(a) - float64(b)), false, false, zzOK
	case ir.BinaryMultiply:
		return float32(float64(a) * float64(b)), false, false, zzOK
	case ir.BinaryDivide:
		if b == 0 {
			return 0, false, false, zzErr
		}
		return float32(float64(a) / float64(b)), false, false, zzOK
	case ir.BinaryEqual:
		return 0, true, a == b, zzOK
	case ir.BinaryNotEqual:
		return 0, true, a != b, zzOK
	case ir.BinaryLess:
		return 0, true, a < b, zzOK
	case ir.BinaryLessEqual:
		return 0, true, a <= b, zzOK
	case ir.BinaryGreater:
		return 0, true, a > b, zzOK
	case ir.BinaryGreaterEqual:
		return 0, true, a >= b, zzOK
	}
	return 0, false, false, zzNoClaim
}

// zzNewLowerer builds a Lowerer with an empty module and an open function, as
// LowerWithSource does before it lowers a function body.
func zzNewLowerer() *Lowerer {
	mod := &ir.Module{}
	l := &Lowerer{
		module:            mod,
		registry:          registry.NewTypeRegistryWithCap(16),
		types:             make(map[string]ir.TypeHandle, 16),
		globals:           make(map[string]ir.GlobalVariableHandle, 8),
		locals:            make(map[string]ir.ExpressionHandle, 16),
		moduleConstants:   make(map[string]ir.ConstantHandle, 16),
		moduleOverrides:   make(map[string]ir.OverrideHandle, 8),
		inlineConstants:   make(map[string]ir.LiteralValue, 32),
		abstractConstants: make(map[string]*abstractConstInfo, 4),
		functions:         make(map[string]ir.FunctionHandle, 4),
		entryPointFuncs:   make(map[string]bool, 4),
		funcMustUse:       make(map[string]bool, 4),
		localDecls:        make(map[string]parser.Span, 16),
		usedLocals:        make(map[string]bool, 16),
		localConsts:       make(map[string]bool, 4),
		localIsVar:        make(map[string]bool, 16),
		localIsPtr:        make(map[string]bool, 4),
		localAbstractASTs: make(map[string]parser.Expr, 4),
	}
	l.registerBuiltinTypes()
	l.currentFunc = &ir.Function{Name: "zz"}
	return l
}

func (l *Lowerer) zzLit(v ir.LiteralValue) ir.ExpressionHandle {
	return l.addExpressionRaw(ir.Expression{Kind: ir.Literal{Value: v}})
}

func (l *Lowerer) zzLitAt(h ir.ExpressionHandle) (ir.LiteralValue, bool) {
	if int(h) >= len(l.currentFunc.Expressions) {
		return nil, false
	}
	lit, ok := l.currentFunc.Expressions[h].Kind.(ir.Literal)
	return lit.Value, ok
}
