//go:build verif

package lower

import (
	zz "github.com/gogpu/naga/internal/zzverif"
	"github.com/gogpu/naga/ir"
	"github.com/gogpu/naga/wgsl/internal/parser"
)

// Shadowing: a name bound in a nested scope replaces the outer binding while the scope is
// open, and the outer binding is what the name means again once the scope has closed.
//
// The harness drives the real lowerLocalVar / lowerLocalConst / pushScope / popScope /
// lowerExpression on declarations whose NAMES are symbolic bytes (the solver decides whether
// the inner name equals the outer one) and whose kinds range over var, let, pointer-let,
// abstract const and typed const. What a use of the name lowers to is classified as
//   zzUseVar  k : Load(LocalVariable k)        zzUsePtr k : LocalVariable k (no load)
//   zzUseLit  v : literal with integer value v
// and compared with the class the declaration kind prescribes.

const (
	zzKindVar = iota
	zzKindLet
	zzKindPtrLet
	zzKindConstAbstract
	zzKindConstTyped
	zzKinds
)

const (
	zzUseOther = iota
	zzUseVar
	zzUsePtr
	zzUseLit
)

func zzIntLitExpr(s string) parser.Expr {
	return &parser.Literal{Kind: parser.TokenIntLiteral, Value: s}
}

// zzDeclStmt builds one local declaration of the given kind. val is the literal text, ptrTo
// the variable a pointer-let points to.
func zzDeclStmt(kind int, name, val, ptrTo string) parser.Stmt {
	switch kind {
	case zzKindVar:
		return &parser.VarDecl{Name: name, Init: zzIntLitExpr(val)}
	case zzKindLet:
		return &parser.ConstDecl{Name: name, Init: zzIntLitExpr(val)}
	case zzKindPtrLet:
		return &parser.ConstDecl{Name: name, Init: &parser.UnaryExpr{Op: parser.TokenAmpersand, Operand: &parser.Ident{Name: ptrTo}}}
	case zzKindConstAbstract:
		return &parser.ConstDecl{Name: name, Init: zzIntLitExpr(val), IsConst: true}
	}
	return &parser.ConstDecl{Name: name, Type: &parser.NamedType{Name: "i32"}, Init: zzIntLitExpr(val), IsConst: true}
}

// zzDeclare lowers one local declaration of the given kind and returns the expected class
// of a later use.
func (l *Lowerer) zzDeclare(kind int, name, val string, ival int64, ptrTo string, ptrIdx uint32, body *[]ir.Statement) (class int, payload int64, err error) {
	idx := int64(len(l.currentFunc.LocalVars))
	err = l.lowerStatement(zzDeclStmt(kind, name, val, ptrTo), body)
	switch kind {
	case zzKindVar:
		return zzUseVar, idx, err
	case zzKindPtrLet:
		return zzUsePtr, int64(ptrIdx), err
	}
	return zzUseLit, ival, err
}

// zzUse lowers a use of name as a value or (for pointer lets) pointer and classifies it.
func (l *Lowerer) zzUse(name string, body *[]ir.Statement) (class int, payload int64, err error) {
	l.currentEmitTarget = body
	h, err := l.lowerExpression(&parser.Ident{Name: name}, body)
	if err != nil {
		return zzUseOther, 0, err
	}
	if int(h) >= len(l.currentFunc.Expressions) {
		return zzUseOther, -1, nil
	}
	switch k := l.currentFunc.Expressions[h].Kind.(type) {
	case ir.ExprLoad:
		if lv, ok := l.currentFunc.Expressions[k.Pointer].Kind.(ir.ExprLocalVariable); ok {
			return zzUseVar, int64(lv.Variable), nil
		}
	case ir.ExprLocalVariable:
		return zzUsePtr, int64(k.Variable), nil
	case ir.Literal:
		switch v := k.Value.(type) {
		case ir.LiteralI32:
			return zzUseLit, int64(v), nil
		case ir.LiteralU32:
			return zzUseLit, int64(v), nil
		case ir.LiteralAbstractInt:
			return zzUseLit, int64(v), nil
		case ir.LiteralI64:
			return zzUseLit, int64(v), nil
		}
	}
	return zzUseOther, -2, nil
}

func zzKindName(k int) string {
	switch k {
	case zzKindVar:
		return "var"
	case zzKindLet:
		return "let"
	case zzKindPtrLet:
		return "ptrlet"
	case zzKindConstAbstract:
		return "const"
	}
	return "typedconst"
}

func zzScopeShadowing(exact bool) {
	l := zzNewLowerer()
	l.currentFunc.NamedExpressions = map[ir.ExpressionHandle]string{}
	l.nonConstExprs = map[ir.ExpressionHandle]bool{}
	var body []ir.Statement
	// two pointer targets (local variables 0 and 1)
	if err := l.lowerStatement(&parser.VarDecl{Name: "zbase1", Init: zzIntLitExpr("1")}, &body); err != nil {
		zz.Fail("prelude rejected")
	}
	if err := l.lowerStatement(&parser.VarDecl{Name: "zbase2", Init: zzIntLitExpr("2")}, &body); err != nil {
		zz.Fail("prelude rejected")
	}
	outer := zz.Str("outer-name", 1)
	inner := zz.Str("inner-name", 1)
	zz.Assume(outer[0] >= 'a' && outer[0] <= 'z')
	zz.Assume(inner[0] >= 'a' && inner[0] <= 'z')
	ko := zz.Choice("outer-kind", zzKinds)
	ki := zz.Choice("inner-kind", zzKinds+1) // zzKinds: `const <outer> = <outer> + 1;` (refers to the outer binding)
	depth := zz.Choice("extra-nesting", 2)   // the inner declaration sits 1 or 2 scopes deep
	outerIsConst := ko == zzKindConstAbstract || ko == zzKindConstTyped
	// a const that depends on the outer name, declared right after it (const kinds only)
	dependent := outerIsConst && zz.Flag("dependent-const")
	selfRef := ki == zzKinds
	if selfRef {
		zz.Assume(outerIsConst)
		inner = outer
	}
	innerName := "self-referencing-const"
	if !selfRef {
		innerName = zzKindName(ki)
	}
	cell := zzKindName(ko) + "-shadowed-by-" + innerName
	if dependent {
		cell += "-with-dependent-const"
	}
	zz.Cell(cell)
	zz.Bounded(40_000_000, 250, "lowering of a shadowing declaration does not terminate (stack overflow in Lower)")

	oc, op, err := l.zzDeclare(ko, outer, "11", 11, "zbase1", 0, &body)
	zz.Assert(err == nil, "valid outer declaration rejected")
	c, p, err := l.zzUse(outer, &body)
	zz.Assert(err == nil && c == oc && p == op, "use after declaration does not resolve to the declaration")
	if dependent {
		dep := &parser.ConstDecl{Name: "zdep", IsConst: true, Init: &parser.BinaryExpr{Left: &parser.Ident{Name: outer}, Op: parser.TokenPlus, Right: zzIntLitExpr("1")}}
		zz.Assert(l.lowerStatement(dep, &body) == nil, "valid dependent const rejected")
	}
	checkDep := func(where string, target *[]ir.Statement) {
		if !dependent {
			return
		}
		c, p, err := l.zzUse("zdep", target)
		zz.Assert(err == nil, "use of the dependent const rejected "+where)
		if err == nil {
			zz.Assert(c == zzUseLit, "the dependent const is no longer a constant value "+where+" (its initializer was re-resolved against a shadowing binding)")
			if exact {
				zz.Assert(c != zzUseLit || p == 12, "the dependent const changes its value "+where+" (its initializer was re-resolved against a shadowing binding)")
			}
		}
	}
	checkDep("before the inner scope", &body)

	l.pushScope()
	var blk []ir.Statement
	if depth == 1 {
		l.pushScope()
	}
	var ic int
	var ip int64
	if selfRef {
		ic, ip = zzUseLit, 12
		self := &parser.ConstDecl{Name: inner, IsConst: true, Init: &parser.BinaryExpr{Left: &parser.Ident{Name: outer}, Op: parser.TokenPlus, Right: zzIntLitExpr("1")}}
		err = l.lowerStatement(self, &blk)
	} else {
		ic, ip, err = l.zzDeclare(ki, inner, "22", 22, "zbase2", 1, &blk)
	}
	zz.Assert(err == nil, "valid inner declaration rejected")
	c, p, err = l.zzUse(inner, &blk)
	zz.Assert(err == nil, "use of the inner binding rejected")
	if err == nil {
		zz.Assert(c == ic, "inside the scope the name keeps the outer binding's kind (pointer/variable/value confusion: backends reject the module)")
		if exact {
			zz.Assert(c != ic || p == ip, "inside the scope the name does not resolve to the inner binding")
		}
	}
	checkDep("inside the inner scope", &blk)
	if depth == 1 {
		l.popScope()
	}
	l.popScope()

	c, p, err = l.zzUse(outer, &body)
	zz.Assert(err == nil, "use of the outer binding after the scope rejected")
	if err == nil {
		zz.Assert(c == oc, "after the scope the name keeps the inner binding's kind (pointer/variable/value confusion: backends reject the module)")
		if exact {
			zz.Assert(c != oc || p == op, "after the scope the name does not resolve to the outer binding again")
		}
	}
	checkDep("after the inner scope", &body)
	zz.Bounded(0, 0, "")
	zz.Reach("end")
}
