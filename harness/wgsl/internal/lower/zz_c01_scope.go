//go:build verif

package lower

// C01: a use of a name means the binding in scope (which variable, which constant value): a
// stale side table makes the compiler read a different value than WGSL prescribes.
func ZZ_C01_scope_resolution() { zzScopeShadowing(true) }
