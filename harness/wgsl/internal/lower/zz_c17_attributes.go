//go:build verif

package lower

import (
	"strconv"

	zz "github.com/gogpu/naga/internal/zzverif"
	"github.com/gogpu/naga/wgsl/internal/parser"
)

// The resource binding recorded in the IR is exactly (@group, @binding) of the declaration,
// for every attribute ORDER, every group/binding value and with unrelated attributes in
// between (C17). The numbers are symbolic: their decimal renderings are numeral atoms that the
// lowerer parses back.
func ZZ_C17_resource_attribute_order() {
	l := zzNewLowerer()
	g := zz.U32("group")
	b := zz.U32("binding")
	zz.Assume(g < 100000 && b < 100000)
	// the literal may carry a type suffix (WGSL: `3`, `3u`, `3i` all denote 3)
	suffix := []string{"", "u", "i"}[zz.Choice("literal-suffix", 3)]
	ga := parser.Attribute{Name: "group", Args: []parser.Expr{&parser.Literal{Kind: parser.TokenIntLiteral, Value: strconv.FormatUint(uint64(g), 10) + suffix}}}
	ba := parser.Attribute{Name: "binding", Args: []parser.Expr{&parser.Literal{Kind: parser.TokenIntLiteral, Value: strconv.FormatUint(uint64(b), 10) + suffix}}}
	var attrs []parser.Attribute
	switch zz.Choice("order", 2) {
	case 0:
		attrs = []parser.Attribute{ga, ba}
		zz.Cell("group-then-binding" + suffix)
	default:
		attrs = []parser.Attribute{ba, ga}
		zz.Cell("binding-then-group" + suffix)
	}
	kind := zz.Choice("resource", 3)
	v := &parser.VarDecl{Name: "res", Attributes: attrs}
	switch kind {
	case 0:
		v.AddressSpace, v.AccessMode = "storage", "read_write"
		v.Type = &parser.ArrayType{Element: &parser.NamedType{Name: "u32"}, Size: &parser.Literal{Kind: parser.TokenIntLiteral, Value: "4"}}
	case 1:
		v.AddressSpace = "uniform"
		v.Type = &parser.NamedType{Name: "vec4", TypeParams: []parser.Type{&parser.NamedType{Name: "f32"}}}
	default:
		v.Type = &parser.NamedType{Name: "sampler"}
	}
	err := l.lowerGlobalVar(v)
	zz.Assert(err == nil, "valid resource declaration rejected")
	if err == nil {
		zz.Assert(len(l.module.GlobalVariables) == 1, "no global variable recorded")
		if len(l.module.GlobalVariables) == 1 {
			rb := l.module.GlobalVariables[0].Binding
			zz.Assert(rb != nil, "resource binding lost")
			if rb != nil {
				zz.Assert(rb.Group == g && rb.Binding == b, "the recorded resource binding differs from the declared @group/@binding")
			}
		}
	}
	zz.Reach("end")
}
