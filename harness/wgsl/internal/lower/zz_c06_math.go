//go:build verif

package lower

import (
	"github.com/gogpu/naga/internal/zztpl"
	zz "github.com/gogpu/naga/internal/zzverif"
	"github.com/gogpu/naga/ir"
)

// C06 for the folders of builtin calls, unary operators and conversions on integer literals:
// whatever (*Lowerer).tryFoldScalarMath / tryFoldUnaryOp / tryFoldAs substitute must be the
// value the WGSL run-time definition gives for the same operands (declining is accepted).
// Every operand value is symbolic.

var zzIntMath = []ir.MathFunction{ir.MathAbs, ir.MathMin, ir.MathMax, ir.MathClamp, ir.MathCountOneBits, ir.MathReverseBits,
	ir.MathCountLeadingZeros, ir.MathCountTrailingZeros, ir.MathFirstTrailingBit, ir.MathFirstLeadingBit, ir.MathSign}

var zzIntMathNames = []string{"abs", "min", "max", "clamp", "countOneBits", "reverseBits", "countLeadingZeros", "countTrailingZeros",
	"firstTrailingBit", "firstLeadingBit", "sign"}

func zzMinI(a, b int32) int32 {
	if b < a {
		return b
	}
	return a
}
func zzMaxI(a, b int32) int32 {
	if b > a {
		return b
	}
	return a
}
func zzMinU(a, b uint32) uint32 {
	if b < a {
		return b
	}
	return a
}
func zzMaxU(a, b uint32) uint32 {
	if b > a {
		return b
	}
	return a
}

func ZZ_C06_tryFoldScalarMath_i32() {
	fi := zz.Choice("fun", len(zzIntMath))
	f := zzIntMath[fi]
	zz.Cell(zzIntMathNames[fi])
	a, b, c := zz.I32("a"), zz.I32("b"), zz.I32("c")
	l := zzNewLowerer()
	ha, hb, hc := l.zzLit(ir.LiteralI32(a)), l.zzLit(ir.LiteralI32(b)), l.zzLit(ir.LiteralI32(c))
	var h ir.ExpressionHandle
	var ok bool
	switch f {
	case ir.MathMin, ir.MathMax:
		h, ok = l.tryFoldScalarMath(f, ha, &hb, nil)
	case ir.MathClamp:
		h, ok = l.tryFoldScalarMath(f, ha, &hb, &hc)
	default:
		h, ok = l.tryFoldScalarMath(f, ha, nil, nil)
	}
	if ok {
		got, isLit := l.zzLitAt(h)
		zz.Assert(isLit, "fold result is not a literal")
		u := uint32(a)
		var want int32
		switch f {
		case ir.MathAbs:
			want = a
			if a < 0 {
				want = -a
			}
		case ir.MathSign:
			if a > 0 {
				want = 1
			} else if a < 0 {
				want = -1
			}
		case ir.MathMin:
			want = zzMinI(a, b)
		case ir.MathMax:
			want = zzMaxI(a, b)
		case ir.MathClamp:
			want = zzMinI(zzMaxI(a, b), c)
		case ir.MathCountOneBits:
			want = int32(zztpl.RefPopc(u))
		case ir.MathReverseBits:
			want = int32(zztpl.RefRev(u))
		case ir.MathCountLeadingZeros:
			want = int32(zztpl.RefClz(u))
		case ir.MathCountTrailingZeros:
			want = int32(zztpl.RefCtz(u))
		case ir.MathFirstTrailingBit:
			want = -1
			if u != 0 {
				want = int32(zztpl.RefCtz(u))
			}
		case ir.MathFirstLeadingBit:
			v := u
			if a < 0 {
				v = ^u
			}
			want = -1
			if v != 0 {
				want = int32(31 - zztpl.RefClz(v))
			}
		}
		zz.Assert(got == ir.LiteralValue(ir.LiteralI32(want)), "i32 builtin folded to a value different from run-time evaluation")
	}
	zz.Reach("end")
}

func ZZ_C06_tryFoldScalarMath_u32() {
	fi := zz.Choice("fun", len(zzIntMath)-1) // sign is not defined for u32
	f := zzIntMath[fi]
	zz.Cell(zzIntMathNames[fi])
	a, b, c := zz.U32("a"), zz.U32("b"), zz.U32("c")
	l := zzNewLowerer()
	ha, hb, hc := l.zzLit(ir.LiteralU32(a)), l.zzLit(ir.LiteralU32(b)), l.zzLit(ir.LiteralU32(c))
	var h ir.ExpressionHandle
	var ok bool
	switch f {
	case ir.MathMin, ir.MathMax:
		h, ok = l.tryFoldScalarMath(f, ha, &hb, nil)
	case ir.MathClamp:
		h, ok = l.tryFoldScalarMath(f, ha, &hb, &hc)
	default:
		h, ok = l.tryFoldScalarMath(f, ha, nil, nil)
	}
	if ok {
		got, isLit := l.zzLitAt(h)
		zz.Assert(isLit, "fold result is not a literal")
		var want uint32
		switch f {
		case ir.MathAbs:
			want = a
		case ir.MathMin:
			want = zzMinU(a, b)
		case ir.MathMax:
			want = zzMaxU(a, b)
		case ir.MathClamp:
			want = zzMinU(zzMaxU(a, b), c)
		case ir.MathCountOneBits:
			want = uint32(zztpl.RefPopc(a))
		case ir.MathReverseBits:
			want = zztpl.RefRev(a)
		case ir.MathCountLeadingZeros:
			want = uint32(zztpl.RefClz(a))
		case ir.MathCountTrailingZeros:
			want = uint32(zztpl.RefCtz(a))
		case ir.MathFirstTrailingBit:
			want = 0xFFFFFFFF
			if a != 0 {
				want = uint32(zztpl.RefCtz(a))
			}
		case ir.MathFirstLeadingBit:
			want = 0xFFFFFFFF
			if a != 0 {
				want = uint32(31 - zztpl.RefClz(a))
			}
		}
		zz.Assert(got == ir.LiteralValue(ir.LiteralU32(want)), "u32 builtin folded to a value different from run-time evaluation")
	}
	zz.Reach("end")
}

// Unary operators on i32 / u32 / bool literals.
func ZZ_C06_tryFoldUnaryOp() {
	ops := []ir.UnaryOperator{ir.UnaryNegate, ir.UnaryBitwiseNot, ir.UnaryLogicalNot}
	op := ops[zz.Choice("op", len(ops))]
	kind := zz.Choice("kind", 3)
	l := zzNewLowerer()
	switch kind {
	case 0:
		a := zz.I32("a")
		h, ok := l.tryFoldUnaryOp(op, l.zzLit(ir.LiteralI32(a)))
		if ok {
			got, _ := l.zzLitAt(h)
			switch op {
			case ir.UnaryNegate:
				zz.Assert(got == ir.LiteralValue(ir.LiteralI32(-a)), "-i32 folded wrongly")
			case ir.UnaryBitwiseNot:
				zz.Assert(got == ir.LiteralValue(ir.LiteralI32(^a)), "~i32 folded wrongly")
			default:
				zz.Fail("logical not of an i32 folded")
			}
		}
	case 1:
		a := zz.U32("a")
		h, ok := l.tryFoldUnaryOp(op, l.zzLit(ir.LiteralU32(a)))
		if ok {
			got, _ := l.zzLitAt(h)
			switch op {
			case ir.UnaryBitwiseNot:
				zz.Assert(got == ir.LiteralValue(ir.LiteralU32(^a)), "~u32 folded wrongly")
			case ir.UnaryNegate:
				// WGSL has no unary minus on u32; a fold must at least be the wrapped value
				zz.Assert(got == ir.LiteralValue(ir.LiteralU32(-a)), "-u32 folded to a value that is not the two's complement")
			default:
				zz.Fail("logical not of a u32 folded")
			}
		}
	default:
		a := zz.Flag("a")
		h, ok := l.tryFoldUnaryOp(op, l.zzLit(ir.LiteralBool(a)))
		if ok {
			got, _ := l.zzLitAt(h)
			zz.Assert(op == ir.UnaryLogicalNot && got == ir.LiteralValue(ir.LiteralBool(!a)), "!bool folded wrongly")
		}
	}
	zz.Reach("end")
}

// Value conversions between i32, u32 and bool: T(e).
func ZZ_C06_tryFoldAs_integers() {
	src := zz.Choice("from", 3) // i32 u32 bool
	dst := zz.Choice("to", 2)   // i32 u32
	l := zzNewLowerer()
	var h ir.ExpressionHandle
	var bits uint32
	switch src {
	case 0:
		a := zz.I32("a")
		bits = uint32(a)
		h = l.zzLit(ir.LiteralI32(a))
	case 1:
		a := zz.U32("a")
		bits = a
		h = l.zzLit(ir.LiteralU32(a))
	default:
		a := zz.Flag("a")
		if a {
			bits = 1
		}
		h = l.zzLit(ir.LiteralBool(a))
	}
	kind := ir.ScalarSint
	if dst == 1 {
		kind = ir.ScalarUint
	}
	r, ok := l.tryFoldAs(h, kind, 4, true)
	if ok {
		got, _ := l.zzLitAt(r)
		if dst == 0 {
			zz.Assert(got == ir.LiteralValue(ir.LiteralI32(int32(bits))), "conversion to i32 folded to a value other than the reinterpreted bits")
		} else {
			zz.Assert(got == ir.LiteralValue(ir.LiteralU32(bits)), "conversion to u32 folded to a value other than the reinterpreted bits")
		}
	}
	zz.Reach("end")
}
