//go:build verif

package lower

import (
	zz "github.com/gogpu/naga/internal/zzverif"
	"github.com/gogpu/naga/ir"
	"github.com/gogpu/naga/wgsl/internal/parser"
)

// zzSwizzleIndex is written without early returns so that the engine folds it into terms
// instead of forking (the reference must not multiply the paths of the implementation).
func zzSwizzleIndex(c byte) (idx int, ns int) {
	idx = -1
	if c == 'x' || c == 'r' {
		idx = 0
	}
	if c == 'y' || c == 'g' {
		idx = 1
	}
	if c == 'z' || c == 'b' {
		idx = 2
	}
	if c == 'w' || c == 'a' {
		idx = 3
	}
	if c == 'x' || c == 'y' || c == 'z' || c == 'w' {
		ns = 1
	}
	if c == 'r' || c == 'g' || c == 'b' || c == 'a' {
		ns = 2
	}
	return idx, ns
}

// Rule: a swizzle that mixes xyzw/rgba, names a component beyond the vector width, contains
// another character or has more than 4 letters is rejected; every other 2..4-letter swizzle is
// accepted with the right pattern. All member strings of length 1..5 (arbitrary bytes) x vec2-4.
func ZZ_C11_swizzle() {
	n := zz.Choice("len", 5) + 1
	member := zz.Str("m", n)
	vs := ir.VectorSize(zz.Choice("vec", 3) + 2)
	// reference validity
	valid := n >= 2 && n <= 4
	firstNs := 0
	var want [4]int
	for i := 0; i < n; i++ {
		idx, ns := zzSwizzleIndex(member[i])
		if i == 0 {
			firstNs = ns
		}
		if ns == 0 || ns != firstNs || idx >= int(vs) {
			valid = false
		}
		if i < 4 {
			want[i] = idx
		}
	}
	l := zzNewLowerer()
	size, pat, err := l.swizzlePattern(member, vs)
	if valid {
		zz.Assert(err == nil, "valid swizzle rejected")
		if err == nil {
			zz.Assert(int(size) == n, "swizzle result size")
			for i := 0; i < n; i++ {
				zz.Assert(int(pat[i]) == want[i], "swizzle pattern component")
			}
		}
	} else {
		zz.Assert(err != nil, "invalid swizzle accepted (mixed namespaces, component beyond the vector width, bad letter or length)")
	}
	zz.Reach("end")
}

func zzConstModule(l *Lowerer, unsigned bool, names ...string) {
	kind := ir.ScalarSint
	if unsigned {
		kind = ir.ScalarUint
	}
	for _, name := range names {
		var bits uint64
		if unsigned {
			bits = uint64(zz.U32(name))
		} else {
			bits = uint64(int64(zz.I32(name)))
		}
		l.module.Constants = append(l.module.Constants, ir.Constant{Name: name, Value: ir.ScalarValue{Bits: bits, Kind: kind}})
		l.moduleConstants[name] = ir.ConstantHandle(len(l.module.Constants) - 1)
	}
}

// Rule: constant division / remainder by zero is an error, at any nesting position, and is not
// reported when the divisor is non-zero.
func ZZ_C11_const_division_by_zero() {
	unsigned := zz.Flag("unsigned")
	rem := zz.Flag("rem")
	site := zz.Choice("site", 3) // 0: a/b ; 1: (a/b)+c ; 2: c-(a/b)
	l := zzNewLowerer()
	zzConstModule(l, unsigned, "a", "b", "c")
	op := parser.TokenSlash
	if rem {
		op = parser.TokenPercent
	}
	id := func(n string) parser.Expr { return &parser.Ident{Name: n} }
	var e parser.Expr = &parser.BinaryExpr{Op: op, Left: id("a"), Right: id("b")}
	switch site {
	case 1:
		e = &parser.BinaryExpr{Op: parser.TokenPlus, Left: e, Right: id("c")}
	case 2:
		e = &parser.BinaryExpr{Op: parser.TokenMinus, Left: id("c"), Right: e}
	}
	_, _, err := l.evalConstantIntExpr(e)
	bv := l.module.Constants[l.moduleConstants["b"]].Value.(ir.ScalarValue).Bits
	if bv == 0 {
		zz.Assert(err != nil, "constant division by zero accepted")
	} else {
		zz.Assert(err == nil, "constant division by a non-zero value rejected")
	}
	zz.Reach("end")
}

// Rule: const_assert over an integer comparison fails exactly when the comparison is false
// (i32 and u32 operands, all six comparison operators, optionally negated / conjoined).
func ZZ_C11_const_assert() {
	unsigned := zz.Flag("unsigned")
	ops := []parser.TokenKind{parser.TokenEqualEqual, parser.TokenBangEqual, parser.TokenLess, parser.TokenLessEqual, parser.TokenGreater, parser.TokenGreaterEqual}
	oi := zz.Choice("op", len(ops))
	form := zz.Choice("form", 3) // 0: a op b ; 1: !(a op b) ; 2: (a op b) && true
	l := zzNewLowerer()
	zzConstModule(l, unsigned, "a", "b")
	id := func(n string) parser.Expr { return &parser.Ident{Name: n} }
	var cond parser.Expr = &parser.BinaryExpr{Op: ops[oi], Left: id("a"), Right: id("b")}
	switch form {
	case 1:
		cond = &parser.UnaryExpr{Op: parser.TokenBang, Operand: cond}
	case 2:
		cond = &parser.BinaryExpr{Op: parser.TokenAmpAmp, Left: cond, Right: &parser.Literal{Kind: parser.TokenTrue, Value: "true"}}
	}
	err := l.evalConstAssert(cond)
	av := l.module.Constants[0].Value.(ir.ScalarValue).Bits
	bv := l.module.Constants[1].Value.(ir.ScalarValue).Bits
	var truth bool
	if unsigned {
		x, y := uint32(av), uint32(bv)
		truth = [...]bool{x == y, x != y, x < y, x <= y, x > y, x >= y}[oi]
	} else {
		x, y := int32(av), int32(bv)
		truth = [...]bool{x == y, x != y, x < y, x <= y, x > y, x >= y}[oi]
	}
	if form == 1 {
		truth = !truth
	}
	if truth {
		zz.Assert(err == nil, "true const_assert rejected")
	} else {
		zz.Assert(err != nil, "false const_assert accepted")
	}
	zz.Reach("end")
}
