//go:build verif

package lower

// C08: the kind of binding a name resolves to (variable / pointer / value) is the one in
// scope; a confusion makes the back ends reject a valid program.
func ZZ_C08_scope_shadowing() { zzScopeShadowing(false) }
