//go:build verif

package lower

import (
	zz "github.com/gogpu/naga/internal/zzverif"
	"github.com/gogpu/naga/ir"
	"github.com/gogpu/naga/wgsl/internal/parser"
)

// zzUseStmt builds a statement that uses `name` at one of the syntactic sites the rule
// "use of an undeclared identifier is rejected" must cover.
func zzUseStmt(site int, name string) parser.Stmt {
	id := &parser.Ident{Name: name}
	switch site {
	case 0: // value of a return statement
		return &parser.ReturnStmt{Value: id}
	case 1: // initialiser of a var
		return &parser.VarDecl{Name: "zt", Init: id}
	case 2: // operand inside a nested block
		return &parser.BlockStmt{Statements: []parser.Stmt{&parser.ConstDecl{Name: "zt", Init: &parser.BinaryExpr{Left: id, Op: parser.TokenPlus, Right: zzIntLitExpr("1")}}}}
	case 3: // initialiser of a const (constant context)
		return &parser.ConstDecl{Name: "zt", Init: id, IsConst: true}
	case 4: // left side of an assignment (reference context)
		return &parser.AssignStmt{Left: id, Op: parser.TokenEqual, Right: zzIntLitExpr("1")}
	case 5: // condition of an if
		return &parser.IfStmt{Condition: &parser.BinaryExpr{Left: id, Op: parser.TokenEqualEqual, Right: zzIntLitExpr("1")}, Body: &parser.BlockStmt{}}
	}
	// argument of a builtin call
	return &parser.VarDecl{Name: "zt", Init: &parser.CallExpr{Func: &parser.Ident{Name: "abs"}, Args: []parser.Expr{id}}}
}

const zzUseSites = 7

// Rule "undeclared identifier": a name declared (with any declaration kind) only in an
// EARLIER function is undeclared in the next function, at every use site. Names are symbolic
// bytes; the solver decides whether they coincide.
func ZZ_C11_undeclared_across_functions() {
	l := zzNewLowerer()
	declName := zz.Str("decl-name", 1)
	useName := zz.Str("use-name", 1)
	zz.Assume(declName[0] >= 'a' && declName[0] <= 'z')
	zz.Assume(useName[0] >= 'a' && useName[0] <= 'z')
	kind := zz.Choice("decl-kind", zzKinds)
	site := zz.Choice("use-site", zzUseSites)
	zz.Cell(zzKindName(kind) + "-then-use-in-next-function")
	f1 := &parser.FunctionDecl{Name: "zf1", Body: &parser.BlockStmt{Statements: []parser.Stmt{
		&parser.VarDecl{Name: "zbase1", Init: zzIntLitExpr("1")},
		zzDeclStmt(kind, declName, "11", "zbase1"),
	}}}
	f2 := &parser.FunctionDecl{Name: "zf2", Body: &parser.BlockStmt{Statements: []parser.Stmt{zzUseStmt(site, useName)}}}
	zz.Assert(l.lowerFunction(f1) == nil, "valid first function rejected")
	err := l.lowerFunction(f2)
	zz.Assert(err != nil, "use of an undeclared identifier accepted: the binding of the previous function is still visible")
	zz.Reach("end")
}

// Rule "undeclared identifier": a name declared only inside a nested block is undeclared
// after the block, at every use site and for every declaration kind.
func ZZ_C11_undeclared_after_block() {
	l := zzNewLowerer()
	l.currentFunc.NamedExpressions = map[ir.ExpressionHandle]string{}
	l.nonConstExprs = map[ir.ExpressionHandle]bool{}
	declName := zz.Str("decl-name", 1)
	useName := zz.Str("use-name", 1)
	zz.Assume(declName[0] >= 'a' && declName[0] <= 'z')
	zz.Assume(useName[0] >= 'a' && useName[0] <= 'z')
	kind := zz.Choice("decl-kind", zzKinds)
	site := zz.Choice("use-site", zzUseSites)
	zz.Cell(zzKindName(kind) + "-in-block-then-use-after")
	var body []ir.Statement
	zz.Assert(l.lowerStatement(&parser.VarDecl{Name: "zbase1", Init: zzIntLitExpr("1")}, &body) == nil, "prelude rejected")
	blk := &parser.BlockStmt{Statements: []parser.Stmt{zzDeclStmt(kind, declName, "11", "zbase1")}}
	zz.Assert(l.lowerStatement(blk, &body) == nil, "valid block rejected")
	l.currentEmitTarget = &body
	err := l.lowerStatement(zzUseStmt(site, useName), &body)
	zz.Assert(err != nil, "use of an undeclared identifier accepted: a binding of a closed block is still visible")
	zz.Reach("end")
}
