//go:build verif

package lower

import (
	"fmt"

	zz "github.com/gogpu/naga/internal/zzverif"
	"github.com/gogpu/naga/ir"
	"github.com/gogpu/naga/wgsl/internal/parser"
)

// WGSL §13.4.1 alignment and size table (AlignOf, SizeOf) for host-shareable leaf types.
type zzLeaf struct {
	name   string
	params []string
	align  uint32
	size   uint32
}

var zzLeaves = []zzLeaf{
	{"f32", nil, 4, 4}, {"i32", nil, 4, 4}, {"u32", nil, 4, 4}, {"f16", nil, 2, 2},
	{"vec2", []string{"f32"}, 8, 8}, {"vec3", []string{"f32"}, 16, 12}, {"vec4", []string{"f32"}, 16, 16},
	{"vec2", []string{"f16"}, 4, 4}, {"vec3", []string{"f16"}, 8, 6}, {"vec4", []string{"f16"}, 8, 8},
	{"vec3", []string{"u32"}, 16, 12},
	{"mat2x2", []string{"f32"}, 8, 16}, {"mat2x3", []string{"f32"}, 16, 32}, {"mat2x4", []string{"f32"}, 16, 32},
	{"mat3x2", []string{"f32"}, 8, 24}, {"mat3x3", []string{"f32"}, 16, 48}, {"mat3x4", []string{"f32"}, 16, 48},
	{"mat4x2", []string{"f32"}, 8, 32}, {"mat4x3", []string{"f32"}, 16, 64}, {"mat4x4", []string{"f32"}, 16, 64},
	{"mat3x3", []string{"f16"}, 8, 24},
	{"atomic", []string{"u32"}, 4, 4},
}

func zzNamed(name string, params ...string) parser.Type {
	t := &parser.NamedType{Name: name}
	for _, p := range params {
		t.TypeParams = append(t.TypeParams, &parser.NamedType{Name: p})
	}
	return t
}

func (lf zzLeaf) ast() parser.Type { return zzNamed(lf.name, lf.params...) }

func zzRoundUpPow2(sh uint32, n uint32) uint32 { return ((n + (1 << sh) - 1) >> sh) << sh }

func zzRoundUp(k, n uint32) uint32 { return (n + k - 1) / k * k }

// zzLitSuffix is the type suffix given to the attribute literals of the current path ("", "u"
// or "i": WGSL accepts all three spellings of the same number).
var zzLitSuffix string

func zzIntLit(v uint32) parser.Expr {
	return &parser.Literal{Kind: parser.TokenIntLiteral, Value: fmt.Sprintf("%d", v) + zzLitSuffix}
}

func zzLog2(a uint32) uint32 {
	var s uint32
	for a > 1 {
		a >>= 1
		s++
	}
	return s
}

// U1a: struct S { @align(A0) @size(Z0) m0: T0, @align(A1) @size(Z1) m1: T1, m2: f32 }
// for every pair of leaf types and EVERY permitted attribute value
// (A = 2^k >= AlignOf(T), k <= 8; SizeOf(T) <= Z <= 65536): member offsets, struct size and
// struct alignment equal the WGSL layout rules.
func ZZ_C07_struct_attrs() {
	zzLitSuffix = []string{"", "u", "i"}[zz.Choice("literal-suffix", 3)]
	n := len(zzLeaves)
	if !zz.Thorough() {
		n = 11 // quick tier: scalars and vectors; matrices and atomics in the thorough tier
	}
	t0 := zzLeaves[zz.Choice("t0", n)]
	t1 := zzLeaves[zz.Choice("t1", n)]
	k0, k1 := uint32(zz.U8("alignLog0")), uint32(zz.U8("alignLog1"))
	zz.Assume(k0 <= 8 && k1 <= 8)
	a0, a1 := uint32(1)<<k0, uint32(1)<<k1
	zz.Assume(a0 >= t0.align && a1 >= t1.align)
	z0, z1 := zz.U32("size0"), zz.U32("size1")
	zz.Assume(z0 >= t0.size && z0 <= 65536 && z1 >= t1.size && z1 <= 65536)

	l := zzNewLowerer()
	decl := &parser.StructDecl{Name: "S", Members: []*parser.StructMember{
		{Name: "m0", Type: t0.ast(), Attributes: []parser.Attribute{
			{Name: "align", Args: []parser.Expr{zzIntLit(a0)}}, {Name: "size", Args: []parser.Expr{zzIntLit(z0)}}}},
		{Name: "m1", Type: t1.ast(), Attributes: []parser.Attribute{
			{Name: "size", Args: []parser.Expr{zzIntLit(z1)}}, {Name: "align", Args: []parser.Expr{zzIntLit(a1)}}}},
		{Name: "m2", Type: zzNamed("f32")},
	}}
	err := l.lowerStruct(decl)
	zz.Assert(err == nil, "lowerStruct failed on a valid struct")
	if err != nil {
		zz.Reach("end")
		return
	}
	h, ok := l.types["S"]
	zz.Assert(ok, "struct not registered")
	st, isStruct := l.module.Types[h].Inner.(ir.StructType)
	zz.Assert(isStruct && len(st.Members) == 3, "not a 3-member struct")
	// reference layout
	off0 := uint32(0)
	off1 := zzRoundUpPow2(k1, off0+z0)
	off2 := zzRoundUp(4, off1+z1)
	kS := k0
	if k1 > kS {
		kS = k1
	}
	if kS < 2 {
		kS = 2
	}
	span := zzRoundUpPow2(kS, off2+4)
	zz.Assert(st.Members[0].Offset == off0, "offset of member 0")
	zz.Assert(st.Members[1].Offset == off1, "offset of member 1 differs from roundUp(AlignOfMember, offset+SizeOfMember)")
	zz.Assert(st.Members[2].Offset == off2, "offset of member 2 differs from the WGSL rule")
	zz.Assert(st.Span == span, "struct size differs from roundUp(AlignOf(S), justPastLastMember)")
	zz.Assert(ir.TypeSize(l.module, h) == span, "ir.TypeSize of the struct")
	zz.Cell("struct-align")
	al, sz := l.typeAlignmentAndSize(h)
	zz.Assert(sz == span, "typeAlignmentAndSize: size of the struct")
	zz.Assert(al == uint32(1)<<kS, "AlignOf(S) must be the maximum member alignment including @align")
	zz.Reach("end")
}

// U1b: natural layout (no attributes) of leaf types and arrays of them, and array stride.
func ZZ_C07_leaf_and_array() {
	t := zzLeaves[zz.Choice("t", len(zzLeaves))]
	cnt := uint32(zz.Choice("count", 4) + 1)
	l := zzNewLowerer()
	h, err := l.resolveType(t.ast())
	zz.Assert(err == nil, "leaf type does not resolve")
	if err == nil {
		al, sz := l.typeAlignmentAndSize(h)
		zz.Assert(al == t.align && sz == t.size, "AlignOf/SizeOf of a leaf type differ from the WGSL table")
		zz.Assert(ir.TypeSize(l.module, h) == t.size, "ir.TypeSize of a leaf type")
	}
	ah, err := l.resolveType(&parser.ArrayType{Element: t.ast(), Size: &parser.Literal{Kind: parser.TokenIntLiteral, Value: fmt.Sprintf("%d", cnt)}})
	zz.Assert(err == nil, "array type does not resolve")
	if err == nil {
		at, isArr := l.module.Types[ah].Inner.(ir.ArrayType)
		zz.Assert(isArr, "not an array type")
		stride := zzRoundUp(t.align, t.size)
		zz.Assert(at.Stride == stride, "array stride differs from roundUp(AlignOf(E), SizeOf(E))")
		al, sz := l.typeAlignmentAndSize(ah)
		zz.Assert(al == t.align && sz == cnt*stride, "AlignOf/SizeOf of array<E,N>")
		zz.Assert(ir.TypeSize(l.module, ah) == cnt*stride, "ir.TypeSize of array<E,N>")
	}
	zz.Reach("end")
}

// U1c: a struct with an @align'ed member nested in another struct and used as an array element:
// the outer offsets must honour AlignOf(inner) = max member alignment INCLUDING @align.
func ZZ_C07_nested_struct() {
	k := uint32(zz.U8("alignLog"))
	zz.Assume(k >= 2 && k <= 8)
	a := uint32(1) << k
	l := zzNewLowerer()
	inner := &parser.StructDecl{Name: "In", Members: []*parser.StructMember{
		{Name: "a", Type: zzNamed("f32"), Attributes: []parser.Attribute{{Name: "align", Args: []parser.Expr{zzIntLit(a)}}}},
		{Name: "b", Type: zzNamed("f32")},
	}}
	zz.Assert(l.lowerStruct(inner) == nil, "inner struct")
	outer := &parser.StructDecl{Name: "Out", Members: []*parser.StructMember{
		{Name: "x", Type: zzNamed("f32")},
		{Name: "inner", Type: zzNamed("In")},
		{Name: "y", Type: zzNamed("f32")},
	}}
	zz.Assert(l.lowerStruct(outer) == nil, "outer struct")
	hi, ho := l.types["In"], l.types["Out"]
	si := l.module.Types[hi].Inner.(ir.StructType)
	so := l.module.Types[ho].Inner.(ir.StructType)
	innerSize := zzRoundUpPow2(k, 8)
	zz.Assert(si.Span == innerSize, "size of the inner struct")
	zz.Cell("nested-struct-member-align")
	innerOff := zzRoundUpPow2(k, 4)
	yOff := innerOff + innerSize
	zz.Assert(so.Members[1].Offset == innerOff, "nested struct must be placed at a multiple of its alignment (which includes @align of its members)")
	zz.Assert(so.Members[2].Offset == yOff, "member after the nested struct")
	zz.Assert(so.Span == zzRoundUpPow2(k, yOff+4), "size of the outer struct")
	zz.Reach("end")
}
