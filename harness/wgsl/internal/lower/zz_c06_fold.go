//go:build verif

package lower

import (
	zz "github.com/gogpu/naga/internal/zzverif"
	"github.com/gogpu/naga/ir"
)

const zzNumBinOps = 18 // ir.BinaryAdd .. ir.BinaryShiftRight

func zzCheckI32(got ir.LiteralValue, op ir.BinaryOperator, a, b int32, what string) {
	val, isBool, bval, st := zzRefI32(op, a, b)
	switch st {
	case zzOK, zzErr:
		// zzErr: the folder should have declined; producing the run-time value is tolerated,
		// any other value is a substituted wrong constant.
		if isBool {
			zz.Assert(got == ir.LiteralValue(ir.LiteralBool(bval)), what+": i32 comparison folded to the wrong value")
		} else {
			zz.Assert(got == ir.LiteralValue(ir.LiteralI32(val)), what+": i32 operator folded to a value different from run-time evaluation")
		}
	}
}

func zzCheckU32(got ir.LiteralValue, op ir.BinaryOperator, a, b uint32, what string) {
	val, isBool, bval, st := zzRefU32(op, a, b)
	switch st {
	case zzOK, zzErr:
		if isBool {
			zz.Assert(got == ir.LiteralValue(ir.LiteralBool(bval)), what+": u32 comparison folded to the wrong value")
		} else {
			zz.Assert(got == ir.LiteralValue(ir.LiteralU32(val)), what+": u32 operator folded to a value different from run-time evaluation")
		}
	}
}

func zzSameF32(got ir.LiteralValue, want float32) bool {
	g, ok := got.(ir.LiteralF32)
	if !ok {
		return false
	}
	return zz.Same(float32(g), want) // bit identity up to NaN payload
}

func zzCheckF32(got ir.LiteralValue, op ir.BinaryOperator, a, b float32, what string) {
	val, isBool, bval, st := zzRefF32(op, a, b)
	if st != zzOK {
		return
	}
	if isBool {
		zz.Assert(got == ir.LiteralValue(ir.LiteralBool(bval)), what+": f32 comparison folded to the wrong value")
	} else {
		zz.Assert(zzSameF32(got, val), what+": f32 operator folded to a value different from correctly rounded evaluation")
	}
}

// U1: foldBinaryLiterals, the free function used by the AST-level folder.
func ZZ_C06_foldBinaryLiterals_i32() {
	op := ir.BinaryOperator(zz.Choice("op", zzNumBinOps))
	a, b := zz.I32("a"), zz.I32("b")
	got, ok := foldBinaryLiterals(op, ir.LiteralI32(a), ir.LiteralI32(b))
	if ok {
		zzCheckI32(got, op, a, b, "foldBinaryLiterals")
	}
	zz.Reach("end")
}

func ZZ_C06_foldBinaryLiterals_u32() {
	op := ir.BinaryOperator(zz.Choice("op", zzNumBinOps))
	a, b := zz.U32("a"), zz.U32("b")
	if op == ir.BinaryShiftLeft || op == ir.BinaryShiftRight {
		// shifts by >= 32 are a shader-creation error in WGSL and are handled in ZZ_C06_shift*
		zz.Assume(b < 32)
	}
	got, ok := foldBinaryLiterals(op, ir.LiteralU32(a), ir.LiteralU32(b))
	if ok {
		switch op {
		case ir.BinaryShiftLeft:
			zz.Assert(got == ir.LiteralValue(ir.LiteralU32(a<<b)), "u32 << folded wrongly")
		case ir.BinaryShiftRight:
			zz.Assert(got == ir.LiteralValue(ir.LiteralU32(a>>b)), "u32 >> folded wrongly")
		default:
			zzCheckU32(got, op, a, b, "foldBinaryLiterals")
		}
	}
	zz.Reach("end")
}

func ZZ_C06_foldBinaryLiterals_f32() {
	op := ir.BinaryOperator(zz.Choice("op", zzNumBinOps))
	a, b := zz.F32("a"), zz.F32("b")
	// IR float literals are never NaN or infinite (documented on ir.LiteralF32)
	zz.Assume(a == a && b == b && a-a == 0 && b-b == 0)
	got, ok := foldBinaryLiterals(op, ir.LiteralF32(a), ir.LiteralF32(b))
	if ok {
		zzCheckF32(got, op, a, b, "foldBinaryLiterals")
	}
	zz.Reach("end")
}

func ZZ_C06_foldBinaryLiterals_bool() {
	op := ir.BinaryOperator(zz.Choice("op", zzNumBinOps))
	a, b := zz.Bool("a"), zz.Bool("b")
	got, ok := foldBinaryLiterals(op, ir.LiteralBool(a), ir.LiteralBool(b))
	if ok {
		switch op {
		case ir.BinaryEqual:
			zz.Assert(got == ir.LiteralValue(ir.LiteralBool(a == b)), "bool ==")
		case ir.BinaryNotEqual:
			zz.Assert(got == ir.LiteralValue(ir.LiteralBool(a != b)), "bool !=")
		case ir.BinaryAnd, ir.BinaryLogicalAnd:
			zz.Assert(got == ir.LiteralValue(ir.LiteralBool(a && b)), "bool and")
		case ir.BinaryInclusiveOr, ir.BinaryLogicalOr:
			zz.Assert(got == ir.LiteralValue(ir.LiteralBool(a || b)), "bool or")
		default:
			zz.Fail("bool operands folded under an operator WGSL does not define on bool")
		}
	}
	zz.Reach("end")
}

// Shifts with a u32 shift amount below the bit width (the in-range domain).
func ZZ_C06_foldBinaryLiterals_shift_i32() {
	left := zz.Bool("left")
	a := zz.I32("a")
	s := zz.U32("s")
	zz.Assume(s < 32)
	op := ir.BinaryShiftRight
	if left {
		op = ir.BinaryShiftLeft
	}
	got, ok := foldBinaryLiterals(op, ir.LiteralI32(a), ir.LiteralU32(s))
	if ok {
		if left {
			zz.Assert(got == ir.LiteralValue(ir.LiteralI32(a<<s)), "i32 << folded wrongly")
		} else {
			zz.Assert(got == ir.LiteralValue(ir.LiteralI32(a>>s)), "i32 >> folded wrongly")
		}
	}
	zz.Reach("end")
}

// U2: the Lowerer-level scalar folder used for IR expressions.
func ZZ_C06_tryFoldBinaryOp_i32() {
	op := ir.BinaryOperator(zz.Choice("op", zzNumBinOps))
	a, b := zz.I32("a"), zz.I32("b")
	if op == ir.BinaryShiftLeft || op == ir.BinaryShiftRight {
		zz.Assume(b >= 0 && b < 32)
	}
	l := zzNewLowerer()
	h, ok := l.tryFoldBinaryOp(op, l.zzLit(ir.LiteralI32(a)), l.zzLit(ir.LiteralI32(b)))
	if ok {
		got, isLit := l.zzLitAt(h)
		zz.Assert(isLit, "fold result is not a literal")
		switch op {
		case ir.BinaryShiftLeft:
			zz.Assert(got == ir.LiteralValue(ir.LiteralI32(a<<uint32(b))), "i32 << folded wrongly")
		case ir.BinaryShiftRight:
			zz.Assert(got == ir.LiteralValue(ir.LiteralI32(a>>uint32(b))), "i32 >> folded wrongly")
		default:
			zzCheckI32(got, op, a, b, "tryFoldBinaryOp")
		}
	}
	zz.Reach("end")
}

func ZZ_C06_tryFoldBinaryOp_u32() {
	op := ir.BinaryOperator(zz.Choice("op", zzNumBinOps))
	a, b := zz.U32("a"), zz.U32("b")
	if op == ir.BinaryShiftLeft || op == ir.BinaryShiftRight {
		zz.Assume(b < 32)
	}
	l := zzNewLowerer()
	h, ok := l.tryFoldBinaryOp(op, l.zzLit(ir.LiteralU32(a)), l.zzLit(ir.LiteralU32(b)))
	if ok {
		got, isLit := l.zzLitAt(h)
		zz.Assert(isLit, "fold result is not a literal")
		switch op {
		case ir.BinaryShiftLeft:
			zz.Assert(got == ir.LiteralValue(ir.LiteralU32(a<<b)), "u32 << folded wrongly")
		case ir.BinaryShiftRight:
			zz.Assert(got == ir.LiteralValue(ir.LiteralU32(a>>b)), "u32 >> folded wrongly")
		default:
			zzCheckU32(got, op, a, b, "tryFoldBinaryOp")
		}
	}
	zz.Reach("end")
}

func ZZ_C06_tryFoldBinaryOp_f32() {
	op := ir.BinaryOperator(zz.Choice("op", zzNumBinOps))
	a, b := zz.F32("a"), zz.F32("b")
	zz.Assume(a == a && b == b && a-a == 0 && b-b == 0)
	l := zzNewLowerer()
	h, ok := l.tryFoldBinaryOp(op, l.zzLit(ir.LiteralF32(a)), l.zzLit(ir.LiteralF32(b)))
	if ok {
		got, isLit := l.zzLitAt(h)
		zz.Assert(isLit, "fold result is not a literal")
		zzCheckF32(got, op, a, b, "tryFoldBinaryOp")
	}
	zz.Reach("end")
}

// U2: vector folds: Compose op Compose, Compose op scalar, scalar op Compose (i32, vec2).
func ZZ_C06_tryFoldVectorBinaryOp_i32() {
	op := ir.BinaryOperator(zz.Choice("op", zzNumBinOps))
	shape := zz.Choice("shape", 3) // 0: v op v, 1: v op s, 2: s op v
	a0, a1 := zz.I32("a0"), zz.I32("a1")
	b0, b1 := zz.I32("b0"), zz.I32("b1")
	if op == ir.BinaryShiftLeft || op == ir.BinaryShiftRight {
		zz.Assume(b0 >= 0 && b0 < 32 && b1 >= 0 && b1 < 32)
	}
	l := zzNewLowerer()
	vt := l.registerType("", ir.VectorType{Size: 2, Scalar: ir.ScalarType{Kind: ir.ScalarSint, Width: 4}})
	mkVec := func(x, y int32) ir.ExpressionHandle {
		c0, c1 := l.zzLit(ir.LiteralI32(x)), l.zzLit(ir.LiteralI32(y))
		return l.addExpressionRaw(ir.Expression{Kind: ir.ExprCompose{Type: vt, Components: []ir.ExpressionHandle{c0, c1}}})
	}
	var lh, rh ir.ExpressionHandle
	var la, lb, ra, rb int32
	switch shape {
	case 0:
		lh, rh = mkVec(a0, a1), mkVec(b0, b1)
		la, lb, ra, rb = a0, a1, b0, b1
	case 1:
		lh, rh = mkVec(a0, a1), l.zzLit(ir.LiteralI32(b0))
		la, lb, ra, rb = a0, a1, b0, b0
	default:
		lh, rh = l.zzLit(ir.LiteralI32(a0)), mkVec(b0, b1)
		la, lb, ra, rb = a0, a0, b0, b1
	}
	h, ok := l.tryFoldVectorBinaryOp(op, lh, rh)
	if ok {
		c, isC := l.currentFunc.Expressions[h].Kind.(ir.ExprCompose)
		zz.Assert(isC && len(c.Components) == 2, "vector fold result is not a 2-component Compose")
		if isC && len(c.Components) == 2 {
			g0, ok0 := l.zzLitAt(c.Components[0])
			g1, ok1 := l.zzLitAt(c.Components[1])
			zz.Assert(ok0 && ok1, "vector fold components are not literals")
			if op == ir.BinaryShiftLeft {
				zz.Assert(g0 == ir.LiteralValue(ir.LiteralI32(la<<uint32(ra))) && g1 == ir.LiteralValue(ir.LiteralI32(lb<<uint32(rb))), "vector << folded wrongly")
			} else if op == ir.BinaryShiftRight {
				zz.Assert(g0 == ir.LiteralValue(ir.LiteralI32(la>>uint32(ra))) && g1 == ir.LiteralValue(ir.LiteralI32(lb>>uint32(rb))), "vector >> folded wrongly")
			} else {
				zzCheckI32(g0, op, la, ra, "tryFoldVectorBinaryOp[0]")
				zzCheckI32(g1, op, lb, rb, "tryFoldVectorBinaryOp[1]")
			}
		}
	}
	zz.Reach("end")
}
