//go:build verif

package lower

import (
	zz "github.com/gogpu/naga/internal/zzverif"
	"github.com/gogpu/naga/ir"
)

// C06-U1: foldBinaryLiterals on i32 × i32 operands, all operators, all values.
// Oracle: WGSL run-time semantics of the operator on i32 (wrap-around add/sub/mul,
// truncating division with the WGSL results for /0 and MIN/-1, bitwise ops,
// comparisons). Declining to fold is always acceptable.
func ZZ_C06_foldBinary_i32() {
	opn := zz.Choice("op", 18)
	op := ir.BinaryOperator(opn)
	a, b := zz.I32("a"), zz.I32("b")
	got, ok := foldBinaryLiterals(op, ir.LiteralI32(a), ir.LiteralI32(b))
	if ok {
		switch op {
		case ir.BinaryAdd:
			zz.Assert(got == ir.LiteralValue(ir.LiteralI32(a+b)), "i32 add")
		case ir.BinarySubtract:
			zz.Assert(got == ir.LiteralValue(ir.LiteralI32(a-b)), "i32 sub")
		case ir.BinaryMultiply:
			zz.Assert(got == ir.LiteralValue(ir.LiteralI32(a*b)), "i32 mul")
		case ir.BinaryDivide:
			zz.Assert(b != 0, "i32 div by zero folded")
			if b != 0 {
				want := a
				if !(a == -2147483648 && b == -1) {
					want = a / b
				}
				zz.Assert(got == ir.LiteralValue(ir.LiteralI32(want)), "i32 div")
			}
		case ir.BinaryModulo:
			zz.Assert(b != 0, "i32 mod by zero folded")
			if b != 0 {
				want := int32(0)
				if !(a == -2147483648 && b == -1) {
					want = a % b
				}
				zz.Assert(got == ir.LiteralValue(ir.LiteralI32(want)), "i32 mod")
			}
		case ir.BinaryAnd:
			zz.Assert(got == ir.LiteralValue(ir.LiteralI32(a&b)), "i32 and")
		case ir.BinaryInclusiveOr:
			zz.Assert(got == ir.LiteralValue(ir.LiteralI32(a|b)), "i32 or")
		case ir.BinaryExclusiveOr:
			zz.Assert(got == ir.LiteralValue(ir.LiteralI32(a^b)), "i32 xor")
		case ir.BinaryEqual:
			zz.Assert(got == ir.LiteralValue(ir.LiteralBool(a == b)), "i32 eq")
		case ir.BinaryNotEqual:
			zz.Assert(got == ir.LiteralValue(ir.LiteralBool(a != b)), "i32 ne")
		case ir.BinaryLess:
			zz.Assert(got == ir.LiteralValue(ir.LiteralBool(a < b)), "i32 lt")
		case ir.BinaryLessEqual:
			zz.Assert(got == ir.LiteralValue(ir.LiteralBool(a <= b)), "i32 le")
		case ir.BinaryGreater:
			zz.Assert(got == ir.LiteralValue(ir.LiteralBool(a > b)), "i32 gt")
		case ir.BinaryGreaterEqual:
			zz.Assert(got == ir.LiteralValue(ir.LiteralBool(a >= b)), "i32 ge")
		}
	}
	zz.Reach("end")
}
