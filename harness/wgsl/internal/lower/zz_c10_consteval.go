//go:build verif

package lower

import (
	zz "github.com/gogpu/naga/internal/zzverif"
	"github.com/gogpu/naga/ir"
	"github.com/gogpu/naga/wgsl/internal/parser"
)

var zzConstOps = []parser.TokenKind{parser.TokenPlus, parser.TokenMinus, parser.TokenStar, parser.TokenSlash, parser.TokenPercent,
	parser.TokenLessLess, parser.TokenGreaterGreater, parser.TokenAmpersand, parser.TokenPipe, parser.TokenCaret}

// U3: the AST-level constant integer evaluator (array sizes, switch selectors, workgroup sizes,
// const_assert) on `(a op1 b) op2 c` and `a op2 (b op1 c)` over named constants of type u32 or
// i32 with arbitrary values: never panics (e.g. integer divide by zero after an unwrapped shift
// or multiply), always returns a value or an ordinary error.
func ZZ_C10_const_int_expr() {
	unsigned := zz.Flag("unsigned")
	op1 := zzConstOps[zz.Choice("op1", len(zzConstOps))]
	op2 := zzConstOps[zz.Choice("op2", len(zzConstOps))]
	rightNested := zz.Flag("rightNested")
	l := zzNewLowerer()
	kind := ir.ScalarSint
	if unsigned {
		kind = ir.ScalarUint
	}
	for _, name := range []string{"a", "b", "c"} {
		var bits uint64
		if unsigned {
			bits = uint64(zz.U32(name))
		} else {
			bits = uint64(int64(zz.I32(name)))
		}
		l.module.Constants = append(l.module.Constants, ir.Constant{Name: name, Value: ir.ScalarValue{Bits: bits, Kind: kind}})
		l.moduleConstants[name] = ir.ConstantHandle(len(l.module.Constants) - 1)
	}
	id := func(n string) parser.Expr { return &parser.Ident{Name: n} }
	var e parser.Expr
	if rightNested {
		e = &parser.BinaryExpr{Op: op2, Left: id("a"), Right: &parser.BinaryExpr{Op: op1, Left: id("b"), Right: id("c")}}
	} else {
		e = &parser.BinaryExpr{Op: op2, Left: &parser.BinaryExpr{Op: op1, Left: id("a"), Right: id("b")}, Right: id("c")}
	}
	_, _, err := l.evalConstantIntExpr(e)
	_ = err
	_, _ = l.tryEvalConstantUint(e)
	zz.Reach("end")
}
