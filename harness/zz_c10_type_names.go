//go:build verif

package naga

import (
	zz "github.com/gogpu/naga/internal/zzverif"
)

// Parameterised type names with every kind of parameter: `var q: NAME<PARAM>;` at function and
// at module scope, for type generators spelled correctly and almost correctly and parameters
// that are scalars, structs, vectors, arrays, atomics or missing. The front end must return a
// module or an ordinary error - it never panics (unchecked type assertions on the component
// type, indexing past the end of a short type name).
var zzTypeGenerators = []string{"vec2", "vec3", "vec4", "mat2x2", "mat3x4", "mat4x4", "mat2", "mat", "mat22", "mat9x9", "matrix", "vec", "vec5",
	"array", "atomic", "ptr", "texture_2d", "texture_storage_2d", "binding_array", "sampler"}
var zzTypeParams = []string{"<f32>", "<i32>", "<bool>", "<ZS>", "<vec2<f32>>", "<array<f32, 2>>", "<atomic<u32>>", "<>", "", "<f32, 2>", "<function, f32>", "<rgba8unorm, write>", "<ZNope>"}

func ZZ_C10_parameterized_type_names() {
	g := zzTypeGenerators[zz.Choice("generator", len(zzTypeGenerators))]
	p := zzTypeParams[zz.Choice("parameter", len(zzTypeParams))]
	scope := zz.Choice("scope", 3)
	zz.Cell(g + p)
	ty := g + p
	src := "struct ZS { a: f32 }\n"
	switch scope {
	case 0:
		src += "@compute @workgroup_size(1) fn main() { var q: " + ty + "; }\n"
	case 1:
		src += "var<private> q: " + ty + ";\n@compute @workgroup_size(1) fn main() { }\n"
	default:
		src += "fn f(q: " + ty + ") { }\n@compute @workgroup_size(1) fn main() { }\n"
	}
	zz.Bounded(4000000, 400, "front end on a parameterised type name")
	ast, err := Parse(src)
	if err == nil {
		mod, lerr := LowerWithSource(ast, src)
		if lerr == nil && mod != nil {
			_, _ = Validate(mod)
		}
	}
	zz.Reach("end")
}
