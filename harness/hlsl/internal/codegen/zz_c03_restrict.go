//go:build verif

package codegen

// With RestrictIndexing the emitted `m[min(uint(i), K)]` must use K = columns-1 for a matrix,
// otherwise in-range column indices are redirected (semantics) or out-of-range ones pass.
func ZZ_C03_hlsl_restrict_bound() { zzRestrictBoundBody() }
