//go:build verif

package codegen

import (
	zz "github.com/gogpu/naga/internal/zzverif"
)

// A reference list of words that are certainly reserved in HLSL (keywords, types, intrinsics
// that naga emits unqualified) - compiled from the HLSL reference, independent of keywords.go.
var zzHLSLReserved = []string{"if", "do", "for", "int", "out", "in", "half", "bool", "uint", "void", "case", "else", "true",
	"float", "break", "while", "const", "false", "min", "max", "abs", "dot", "mul", "pow", "exp", "log", "sin", "cos",
	"tan", "all", "any", "lerp", "step", "sign", "frac", "ceil", "line", "point", "register", "return", "struct", "switch",
	"static", "inline", "double", "matrix", "vector", "string", "sampler", "texture", "cbuffer", "discard", "default",
	"continue", "groupshared", "float4", "int2", "uint3", "float4x4", "asm", "NULL", "this", "auto", "char", "long", "enum", "class", "goto"}

func zzIsIdent(s string) bool {
	if len(s) == 0 {
		return false
	}
	ok := true
	for i := 0; i < len(s); i++ {
		c := s[i]
		letter := (c >= 'a' && c <= 'z') || (c >= 'A' && c <= 'Z') || c == '_'
		digit := c >= '0' && c <= '9'
		if !(letter || (digit && i > 0)) {
			ok = false
		}
	}
	return ok
}

// zzLabel returns a symbolic label of length n that is a WGSL identifier over ASCII
// ([A-Za-z_][A-Za-z0-9_]*, not "_", not starting with "__"); n == 0 gives the empty label
// (anonymous entity).
func zzLabel(name string, n int) string {
	s := zz.Str(name, n)
	for i := 0; i < n; i++ {
		c := s[i]
		letter := (c >= 'a' && c <= 'z') || (c >= 'A' && c <= 'Z') || c == '_'
		digit := c >= '0' && c <= '9'
		zz.Assume(letter || (digit && i > 0))
	}
	if n == 1 {
		zz.Assume(s[0] != '_')
	}
	if n >= 2 {
		zz.Assume(!(s[0] == '_' && s[1] == '_'))
	}
	return s
}

func zzCheckName(got string, what string) {
	zz.Assert(zzIsIdent(got), what+": not a legal HLSL identifier")
	for _, kw := range zzHLSLReserved {
		zz.Assert(got != kw, what+": emitted name is a reserved HLSL word")
	}
	zz.Assert(got != NagaDivFunction && got != NagaModFunction && got != NagaAbsFunction && got != NagaNegFunction &&
		got != NagaF2I32Function && got != NagaF2U32Function, what+": emitted name equals a naga helper name")
}

// U1: two user labels (every ASCII content of length 0..3 / 0..2) named in one scope get
// distinct, legal, non-reserved spellings.
func ZZ_C16_hlsl_namer_pair() {
	n1 := zz.Choice("len1", 4)
	n2 := zz.Choice("len2", 3)
	l1, l2 := zzLabel("a", n1), zzLabel("b", n2)
	nm := newNamer()
	r1 := nm.call(l1)
	r2 := nm.call(l2)
	zzCheckName(r1, "first name")
	zzCheckName(r2, "second name")
	zz.Assert(r1 != r2, "two entities in one scope received the same spelling")
	zz.Reach("end")
}

// U1b: the trailing-underscore / trailing-digit family: labels over the alphabet {a, 1, _}
// up to length 4, three calls in one scope (x, y, x again): all spellings distinct.
func ZZ_C16_hlsl_namer_suffix_family() {
	mk := func(name string, n int) string {
		s := zz.Str(name, n)
		for i := 0; i < n; i++ {
			zz.Assume(s[i] == 'a' || (s[i] == '1' && i > 0) || s[i] == '_')
		}
		if n == 1 {
			zz.Assume(s[0] != '_')
		}
		if n >= 2 {
			zz.Assume(!(s[0] == '_' && s[1] == '_'))
		}
		return s
	}
	l1 := mk("a", zz.Choice("len1", 4)+1)
	l2 := mk("b", zz.Choice("len2", 4)+1)
	nm := newNamer()
	r1, r2, r3 := nm.call(l1), nm.call(l2), nm.call(l1)
	zz.Assert(zzIsIdent(r1) && zzIsIdent(r2) && zzIsIdent(r3), "not a legal identifier")
	zz.Assert(r1 != r2 && r1 != r3 && r2 != r3, "two entities in one scope received the same spelling")
	zz.Reach("end")
}

// U1c: names inside a namespace (struct members) are distinct among themselves and leave the
// outer scope undisturbed.
func ZZ_C16_hlsl_namer_namespace() {
	l1, l2 := zzLabel("a", 2), zzLabel("b", 2)
	nm := newNamer()
	o1 := nm.call(l1)
	var m1, m2 string
	nm.namespace(func() {
		m1 = nm.call(l1)
		m2 = nm.call(l2)
	})
	o2 := nm.call(l2)
	zz.Assert(m1 != m2, "two members of one struct received the same spelling")
	zz.Assert(o1 != o2, "outer scope names collide after a namespace")
	zz.Assert(zzIsIdent(m1) && zzIsIdent(m2) && zzIsIdent(o1) && zzIsIdent(o2), "not a legal identifier")
	zz.Reach("end")
}
