//go:build verif

package codegen

import (
	zz "github.com/gogpu/naga/internal/zzverif"
	"github.com/gogpu/naga/ir"
)

// zzIndexable builds a module with one indexable type (array<f32,N>, vecK<f32> or matCxR<f32>
// with symbolic dimensions), a function holding a local variable of it and a value argument of
// it; returns the writer, the base expression handles and the number of indexable elements.
func zzIndexable() (w *Writer, ptrBase, valBase ir.ExpressionHandle, count uint32) {
	shape := zz.Choice("shape", 3)
	f32 := ir.ScalarType{Kind: ir.ScalarFloat, Width: 4}
	m := &ir.Module{Types: []ir.Type{{Inner: f32}}}
	switch shape {
	case 0:
		n := zz.U32("arrayLen")
		zz.Assume(n >= 1)
		m.Types = append(m.Types, ir.Type{Inner: ir.ArrayType{Base: 0, Size: ir.ArraySize{Constant: &n}, Stride: 4}})
		count = n
	case 1:
		k := ir.VectorSize(zz.U8("vecSize"))
		zz.Assume(k >= 2 && k <= 4)
		m.Types = append(m.Types, ir.Type{Inner: ir.VectorType{Size: k, Scalar: f32}})
		count = uint32(k)
	default:
		c, r := ir.VectorSize(zz.U8("cols")), ir.VectorSize(zz.U8("rows"))
		zz.Assume(c >= 2 && c <= 4 && r >= 2 && r <= 4)
		m.Types = append(m.Types, ir.Type{Inner: ir.MatrixType{Columns: c, Rows: r, Scalar: f32}})
		count = uint32(c)
	}
	fn := &ir.Function{Name: "f", Arguments: []ir.FunctionArgument{{Name: "v", Type: 1}}, LocalVars: []ir.LocalVariable{{Name: "l", Type: 1}},
		Expressions: []ir.Expression{{Kind: ir.ExprLocalVariable{Variable: 0}}, {Kind: ir.ExprFunctionArgument{Index: 0}}}}
	for i := range fn.Expressions {
		r, _ := ir.ResolveExpressionType(m, fn, ir.ExpressionHandle(i))
		fn.ExpressionTypes = append(fn.ExpressionTypes, r)
	}
	m.Functions = []ir.Function{*fn}
	w = newWriter(m, DefaultOptions())
	w.currentFunction = &m.Functions[0]
	return w, 0, 1, count
}

// zzRestrictBoundBody: the clamp bound used for a dynamically indexed array / vector / matrix is
// (number of elements - 1): for a matrix the number of COLUMNS; for every dimension value,
// through a pointer (local variable) and on a value (argument).
func zzRestrictBoundBody() {
	w, pb, vb, count := zzIndexable()
	mx, ok := w.getAccessMaxIndex(pb)
	zz.Assert(ok && mx == count-1, "restrict-indexing bound through a pointer is not (element count - 1)")
	mx2, ok2 := w.getAccessMaxIndex(vb)
	zz.Assert(ok2 && mx2 == count-1, "restrict-indexing bound on a value is not (element count - 1)")
	zz.Assert(w.needsRestrictIndexing(pb), "function-space access is not restricted")
	zz.Reach("end")
}
