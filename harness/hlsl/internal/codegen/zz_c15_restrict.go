//go:build verif

package codegen

import (
	zz "github.com/gogpu/naga/internal/zzverif"
	"github.com/gogpu/naga/ir"
)

func ZZ_C15_hlsl_restrict_bound() { zzRestrictBoundBody() }

// A constant index is treated as in bounds exactly when 0 <= index < length (i32 and u32
// literals, every value and every length).
func ZZ_C15_hlsl_constant_index_in_bounds() {
	signed := zz.Flag("signed")
	length := zz.U32("length")
	m := &ir.Module{}
	fn := &ir.Function{}
	var want bool
	if signed {
		v := zz.I32("idx")
		fn.Expressions = []ir.Expression{{Kind: ir.Literal{Value: ir.LiteralI32(v)}}}
		want = v >= 0 && uint32(v) < length
	} else {
		v := zz.U32("idx")
		fn.Expressions = []ir.Expression{{Kind: ir.Literal{Value: ir.LiteralU32(v)}}}
		want = v < length
	}
	w := newWriter(m, DefaultOptions())
	w.currentFunction = fn
	zz.Assert(w.isConstantIndexInBounds(0, length) == want, "constant index bounds test is wrong")
	zz.Reach("end")
}
