//go:build verif

package naga

import (
	zz "github.com/gogpu/naga/internal/zzverif"
	"github.com/gogpu/naga/spirv"
)

// Neutral edits at grammar level (C19): a trailing comma where the grammar allows one,
// redundant parentheses around an expression, and a consistent renaming of a user identifier
// leave acceptance and the generated code unchanged. The program below has one marked site
// per list / expression kind; the harness picks a site, inserts the edit followed by ONE
// SYMBOLIC blankspace byte (so that the separator handling after the edit is decided for all
// of space, tab, LF, VT, FF, CR), compiles both versions through the real Parse -> Lower ->
// Validate -> GenerateSPIRV pipeline and compares the SPIR-V words.

// every "\x01" is a site where WGSL allows a trailing comma; "\x02(" ... "\x03)" pairs mark
// expressions around which parentheses are redundant.
const zzEditProgram = "struct S { a: u32, b: vec2<f32\x01>\x01 }\n" +
	"@group(0) @binding(0) var<storage, read_write\x01> buf: array<u32, 8\x01>;\n" +
	"var<private> pv: array<vec3<f32\x01>, 2\x01>;\n" +
	"fn bump(p: ptr<function, u32\x01>, d: u32\x01) { *p = \x02*p + d\x03; }\n" +
	"fn rd(p: ptr<storage, array<u32, 8>, read_write\x01>, i: u32) -> u32 { return \x02(*p)[i]\x03; }\n" +
	"fn mk(x: f32, y: f32\x01) -> vec2<f32> { return vec2<f32\x01>(x, y\x01); }\n" +
	"@compute @workgroup_size(1, 1\x01) fn main(@builtin(local_invocation_index\x01) li: u32\x01) {\n" +
	"  var v = \x02buf[0]\x03; bump(&v, \x02buf[1] + li\x03\x01);\n" +
	"  let s = S(v, mk(1.0, 2.0\x01)\x01);\n" +
	"  switch \x02v\x03 { case 1u, 2u\x01: { buf[2] = s.a; } default: { buf[2] = max(v, 3u\x01); } }\n" +
	"  let m = mat2x2<f32\x01>(1.0, 0.0, 0.0, 1.0\x01);\n" +
	"  if \x02m[0].x > s.b.y\x03 { buf[3] = rd(&buf, \x022u\x03\x01); }\n" +
	"  pv[1] = vec3<f32>(s.b, 0.0\x01);\n" +
	"}\n"

// zzRender renders the program with edit `site` applied (site < 0: none). kind 0: trailing
// comma at the site-th \x01 followed by blank; kind 1: parentheses at the site-th \x02/\x03 pair
// with blank inside.
func zzRender(kind, site int, blank string) (string, int) {
	out := make([]byte, 0, len(zzEditProgram)+8)
	commas, parens := 0, 0
	for i := 0; i < len(zzEditProgram); i++ {
		c := zzEditProgram[i]
		switch c {
		case 1:
			if kind == 0 && commas == site {
				out = append(out, ',')
				out = append(out, blank...)
			}
			commas++
		case 2:
			if kind == 1 && parens == site {
				out = append(out, '(')
				out = append(out, blank...)
			}
		case 3:
			if kind == 1 && parens == site {
				out = append(out, blank...)
				out = append(out, ')')
			}
			parens++
		default:
			out = append(out, c)
		}
	}
	if kind == 0 {
		return string(out), commas
	}
	return string(out), parens
}

func zzCompileSPV(src string) ([]byte, bool) {
	ast, err := Parse(src)
	if err != nil {
		return nil, false
	}
	mod, err := LowerWithSource(ast, src)
	if err != nil {
		return nil, false
	}
	verrs, err := Validate(mod)
	if err != nil || len(verrs) != 0 {
		return nil, false
	}
	out, err := GenerateSPIRV(mod, spirv.DefaultOptions())
	if err != nil {
		return nil, false
	}
	return out, true
}

func zzBlankByte(name string) string {
	b := zz.U8(name)
	zz.Assume(b == ' ' || b == '\t' || b == '\n' || b == '\v' || b == '\f' || b == '\r')
	return string([]byte{b})
}

func zzNeutralEdit(kind int, what string) {
	base, n := zzRender(kind, -1, "")
	want, ok := zzCompileSPV(base)
	zz.Assert(ok, "the unedited program is rejected")
	site := zz.Choice("site", n)
	zz.Cell(what + "-site-" + string(rune('a'+site)))
	src, _ := zzRender(kind, site, zzBlankByte("blank"))
	got, ok2 := zzCompileSPV(src)
	zz.Assert(ok2, "program rejected after a "+what+" (accepted before)")
	if ok && ok2 {
		zz.Assert(len(got) == len(want), "generated SPIR-V changes size after a "+what)
		if len(got) == len(want) {
			same := true
			for i := range got {
				if got[i] != want[i] {
					same = false
				}
			}
			zz.Assert(same, "generated SPIR-V differs after a "+what)
		}
	}
	zz.Reach("end")
}

func ZZ_C19_trailing_comma() { zzNeutralEdit(0, "trailing comma") }

func ZZ_C19_redundant_parentheses() { zzNeutralEdit(1, "redundant parentheses") }

// Consistent renaming of a user identifier (C19): the local of `h` / the variable of `main`
// is given an arbitrary one-letter name (symbolic byte; names that would collide with a
// declaration of the same scope or capture a name the function still needs are excluded).
// Shadowing a module-scope name is legal and must change nothing - in particular when the
// local's initializer mentions the module-scope name it shadows, declared before or after.
func zzRenameProgram(a, b string) string {
	return "const g = 3u;\n" +
		"@group(0) @binding(0) var<storage, read_write> buf: array<u32, 8>;\n" +
		"fn h(p: u32) -> u32 { let " + a + " = p + g * k; var t = " + a + "; { let " + a + " = t + 1u; t = " + a + "; } return " + a + " * 2u + t; }\n" +
		"@compute @workgroup_size(1) fn main() { var " + b + " = buf[0]; " + b + " += h(buf[1]); buf[2] = " + b + "; }\n" +
		"const k = 5u;\n"
}

func ZZ_C19_consistent_renaming() {
	want, ok := zzCompileSPV(zzRenameProgram("q", "r"))
	zz.Assert(ok, "the unedited program is rejected")
	na := zz.U8("local-name")
	nb := zz.U8("var-name")
	zz.Assume(na >= 'a' && na <= 'z' && na != 'p' && na != 't')
	zz.Assume(nb >= 'a' && nb <= 'z' && nb != 'h')
	which := zz.Choice("renamed", 2)
	a, b := "q", "r"
	if which == 0 {
		a = string([]byte{na})
		zz.Cell("rename-local-let")
	} else {
		b = string([]byte{nb})
		zz.Cell("rename-local-var")
	}
	got, ok2 := zzCompileSPV(zzRenameProgram(a, b))
	zz.Assert(ok2, "program rejected after consistently renaming a local identifier (accepted before)")
	if ok && ok2 {
		zz.Assert(len(got) == len(want), "generated SPIR-V changes size after consistently renaming a local identifier")
		if len(got) == len(want) {
			same := true
			for i := range got {
				if got[i] != want[i] {
					same = false
				}
			}
			zz.Assert(same, "generated SPIR-V differs after consistently renaming a local identifier")
		}
	}
	zz.Reach("end")
}

// Blankspace between the '>' tokens that close template lists and a following '=' (C19, round
// 4): WGSL's template-list discovery makes `array<vec2<f32>, 2>=e`, `ptr<function, vec2<f32>>=&v`
// and `array<array<vec2<u32>, 2>, 2>=e` (lexed with the tokens '>=', '>>=' and '>>' '>=') the
// same programs as their spaced spellings. Each site is rendered with the separator # replaced
// by nothing, by a symbolic blankspace byte, or by an empty block comment; all spellings must be
// accepted and give the SPIR-V of the spaced one. Real shift-assign / comparison sites are
// included as controls (the split must not fire there).
var zzGlueSites = []struct{ name, decl, body string }{
	{"single-close-let", "", "let x: vec2<f32>#=#vec2<f32>(1.0, 2.0); buf[0] = x.y;"},
	{"double-close-ptr-let", "", "var v = vec2<f32>(3.0, 4.0); let p: ptr<function, vec2<f32>#>#=#&v; buf[0] = (*p).y;"},
	{"double-close-array-var", "", "var a: array<vec2<f32>, 2#>#=#array<vec2<f32>, 2>(vec2<f32>(1.0, 2.0), vec2<f32>(3.0, 4.0)); buf[0] = a[1].x;"},
	{"triple-close-array-var", "", "var a: array<array<vec2<f32>, 2>, 2#>#=#array<array<vec2<f32>, 2>, 2>(); a[1][0].x = 5.0; buf[0] = a[1][0].x;"},
	{"double-close-module-private", "var<private> g: array<vec2<f32>, 2#>#=#array<vec2<f32>, 2>(vec2<f32>(1.0, 2.0), vec2<f32>(3.0, 4.0));", "buf[0] = g[1].y;"},
	{"double-close-module-const", "const K: array<vec2<f32>, 2#>#=#array<vec2<f32>, 2>(vec2<f32>(1.0, 2.0), vec2<f32>(3.0, 4.0));", "var k = K; buf[0] = k[1].y;"},
	{"double-close-call-then-compare", "", "let b = array<vec2<f32>, 2#>#(vec2<f32>(1.0, 2.0), vec2<f32>(3.0, 4.0)); buf[0] = select(0.0, 1.0, b[0].x >=#b[1].x);"},
	{"control-shift-assign", "", "var s = 64u; s >>=#1u; s <<=#2u; buf[0] = f32(s >>#2u);"},
}

func ZZ_C19_template_close_glue() {
	t := zzGlueSites[zz.Choice("site", len(zzGlueSites))]
	zz.Cell(t.name)
	render := func(sep string) string {
		src := "@group(0) @binding(0) var<storage, read_write> buf: array<f32, 4>;\n" + t.decl + "\n@compute @workgroup_size(1) fn main() {\n" + t.body + "\n}"
		out := make([]byte, 0, len(src)+8)
		for i := 0; i < len(src); i++ {
			if src[i] == '#' {
				out = append(out, sep...)
			} else {
				out = append(out, src[i])
			}
		}
		return string(out)
	}
	want, ok := zzCompileSPV(render(" "))
	zz.Assert(ok, "the spaced spelling is rejected")
	sep := ""
	switch zz.Choice("separator", 3) {
	case 1:
		sep = zzBlankByte("blank")
	case 2:
		sep = "/**/"
	}
	got, ok2 := zzCompileSPV(render(sep))
	zz.Assert(ok2, "program rejected after removing/changing the blankspace around template-closing '>' (accepted when spaced)")
	if ok && ok2 {
		same := len(got) == len(want)
		for i := 0; same && i < len(got); i++ {
			if got[i] != want[i] {
				same = false
			}
		}
		zz.Assert(same, "generated SPIR-V differs after removing/changing the blankspace around template-closing '>'")
	}
	zz.Reach("end")
}
