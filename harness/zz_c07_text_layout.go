//go:build verif

package naga

import (
	"fmt"
	"strings"

	"github.com/gogpu/naga/internal/zzclike"
	"github.com/gogpu/naga/internal/zzspv"
	"github.com/gogpu/naga/internal/zztpl"
	zz "github.com/gogpu/naga/internal/zzverif"
	"github.com/gogpu/naga/msl"
	"github.com/gogpu/naga/spirv"
)

// C07 in the text back ends: for a family of host-shareable struct trees (vec3 padding,
// nested structs, arrays of structs, @align/@size on a member and inside a nested struct) the
// byte offsets are computed in internal/zztpl from the WGSL specification; the real pipeline
// compiles a program that moves a value between every pair of neighbouring scalar leaves; the
// emitted HLSL / MSL / GLSL text is executed on a SYMBOLIC byte image of the buffer, with the
// target language's own layout rules (HLSL: the literal byte-address arithmetic; MSL: C++
// struct layout with Metal's vector sizes, padding members and packed vectors; GLSL: std430),
// and every leaf word must equal the WGSL meaning.

// Every (@align, @size) pair is tried for HLSL and MSL. The GLSL writer has no way to honour
// the attributes at all (open finding, known_findings.json), so its harnesses run the
// attribute-free shapes and one representative pair (@align(16)); the remaining pairs would
// only repeat that finding.
const (
	zzAddrMsg = " text addresses a buffer member at an offset other than the WGSL layout"
	zzReadMsg = " text reads a uniform buffer member at an offset other than the WGSL layout"
)

var zzAllAttrs = len(zztpl.LayoutAttrs)

const zzGLSLAttrs = 2

func zzLayoutCase(pairs bool, nattr int) (string, []zztpl.LLeaf, int) {
	types := zztpl.LayoutFocusTypes()
	var focus []zztpl.LMember
	cell := ""
	if pairs {
		// thorough tier: a second, attribute-free member in front of the focus member, drawn
		// from eight representative types (scalar, vec3, array of vec3, struct, array of
		// structs, struct with an @align'ed member, mat3x3, array of mat2x2)
		firsts := []int{0, 2, 6, 7, 8, 11, 16, 20}
		t0 := types[firsts[zz.Choice("first", len(firsts))]]
		if nattr == zzGLSLAttrs {
			// GLSL: shapes that hit the open @align/@size finding are left to the single-member
			// harness (every such pair would be one more class of the same finding)
			nattr = 1
			zz.Assume(t0.WGSL() != "InnerA")
		}
		focus = append(focus, zztpl.LMember{Name: "n", T: t0})
		cell = t0.WGSL() + " then "
	}
	ti := zz.Choice("focus", len(types))
	ai := zz.Choice("attr", nattr)
	t, attr := types[ti], zztpl.LayoutAttrs[ai]
	zz.Assume(zztpl.LayoutValid(t, attr))
	if pairs && nattr == 1 {
		zz.Assume(!strings.Contains(t.WGSL(), "InnerA") && !strings.Contains(t.WGSL(), "InnerS"))
	}
	zz.Cell(fmt.Sprintf("%s%s align=%d size=%d", cell, t.WGSL(), attr[0], attr[1]))
	focus = append(focus, zztpl.LMember{Name: "m", T: t, Align: attr[0], Size: attr[1]})
	return zztpl.LayoutProgram(zztpl.LayoutRoot(focus))
}

func zzLayoutInputs(words int) []uint32 {
	in := make([]uint32, words)
	for i := range in {
		in[i] = zz.U32(fmt.Sprintf("w%d", i))
	}
	return in
}

func zzLayoutCompare(backend string, leaves []zztpl.LLeaf, in, out []uint32) {
	want := zztpl.LayoutRef(leaves, in)
	zz.Assert(len(out) == len(in), backend+": buffer size changed")
	if len(out) != len(in) {
		return
	}
	for _, l := range leaves {
		zz.Assert(out[l.Off/4] == want[l.Off/4], backend+zzAddrMsg)
	}
	zz.Reach("end")
}

func ZZ_C07_text_layout_hlsl() {
	src, leaves, words := zzLayoutCase(false, zzAllAttrs)
	in := zzLayoutInputs(words)
	if out, ok := zzCompileAndRunHLSL(src, in, [3]uint32{}, nil); ok {
		zzLayoutCompare("HLSL", leaves, in, out)
	}
}

func ZZ_C07_text_layout_msl() {
	src, leaves, words := zzLayoutCase(false, zzAllAttrs)
	in := zzLayoutInputs(words)
	if out, ok := zzCompileAndRunMSL(src, in, [3]uint32{}, nil); ok {
		zzLayoutCompare("MSL", leaves, in, out)
	}
}

func ZZ_C07_text_layout_glsl() {
	src, leaves, words := zzLayoutCase(false, zzGLSLAttrs)
	in := zzLayoutInputs(words)
	if out, ok := zzCompileAndRunGLSL(src, in, [3]uint32{}, nil); ok {
		zzLayoutCompare("GLSL", leaves, in, out)
	}
}

// Thorough tier: two members in front of the tail (every focus type followed by every focus
// type with every attribute pair).
func ZZ_C07_text_layout_pairs_hlsl() {
	if !zz.Thorough() {
		zz.Reach("end")
		return
	}
	src, leaves, words := zzLayoutCase(true, zzAllAttrs)
	in := zzLayoutInputs(words)
	if out, ok := zzCompileAndRunHLSL(src, in, [3]uint32{}, nil); ok {
		zzLayoutCompare("HLSL", leaves, in, out)
	}
}

func ZZ_C07_text_layout_pairs_msl() {
	if !zz.Thorough() {
		zz.Reach("end")
		return
	}
	src, leaves, words := zzLayoutCase(true, zzAllAttrs)
	in := zzLayoutInputs(words)
	if out, ok := zzCompileAndRunMSL(src, in, [3]uint32{}, nil); ok {
		zzLayoutCompare("MSL", leaves, in, out)
	}
}

func ZZ_C07_text_layout_pairs_glsl() {
	if !zz.Thorough() {
		zz.Reach("end")
		return
	}
	src, leaves, words := zzLayoutCase(true, zzGLSLAttrs)
	in := zzLayoutInputs(words)
	if out, ok := zzCompileAndRunGLSL(src, in, [3]uint32{}, nil); ok {
		zzLayoutCompare("GLSL", leaves, in, out)
	}
}

// Uniform address space: the same construction with the struct in a uniform buffer (only the
// type trees that satisfy WGSL's uniform layout constraints); every leaf is read into one
// word of a storage array. The evaluators place the struct by the HLSL constant-buffer
// packing rules, by C++ layout (MSL constant buffer) and by std140 (GLSL uniform block).

func zzUniformCase(nattr int) (string, []zztpl.LLeaf, int) {
	types := zztpl.LayoutUniformFocusTypes()
	ti := zz.Choice("focus", len(types))
	ai := zz.Choice("attr", nattr)
	t, attr := types[ti], zztpl.LayoutAttrs[ai]
	zz.Assume(zztpl.LayoutValid(t, attr))
	root := zztpl.LayoutRoot([]zztpl.LMember{{Name: "m", T: t, Align: attr[0], Size: attr[1]}})
	zz.Assume(root.ValidUniform())
	zz.Cell(fmt.Sprintf("uniform %s align=%d size=%d", t.WGSL(), attr[0], attr[1]))
	return zztpl.LayoutUniformProgram(root)
}

func zzUniformRun(backend string, nattr int, run func(string, []uint32, [3]uint32, []uint32) ([]uint32, bool)) {
	src, leaves, words := zzUniformCase(nattr)
	uni := zzLayoutInputs(words)
	zzUniformImage = uni
	out, ok := run(src, make([]uint32, len(leaves)), [3]uint32{}, nil)
	zzUniformImage = nil
	if !ok {
		return
	}
	zz.Assert(len(out) == len(leaves), backend+": buffer size changed")
	if len(out) != len(leaves) {
		return
	}
	for i, l := range leaves {
		zz.Assert(out[i] == uni[l.Off/4]^zztpl.LayoutKey(i), backend+zzReadMsg)
	}
	zz.Reach("end")
}

func ZZ_C07_uniform_layout_hlsl() { zzUniformRun("HLSL", zzAllAttrs, zzCompileAndRunHLSL) }
func ZZ_C07_uniform_layout_msl()  { zzUniformRun("MSL", zzAllAttrs, zzCompileAndRunMSL) }
func ZZ_C07_uniform_layout_glsl() { zzUniformRun("GLSL", zzGLSLAttrs, zzCompileAndRunGLSL) }

// SPIR-V: the same programs through GenerateSPIRV; the reference executor maps each buffer
// variable onto its byte image by the Offset / ArrayStride / MatrixStride decorations found in
// the emitted binary (a missing one is a violation), so a wrong or lost decoration moves a leaf.

func zzRunSPIRVImages(src string, storage, uniform []uint32) ([]uint32, bool) {
	ast, err := Parse(src)
	zz.Assert(err == nil, "template does not parse: "+src)
	if err != nil {
		return nil, false
	}
	mod, err := LowerWithSource(ast, src)
	zz.Assert(err == nil, "template does not lower: "+src)
	if err != nil {
		return nil, false
	}
	verrs, err := Validate(mod)
	zz.Assert(err == nil && len(verrs) == 0, "template rejected by the validator: "+src)
	o := spirv.DefaultOptions()
	if zz.Choice("options", 2) == 1 {
		o.Version = spirv.Version1_5
	}
	out, err := GenerateSPIRV(mod, o)
	zz.Assert(err == nil, "SPIR-V backend rejected the template: "+src)
	if err != nil {
		return nil, false
	}
	ex, ok := zzspv.NewExec(out)
	zz.Assert(ok, "emitted SPIR-V is not a well-formed instruction stream")
	if !ok {
		return nil, false
	}
	ex.ByteImages = true
	init := map[[2]uint32][]uint32{{0, 0}: storage}
	if uniform != nil {
		init[[2]uint32{0, 1}] = uniform
	}
	res := ex.RunEntry(init)
	buf, ok := res[[2]uint32{0, 0}]
	zz.Assert(ok, "storage buffer (group 0, binding 0) not found in the emitted module")
	if !ok {
		return nil, false
	}
	return ex.Image([2]uint32{0, 0}, buf, storage), true
}

func ZZ_C07_buffer_layout_spirv() {
	src, leaves, words := zzLayoutCase(false, zzAllAttrs)
	in := zzLayoutInputs(words)
	if out, ok := zzRunSPIRVImages(src, in, nil); ok {
		zzLayoutCompare("SPIR-V", leaves, in, out)
	}
}

func ZZ_C07_uniform_layout_spirv() {
	zzUniformRun("SPIR-V", zzAllAttrs, func(src string, in []uint32, _ [3]uint32, _ []uint32) ([]uint32, bool) {
		return zzRunSPIRVImages(src, in, zzUniformImage)
	})
}

// Static layout of the emitted MSL struct declarations: every struct of the type tree —
// including the trees with 16-bit members (f16, vecN<f16>), which the data-flow harnesses
// above do not move values through — is laid out by the Metal rules (half 2 bytes, half3 8
// bytes aligned 8, packed_half3 6 bytes aligned 2, char padding arrays) and every member
// offset and the struct size must equal the WGSL values.
func ZZ_C07_static_layout_msl() {
	f16 := zz.Choice("f16", 2) == 1
	types := zztpl.LayoutFocusTypes()
	if f16 {
		types = zztpl.LayoutF16FocusTypes()
	}
	t := types[zz.Choice("focus", len(types))]
	attr := zztpl.LayoutAttrs[zz.Choice("attr", zzAllAttrs)]
	zz.Assume(zztpl.LayoutValid(t, attr))
	zz.Cell(fmt.Sprintf("static %s align=%d size=%d", t.WGSL(), attr[0], attr[1]))
	root := zztpl.LayoutRoot([]zztpl.LMember{{Name: "m", T: t, Align: attr[0], Size: attr[1]}})
	src := zztpl.LayoutDeclProgram(root, f16)
	ast, err := Parse(src)
	zz.Assert(err == nil, "layout program does not parse: "+src)
	if err != nil {
		return
	}
	mod, err := LowerWithSource(ast, src)
	zz.Assert(err == nil, "layout program does not lower: "+src)
	if err != nil {
		return
	}
	text, _, err := msl.Compile(mod, msl.DefaultOptions())
	zz.Assert(err == nil, "MSL backend rejected the layout program")
	if err != nil {
		return
	}
	prog, perr := zzclike.Parse(text, zzclike.MSL)
	zz.Assert(perr == "", "emitted MSL is outside the reference grammar: "+perr)
	if perr != "" {
		return
	}
	for _, info := range zztpl.StructTable(root) {
		offs, size, ok := prog.StructLayout(info.Name)
		if !ok { // the namer appends "_" to names that end in a digit
			offs, size, ok = prog.StructLayout(info.Name + "_")
		}
		zz.Assert(ok, "struct "+info.Name+" is not declared in the emitted MSL")
		if !ok {
			continue
		}
		for name, want := range info.Offsets {
			got, have := offs[name]
			zz.Assert(have, "member "+name+" of struct "+info.Name+" is missing in the emitted MSL")
			zz.Assert(!have || got == want, "MSL struct "+info.Name+" places member "+name+" at an offset other than the WGSL layout")
		}
		zz.Assert(size == info.Size, "MSL struct "+info.Name+" has a size other than the WGSL size")
	}
	zz.Reach("end")
}
