//go:build verif

package naga

import (
	"github.com/gogpu/naga/internal/zzir"
	"github.com/gogpu/naga/internal/zztpl"
	zz "github.com/gogpu/naga/internal/zzverif"
)

// Lowering yields a well-formed module (C09): for every template program and for programs
// with atomics, texture atomics, workgroupUniformLoad and compound assignment on matrices the
// lowered functions satisfy zzir.CheckWellFormed (handles in range, operands before users,
// emit-before-use on every path, no surviving abstract literal).
var zzWellFormedPrograms = []struct{ name, src string }{
	{"storage-atomics", `@group(0) @binding(0) var<storage, read_write> a: array<atomic<u32>, 4>;
@compute @workgroup_size(1) fn main(@builtin(local_invocation_id) id: vec3<u32>) { atomicStore(&a[0], id.x + id.y); let o = atomicAdd(&a[1], id.x * 2u); atomicMax(&a[2], o + 1u); let r = atomicCompareExchangeWeak(&a[3], 1u, id.z + 2u); if (r.exchanged) { atomicSub(&a[0], 1u); } }`},
	{"workgroup-atomics-and-uniform-load", `var<workgroup> w: atomic<i32>; var<workgroup> flag: u32; @group(0) @binding(0) var<storage, read_write> o: array<i32, 4>;
@compute @workgroup_size(4) fn main(@builtin(local_invocation_index) lid: u32) { atomicAdd(&w, i32(lid) + 1); workgroupBarrier(); let f = workgroupUniformLoad(&flag); o[lid] = atomicLoad(&w) + i32(f + lid + 1); }`},
	{"texture-atomics", `@group(0) @binding(0) var img: texture_storage_2d<r32uint, atomic>;
@compute @workgroup_size(1) fn main(@builtin(global_invocation_id) id: vec3<u32>) { textureAtomicMax(img, vec2<i32>(id.xy), id.z + 1u); textureAtomicAdd(img, vec2<i32>(id.xy), 1u); }`},
	{"matrix-compound-assignment", `@group(0) @binding(0) var<storage, read_write> o: array<f32, 8>;
@compute @workgroup_size(1) fn main() { var v = vec2<f32>(o[0], o[1]); let m = mat2x2<f32>(1.0, o[2], 0.0, 1.0); v *= m; v *= 2.0; var n = m; n *= 2.0; o[3] = v.x + n[1].y; }`},
	{"pointer-let-and-double-deref", `@group(0) @binding(0) var<storage, read_write> o: array<u32, 8>;
@compute @workgroup_size(1) fn main() { var x = o[0]; let p = &x; let q = p; *q = *q + 1u; o[1] = *p + *q; }`},
}

func zzCheckLoweredWellFormed(name, src string) {
	ast, err := Parse(src)
	if err != nil {
		zz.Reach("rejected")
		return
	}
	mod, err := LowerWithSource(ast, src)
	if err != nil {
		zz.Reach("rejected")
		return
	}
	for _, p := range zzir.CheckWellFormed(mod) {
		zz.Fail("lowered module is ill-formed: " + p)
	}
	zz.Reach("end")
}

func ZZ_C09_lowered_templates_well_formed() {
	all := append([]zztpl.Template{}, zztpl.TemplatesA...)
	all = append(all, zztpl.TemplatesW...)
	t := all[zz.Choice("template", len(all))]
	zz.Cell(t.Name)
	zzCheckLoweredWellFormed(t.Name, zztpl.Source(t))
}

func ZZ_C09_lowered_programs_well_formed() {
	p := zzWellFormedPrograms[zz.Choice("program", len(zzWellFormedPrograms))]
	zz.Cell(p.name)
	zzCheckLoweredWellFormed(p.name, p.src)
}
