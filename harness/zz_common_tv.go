//go:build verif

package naga

import (
	"fmt"

	"github.com/gogpu/naga/internal/zztpl"
	zz "github.com/gogpu/naga/internal/zzverif"
)

// Shared by the translation-validation harnesses of all back ends: the template programs live
// in internal/zztpl; here are the symbolic inputs.

const zzBufWords = zztpl.BufWords

type zzTemplate = zztpl.Template
type zzBinTemplate = zztpl.BinTemplate

var (
	zzTemplatesA   = zztpl.TemplatesA
	zzTemplatesW   = zztpl.TemplatesW
	zzBinTemplates = zztpl.BinTemplates
)

func zzTemplateSource(t zzTemplate) string { return zztpl.Source(t) }

func zzBinAsTemplate(t zzBinTemplate, signed bool) zzTemplate { return zztpl.BinAsTemplate(t, signed) }

func zzInputs() []uint32 {
	in := make([]uint32, zzBufWords)
	for i := range in {
		in[i] = zz.U32(fmt.Sprintf("buf%d", i))
	}
	return in
}

// zzDispatch draws the symbolic workgroup id and stale workgroup-memory words.
func zzDispatch() (wid [3]uint32, garbage []uint32) {
	for i := range wid {
		wid[i] = zz.U32(fmt.Sprintf("wid%d", i))
	}
	zztpl.WG = wid
	garbage = []uint32{zz.U32("stale0"), zz.U32("stale1"), zz.U32("stale2")}
	return
}

// zzUniformImage is the byte image (as words) of the uniform buffer handed to the text
// evaluators by zzCompileAndRun{HLSL,MSL,GLSL}; nil for programs without one.
var zzUniformImage []uint32
