//go:build verif

package naga

// The base program of the (program, rule / snippet, site) harnesses of C11 and C08: a valid
// module with marked statement sites S0..S6 (entry point top level, if-branch inside a loop,
// loop continuing block, helper function, switch case, doubly nested block, else-branch) and
// expression sites E0 (module-scope const initialiser) and E1 (argument of a builtin).

const zzRuleBase = `struct ZS { a: i32, b: i32 }
var<private> zs: ZS;
@group(0) @binding(0) var<storage, read_write> buf: array<i32, 8>;
@must_use fn mu(x: i32) -> i32 { return x + 1; }
fn leaf(x: i32) -> i32 { return x * 2; }
fn sink(x: i32) { }
fn vleaf(x: vec2<i32>) -> i32 { return x.x; }
fn aleaf(x: array<i32, 2>) -> i32 { return x[0]; }
struct ZT { q: i32 }
fn sleaf(x: ZS) -> i32 { return x.a; }
const zcs = ZS(1, 2);
var<private> zarr: array<i32, 4>;
fn helper(x: i32) -> i32 {
  var acc = x;
  /*S3*/
  return acc;
}
const zc0: i32 = /*E0*/ 4;
@compute @workgroup_size(1) fn main() {
  var i = 0;
  /*S0*/
  loop {
    if i > 3 {
      /*S1*/
      break;
    } else {
      /*S6*/
    }
    continuing {
      i = i + 1;
      /*S2*/
    }
  }
  switch i {
    case 1: { /*S4*/ }
    default: { }
  }
  { { /*S5*/ } }
  buf[0] = max(/*E1*/ helper(i), 1) + zc0;
}
@group(0) @binding(1) var<uniform> uni: vec4<i32>;
@compute @workgroup_size(2) fn second() { buf[1] = uni.x; }
`
