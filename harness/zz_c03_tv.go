//go:build verif

package naga

import (
	"github.com/gogpu/naga/internal/zztpl"
	zz "github.com/gogpu/naga/internal/zzverif"
)

// Translation validation of the HLSL back end: the real Parse -> LowerWithSource -> Validate
// -> hlsl.Compile pipeline runs on a template, the emitted HLSL text is parsed and executed by
// the reference evaluator (internal/zzclike, HLSL dialect) on SYMBOLIC buffer contents, and
// the final buffer is compared with the WGSL meaning of the template.

func zzRunTemplateHLSL(t zzTemplate) {
	src := zzTemplateSource(t)
	zz.Cell(t.Name)
	in := zzInputs()
	wid, garbage := zzDispatch()
	want := append([]uint32(nil), in...)
	t.Ref(want)
	out, ok := zzCompileAndRunHLSL(src, in, wid, garbage)
	if ok {
		zz.Assert(len(out) == zzBufWords, "buffer size changed")
		for i := range out {
			if i < len(want) {
				zz.Assert(out[i] == want[i], "template "+t.Name+": final buffer of the HLSL text differs from the WGSL meaning")
			}
		}
	}
	zz.Reach("end")
}

func ZZ_C03_tv_templates() {
	zzRunTemplateHLSL(zzTemplatesA[zz.Choice("template", len(zzTemplatesA))])
}

func ZZ_C03_tv_integer_binary() {
	t := zzBinTemplates[zz.Choice("op", len(zzBinTemplates))]
	zzRunTemplateHLSL(zzBinAsTemplate(t, zz.Flag("signed")))
}

func ZZ_C03_tv_workgroup() {
	zzRunTemplateHLSL(zzTemplatesW[zz.Choice("template", len(zzTemplatesW))])
}

// Thorough tier: every template followed by each probe template in one entry point.
func ZZ_C03_tv_template_pairs() {
	if !zz.Thorough() {
		zz.Reach("end")
		return
	}
	pairs := zztpl.Pairs()
	zzRunTemplateHLSL(pairs[zz.Choice("pair", len(pairs))])
}
