//go:build verif

package naga

import (
	"github.com/gogpu/naga/hlsl"
	"github.com/gogpu/naga/internal/zzclike"
	"github.com/gogpu/naga/internal/zztpl"
	zz "github.com/gogpu/naga/internal/zzverif"
)

// Translation validation of the HLSL back end: the real Parse -> LowerWithSource -> Validate
// -> hlsl.Compile pipeline runs on a template, the emitted HLSL text is parsed and executed by
// the reference evaluator (internal/zzclike, HLSL dialect) on SYMBOLIC buffer contents, and
// the final buffer is compared with the WGSL meaning of the template.

func zzHLSLOptions() *hlsl.Options {
	o := hlsl.DefaultOptions()
	switch zz.Choice("options", 3) {
	case 1:
		o.ShaderModel = hlsl.ShaderModel6_0
		o.ForceLoopBounding = false
	case 2:
		o.RestrictIndexing = false
	}
	return o
}

func zzCompileAndRunHLSL(src string, in []uint32, wid [3]uint32, garbage []uint32) ([]uint32, bool) {
	ast, err := Parse(src)
	zz.Assert(err == nil, "template does not parse: "+src)
	if err != nil {
		return nil, false
	}
	mod, err := LowerWithSource(ast, src)
	zz.Assert(err == nil, "template does not lower: "+src)
	if err != nil {
		return nil, false
	}
	verrs, err := Validate(mod)
	zz.Assert(err == nil && len(verrs) == 0, "template rejected by the validator: "+src)
	text, info, err := hlsl.Compile(mod, zzHLSLOptions())
	zz.Assert(err == nil, "HLSL backend rejected the template: "+src)
	if err != nil {
		return nil, false
	}
	entry := "main"
	if info != nil {
		if n, ok := info.EntryPointNames["main"]; ok && n != "" {
			entry = n
		}
	}
	prog, perr := zzclike.Parse(text, zzclike.HLSL)
	zz.Assert(perr == "", "emitted HLSL is outside the reference grammar: "+perr)
	if perr != "" {
		return nil, false
	}
	prog.WorkgroupID, prog.WorkgroupSize, prog.Garbage = wid, [3]uint32{1, 1, 1}, garbage
	out, rerr := prog.Run(entry, in)
	zz.Assert(rerr == "", "emitted HLSL cannot be executed by the reference evaluator: "+rerr)
	if rerr != "" {
		return nil, false
	}
	return out, true
}

func zzRunTemplateHLSL(t zzTemplate) {
	src := zzTemplateSource(t)
	zz.Cell(t.Name)
	in := zzInputs()
	wid, garbage := zzDispatch()
	want := append([]uint32(nil), in...)
	t.Ref(want)
	out, ok := zzCompileAndRunHLSL(src, in, wid, garbage)
	if ok {
		zz.Assert(len(out) == zzBufWords, "buffer size changed")
		for i := range out {
			if i < len(want) {
				zz.Assert(out[i] == want[i], "template "+t.Name+": final buffer of the HLSL text differs from the WGSL meaning")
			}
		}
	}
	zz.Reach("end")
}

func ZZ_C03_tv_templates() {
	zzRunTemplateHLSL(zzTemplatesA[zz.Choice("template", len(zzTemplatesA))])
}

func ZZ_C03_tv_integer_binary() {
	t := zzBinTemplates[zz.Choice("op", len(zzBinTemplates))]
	zzRunTemplateHLSL(zzBinAsTemplate(t, zz.Flag("signed")))
}

func ZZ_C03_tv_workgroup() {
	zzRunTemplateHLSL(zzTemplatesW[zz.Choice("template", len(zzTemplatesW))])
}

// Thorough tier: every template followed by each probe template in one entry point.
func ZZ_C03_tv_template_pairs() {
	if !zz.Thorough() {
		zz.Reach("end")
		return
	}
	pairs := zztpl.Pairs()
	zzRunTemplateHLSL(pairs[zz.Choice("pair", len(pairs))])
}
