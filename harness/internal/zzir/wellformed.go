//go:build verif

package zzir

import (
	"fmt"

	"github.com/gogpu/naga/ir"
)

// CheckWellFormed checks structural rules every lowered function must satisfy (the rules the
// Rust naga validator enforces and the back ends rely on):
//   - every expression / type / function / variable handle is in range;
//   - an expression only refers to expressions with smaller handles (the arena is in
//     evaluation order);
//   - emit-before-use: on every path, an operand of a statement (or of an emitted expression)
//     that needs emission has been covered by a StmtEmit that dominates the use, call / atomic
//     results by their statement;
//   - no abstract literal survives in a function (lowering yields a fully typed module).
func CheckWellFormed(mod *ir.Module) []string {
	var problems []string
	seen := map[string]bool{}
	bad := func(format string, a ...any) {
		m := fmt.Sprintf(format, a...)
		if !seen[m] && len(problems) < 20 {
			seen[m] = true
			problems = append(problems, m)
		}
	}
	check := func(name string, fn *ir.Function) {
		n := len(fn.Expressions)
		// operands of each expression
		operands := make([][]ir.ExpressionHandle, n)
		for i := range fn.Expressions {
			operands[i] = exprOperands(fn.Expressions[i].Kind)
			for _, h := range operands[i] {
				if int(h) >= n {
					bad("%s: expression %d (%T) refers to expression %d, which does not exist", name, i, fn.Expressions[i].Kind, h)
				} else if int(h) >= i {
					if _, isPhi := fn.Expressions[i].Kind.(ir.ExprPhi); !isPhi {
						bad("%s: expression %d (%T) refers to the later expression %d", name, i, fn.Expressions[i].Kind, h)
					}
				}
			}
			if sp, ok := fn.Expressions[i].Kind.(ir.ExprSplat); ok && int(sp.Value) < len(fn.ExpressionTypes) {
				if inner := ir.TypeResInner(mod, fn.ExpressionTypes[sp.Value]); inner != nil {
					if _, isScalar := inner.(ir.ScalarType); !isScalar {
						bad("%s: expression %d splats expression %d, which is not a scalar", name, i, sp.Value)
					}
				}
			}
			if lit, ok := fn.Expressions[i].Kind.(ir.Literal); ok {
				switch lit.Value.(type) {
				case ir.LiteralAbstractInt, ir.LiteralAbstractFloat:
					bad("%s: expression %d is an abstract literal (%v) that survived lowering", name, i, lit.Value)
				}
			}
		}
		avail := make([]bool, n)
		for i := range fn.Expressions {
			if !needsEmit(fn.Expressions[i].Kind) {
				switch fn.Expressions[i].Kind.(type) {
				case ir.ExprCallResult, ir.ExprAtomicResult, ir.ExprWorkGroupUniformLoadResult:
				default:
					avail[i] = true
				}
			}
		}
		use := func(av []bool, h ir.ExpressionHandle, what string) {
			if int(h) >= n {
				bad("%s: %s refers to expression %d, which does not exist", name, what, h)
				return
			}
			if !av[h] {
				bad("%s: %s uses expression %d (%T) before any StmtEmit / producing statement has evaluated it", name, what, h, fn.Expressions[h].Kind)
			}
		}
		var walk func(b ir.Block, av []bool) []bool
		walk = func(b ir.Block, av []bool) []bool {
			av = append([]bool(nil), av...)
			for _, st := range b {
				what := fmt.Sprintf("%T", st.Kind)
				switch k := st.Kind.(type) {
				case ir.StmtEmit:
					for h := k.Range.Start; h < k.Range.End && int(h) < n; h++ {
						for _, o := range operands[h] {
							use(av, o, fmt.Sprintf("emitted expression %d (%T)", h, fn.Expressions[h].Kind))
						}
						av[h] = true
					}
				case ir.StmtBlock:
					av = walk(k.Block, av)
				case ir.StmtIf:
					use(av, k.Condition, what)
					walk(k.Accept, av)
					walk(k.Reject, av)
				case ir.StmtSwitch:
					use(av, k.Selector, what)
					for _, c := range k.Cases {
						walk(c.Body, av)
					}
				case ir.StmtLoop:
					inner := walk(k.Body, av)
					inner = walk(k.Continuing, inner)
					if k.BreakIf != nil {
						use(inner, *k.BreakIf, "loop break-if")
					}
				default:
					for _, h := range stmtOperands(st.Kind) {
						use(av, h, what)
					}
					for _, h := range resultsOf(st.Kind) {
						if int(h) < n {
							av[h] = true
						}
					}
				}
			}
			return av
		}
		walk(fn.Body, avail)
		for i := range fn.LocalVars {
			if int(fn.LocalVars[i].Type) >= len(mod.Types) {
				bad("%s: local variable %d has a type handle out of range", name, i)
			}
		}
	}
	for i := range mod.Functions {
		check("function "+mod.Functions[i].Name, &mod.Functions[i])
	}
	for i := range mod.EntryPoints {
		check("entry point "+mod.EntryPoints[i].Name, &mod.EntryPoints[i].Function)
	}
	return problems
}

func resultsOf(k ir.StatementKind) []ir.ExpressionHandle {
	switch s := k.(type) {
	case ir.StmtCall:
		if s.Result != nil {
			return []ir.ExpressionHandle{*s.Result}
		}
	case ir.StmtAtomic:
		if s.Result != nil {
			return []ir.ExpressionHandle{*s.Result}
		}
	case ir.StmtWorkGroupUniformLoad:
		return []ir.ExpressionHandle{s.Result}
	}
	return nil
}

func opt(out []ir.ExpressionHandle, h *ir.ExpressionHandle) []ir.ExpressionHandle {
	if h != nil {
		return append(out, *h)
	}
	return out
}

// exprOperands lists the expression handles an expression kind refers to.
func exprOperands(k ir.ExpressionKind) []ir.ExpressionHandle {
	var out []ir.ExpressionHandle
	switch e := k.(type) {
	case ir.ExprCompose:
		out = append(out, e.Components...)
	case ir.ExprAccess:
		out = append(out, e.Base, e.Index)
	case ir.ExprAccessIndex:
		out = append(out, e.Base)
	case ir.ExprSplat:
		out = append(out, e.Value)
	case ir.ExprSwizzle:
		out = append(out, e.Vector)
	case ir.ExprLoad:
		out = append(out, e.Pointer)
	case ir.ExprAlias:
		out = append(out, e.Source)
	case ir.ExprPhi:
		for _, inc := range e.Incoming {
			out = append(out, inc.Value)
		}
	case ir.ExprImageSample:
		out = append(out, e.Image, e.Sampler, e.Coordinate)
		out = opt(opt(opt(out, e.ArrayIndex), e.Offset), e.DepthRef)
		switch l := e.Level.(type) {
		case ir.SampleLevelExact:
			out = append(out, l.Level)
		case ir.SampleLevelBias:
			out = append(out, l.Bias)
		case ir.SampleLevelGradient:
			out = append(out, l.X, l.Y)
		}
	case ir.ExprImageLoad:
		out = append(out, e.Image, e.Coordinate)
		out = opt(opt(opt(out, e.ArrayIndex), e.Sample), e.Level)
	case ir.ExprImageQuery:
		out = append(out, e.Image)
		if q, ok := e.Query.(ir.ImageQuerySize); ok {
			out = opt(out, q.Level)
		}
	case ir.ExprUnary:
		out = append(out, e.Expr)
	case ir.ExprBinary:
		out = append(out, e.Left, e.Right)
	case ir.ExprSelect:
		out = append(out, e.Condition, e.Accept, e.Reject)
	case ir.ExprDerivative:
		out = append(out, e.Expr)
	case ir.ExprRelational:
		out = append(out, e.Argument)
	case ir.ExprMath:
		out = append(out, e.Arg)
		out = opt(opt(opt(out, e.Arg1), e.Arg2), e.Arg3)
	case ir.ExprAs:
		out = append(out, e.Expr)
	case ir.ExprArrayLength:
		out = append(out, e.Array)
	case ir.ExprRayQueryGetIntersection:
		out = append(out, e.Query)
	}
	return out
}

// stmtOperands lists the expression handles a (non-block) statement uses.
func stmtOperands(k ir.StatementKind) []ir.ExpressionHandle {
	var out []ir.ExpressionHandle
	switch s := k.(type) {
	case ir.StmtStore:
		out = append(out, s.Pointer, s.Value)
	case ir.StmtImageStore:
		out = append(out, s.Image, s.Coordinate, s.Value)
		out = opt(out, s.ArrayIndex)
	case ir.StmtAtomic:
		out = append(out, s.Pointer, s.Value)
		if x, ok := s.Fun.(ir.AtomicExchange); ok {
			out = opt(out, x.Compare)
		}
	case ir.StmtImageAtomic:
		out = append(out, s.Image, s.Coordinate, s.Value)
		out = opt(out, s.ArrayIndex)
	case ir.StmtWorkGroupUniformLoad:
		out = append(out, s.Pointer)
	case ir.StmtCall:
		out = append(out, s.Arguments...)
	case ir.StmtReturn:
		out = opt(out, s.Value)
	}
	return out
}
