//go:build verif

// Package zzir is the reference interpreter for naga's IR (package ir) used as the oracle of
// the behaviour-preservation harnesses of the IR-to-IR passes (C13). It is harness code
// (overlay only), written from the documentation of the IR (ir/expression.go, ir/statement.go)
// and the WGSL evaluation rules: expressions are evaluated when a StmtEmit covers them (or on
// demand for the kinds that need no emission), statements have structured control flow,
// integer arithmetic wraps, division/remainder/shift have the WGSL-defined results.
// ExprAlias resolves to its source; ExprPhi takes the incoming value of the structured-CFG
// edge along which control reached the merge point, as documented on ir.PhiPredKey.
package zzir

import (
	"math"

	zz "github.com/gogpu/naga/internal/zzverif"
	"github.com/gogpu/naga/ir"
)

// Val is a value or a storage cell.
type Val struct {
	K byte // 'i' 'u' 'f' 'b' scalar (32-bit pattern in S); 'V' vector 'M' matrix 'A' array 'S' struct; 'P' pointer; 0 none
	S uint32
	E []*Val
	P *Val
}

func (v *Val) clone() *Val {
	if v == nil {
		return nil
	}
	c := &Val{K: v.K, S: v.S, P: v.P}
	for _, e := range v.E {
		c.E = append(c.E, e.clone())
	}
	return c
}

func (v *Val) scalar() bool { return v.K == 'i' || v.K == 'u' || v.K == 'f' || v.K == 'b' }

type Interp struct {
	Mod           *ir.Module
	WorkgroupID   [3]uint32
	WorkgroupSize [3]uint32
	StepMax       int
	Lazy          int // uses of expressions that no StmtEmit covered (evaluated at the use)
	steps         int
	globals       []*Val
	err           string
	depth         int
}

func (in *Interp) fail(msg string) {
	if in.err == "" {
		in.err = msg
		zz.Fail("reference IR interpreter: " + msg)
	}
}

func kindOf(k ir.ScalarKind) byte {
	switch k {
	case ir.ScalarSint, ir.ScalarAbstractInt:
		return 'i'
	case ir.ScalarUint:
		return 'u'
	case ir.ScalarFloat, ir.ScalarAbstractFloat:
		return 'f'
	case ir.ScalarBool:
		return 'b'
	}
	return 'i'
}

func (in *Interp) zero(t ir.TypeHandle) *Val {
	if int(t) >= len(in.Mod.Types) {
		in.fail("type handle out of range")
		return &Val{K: 'i'}
	}
	switch ty := in.Mod.Types[t].Inner.(type) {
	case ir.ScalarType:
		if ty.Width != 4 && ty.Kind != ir.ScalarBool {
			in.fail("only 32-bit scalars are modelled")
		}
		return &Val{K: kindOf(ty.Kind)}
	case ir.AtomicType:
		return &Val{K: kindOf(ty.Scalar.Kind)}
	case ir.VectorType:
		v := &Val{K: 'V'}
		for i := 0; i < int(ty.Size); i++ {
			v.E = append(v.E, &Val{K: kindOf(ty.Scalar.Kind)})
		}
		return v
	case ir.MatrixType:
		v := &Val{K: 'M'}
		for c := 0; c < int(ty.Columns); c++ {
			col := &Val{K: 'V'}
			for r := 0; r < int(ty.Rows); r++ {
				col.E = append(col.E, &Val{K: 'f'})
			}
			v.E = append(v.E, col)
		}
		return v
	case ir.ArrayType:
		v := &Val{K: 'A'}
		n := 1
		if ty.Size.Constant != nil {
			n = int(*ty.Size.Constant)
		}
		for i := 0; i < n; i++ {
			v.E = append(v.E, in.zero(ty.Base))
		}
		return v
	case ir.StructType:
		v := &Val{K: 'S'}
		for _, m := range ty.Members {
			v.E = append(v.E, in.zero(m.Type))
		}
		return v
	case ir.PointerType:
		return &Val{K: 'P'}
	}
	in.fail("type kind not modelled")
	return &Val{K: 'i'}
}

func litVal(l ir.LiteralValue) (*Val, bool) {
	switch v := l.(type) {
	case ir.LiteralI32:
		return &Val{K: 'i', S: uint32(v)}, true
	case ir.LiteralU32:
		return &Val{K: 'u', S: uint32(v)}, true
	case ir.LiteralF32:
		return &Val{K: 'f', S: math.Float32bits(float32(v))}, true
	case ir.LiteralBool:
		if v {
			return &Val{K: 'b', S: 1}, true
		}
		return &Val{K: 'b'}, true
	case ir.LiteralAbstractInt:
		return &Val{K: 'i', S: uint32(int64(v))}, true
	case ir.LiteralAbstractFloat:
		return &Val{K: 'f', S: math.Float32bits(float32(v))}, true
	}
	return nil, false
}

// ---- global (constant) expressions ----

func (in *Interp) globalExpr(h ir.ExpressionHandle) *Val {
	if int(h) >= len(in.Mod.GlobalExpressions) {
		in.fail("global expression handle out of range")
		return &Val{K: 'i'}
	}
	switch k := in.Mod.GlobalExpressions[h].Kind.(type) {
	case ir.Literal:
		if v, ok := litVal(k.Value); ok {
			return v
		}
	case ir.ExprConstant:
		return in.constant(k.Constant)
	case ir.ExprZeroValue:
		return in.zero(k.Type)
	case ir.ExprCompose:
		var cs []*Val
		for _, c := range k.Components {
			cs = append(cs, in.globalExpr(c))
		}
		return in.compose(k.Type, cs)
	case ir.ExprSplat:
		v := in.globalExpr(k.Value)
		r := &Val{K: 'V'}
		for i := 0; i < int(k.Size); i++ {
			r.E = append(r.E, v.clone())
		}
		return r
	case ir.ExprUnary:
		return in.unary(k.Op, in.globalExpr(k.Expr))
	case ir.ExprBinary:
		return in.binary(k.Op, in.globalExpr(k.Left), in.globalExpr(k.Right))
	case ir.ExprAs:
		return in.as(in.globalExpr(k.Expr), k.Kind, k.Convert != nil)
	}
	in.fail("global expression kind not modelled")
	return &Val{K: 'i'}
}

func (in *Interp) constant(h ir.ConstantHandle) *Val {
	if int(h) >= len(in.Mod.Constants) {
		in.fail("constant handle out of range")
		return &Val{K: 'i'}
	}
	c := &in.Mod.Constants[h]
	switch v := c.Value.(type) {
	case ir.ScalarValue:
		return &Val{K: kindOf(v.Kind), S: uint32(v.Bits)}
	case ir.ZeroConstantValue:
		return in.zero(c.Type)
	case ir.CompositeValue:
		var cs []*Val
		for _, cc := range v.Components {
			cs = append(cs, in.constant(cc))
		}
		return in.compose(c.Type, cs)
	}
	return in.globalExpr(c.Init)
}

func flat(v *Val, out []*Val) []*Val {
	if v.scalar() {
		return append(out, v)
	}
	for _, e := range v.E {
		out = flat(e, out)
	}
	return out
}

func (in *Interp) compose(t ir.TypeHandle, cs []*Val) *Val {
	r := in.zero(t)
	switch r.K {
	case 'V':
		var comps []*Val
		for _, c := range cs {
			comps = flat(c, comps)
		}
		if len(comps) != len(r.E) {
			in.fail("Compose of a vector with a wrong number of components")
			return r
		}
		for i := range r.E {
			r.E[i] = comps[i].clone()
		}
	case 'M':
		if len(cs) == len(r.E) {
			for i := range r.E {
				r.E[i] = cs[i].clone()
			}
			break
		}
		var comps []*Val
		for _, c := range cs {
			comps = flat(c, comps)
		}
		rows := len(r.E[0].E)
		if len(comps) != len(r.E)*rows {
			in.fail("Compose of a matrix with a wrong number of components")
			return r
		}
		for c := range r.E {
			for k := 0; k < rows; k++ {
				r.E[c].E[k] = comps[c*rows+k].clone()
			}
		}
	case 'A', 'S':
		if len(cs) != len(r.E) {
			in.fail("Compose of an aggregate with a wrong number of components")
			return r
		}
		for i := range r.E {
			r.E[i] = cs[i].clone()
		}
	default:
		if len(cs) == 1 {
			return cs[0].clone()
		}
		in.fail("Compose of a scalar type")
	}
	return r
}

// ---- operators (WGSL semantics) ----

func b2u(b bool) uint32 {
	if b {
		return 1
	}
	return 0
}
func bv(b bool) *Val { return &Val{K: 'b', S: b2u(b)} }

func (in *Interp) unary(op ir.UnaryOperator, a *Val) *Val {
	if !a.scalar() {
		r := &Val{K: a.K}
		for _, e := range a.E {
			r.E = append(r.E, in.unary(op, e))
		}
		return r
	}
	switch op {
	case ir.UnaryNegate:
		if a.K == 'f' {
			return &Val{K: 'f', S: a.S ^ 0x80000000}
		}
		return &Val{K: a.K, S: -a.S}
	case ir.UnaryLogicalNot:
		return bv(a.S == 0)
	case ir.UnaryBitwiseNot:
		return &Val{K: a.K, S: ^a.S}
	}
	in.fail("unary operator not modelled")
	return a
}

func (in *Interp) scalarBin(op ir.BinaryOperator, a, b *Val) *Val {
	f := func(s uint32) float32 { return math.Float32frombits(s) }
	switch op {
	case ir.BinaryLogicalAnd:
		return bv(a.S != 0 && b.S != 0)
	case ir.BinaryLogicalOr:
		return bv(a.S != 0 || b.S != 0)
	case ir.BinaryShiftLeft:
		return &Val{K: a.K, S: a.S << (b.S & 31)}
	case ir.BinaryShiftRight:
		if a.K == 'i' {
			return &Val{K: 'i', S: uint32(int32(a.S) >> (b.S & 31))}
		}
		return &Val{K: a.K, S: a.S >> (b.S & 31)}
	}
	k := a.K
	switch k {
	case 'b':
		switch op {
		case ir.BinaryEqual:
			return bv((a.S != 0) == (b.S != 0))
		case ir.BinaryNotEqual:
			return bv((a.S != 0) != (b.S != 0))
		case ir.BinaryAnd:
			return bv(a.S != 0 && b.S != 0)
		case ir.BinaryInclusiveOr:
			return bv(a.S != 0 || b.S != 0)
		case ir.BinaryExclusiveOr:
			return bv((a.S != 0) != (b.S != 0))
		}
	case 'f':
		x, y := f(a.S), f(b.S)
		switch op {
		case ir.BinaryAdd:
			return &Val{K: 'f', S: math.Float32bits(x + y)}
		case ir.BinarySubtract:
			return &Val{K: 'f', S: math.Float32bits(x - y)}
		case ir.BinaryMultiply:
			return &Val{K: 'f', S: math.Float32bits(x * y)}
		case ir.BinaryDivide:
			return &Val{K: 'f', S: math.Float32bits(x / y)}
		case ir.BinaryEqual:
			return bv(x == y)
		case ir.BinaryNotEqual:
			return bv(x != y)
		case ir.BinaryLess:
			return bv(x < y)
		case ir.BinaryLessEqual:
			return bv(x <= y)
		case ir.BinaryGreater:
			return bv(x > y)
		case ir.BinaryGreaterEqual:
			return bv(x >= y)
		}
	case 'i':
		x, y := int32(a.S), int32(b.S)
		switch op {
		case ir.BinaryAdd:
			return &Val{K: 'i', S: a.S + b.S}
		case ir.BinarySubtract:
			return &Val{K: 'i', S: a.S - b.S}
		case ir.BinaryMultiply:
			return &Val{K: 'i', S: a.S * b.S}
		case ir.BinaryDivide:
			if y == 0 || (x == -2147483648 && y == -1) {
				return &Val{K: 'i', S: a.S}
			}
			return &Val{K: 'i', S: uint32(x / y)}
		case ir.BinaryModulo:
			if y == 0 || (x == -2147483648 && y == -1) {
				return &Val{K: 'i'}
			}
			return &Val{K: 'i', S: uint32(x % y)}
		case ir.BinaryAnd:
			return &Val{K: 'i', S: a.S & b.S}
		case ir.BinaryInclusiveOr:
			return &Val{K: 'i', S: a.S | b.S}
		case ir.BinaryExclusiveOr:
			return &Val{K: 'i', S: a.S ^ b.S}
		case ir.BinaryEqual:
			return bv(x == y)
		case ir.BinaryNotEqual:
			return bv(x != y)
		case ir.BinaryLess:
			return bv(x < y)
		case ir.BinaryLessEqual:
			return bv(x <= y)
		case ir.BinaryGreater:
			return bv(x > y)
		case ir.BinaryGreaterEqual:
			return bv(x >= y)
		}
	case 'u':
		x, y := a.S, b.S
		switch op {
		case ir.BinaryAdd:
			return &Val{K: 'u', S: x + y}
		case ir.BinarySubtract:
			return &Val{K: 'u', S: x - y}
		case ir.BinaryMultiply:
			return &Val{K: 'u', S: x * y}
		case ir.BinaryDivide:
			if y == 0 {
				return &Val{K: 'u', S: x}
			}
			return &Val{K: 'u', S: x / y}
		case ir.BinaryModulo:
			if y == 0 {
				return &Val{K: 'u'}
			}
			return &Val{K: 'u', S: x % y}
		case ir.BinaryAnd:
			return &Val{K: 'u', S: x & y}
		case ir.BinaryInclusiveOr:
			return &Val{K: 'u', S: x | y}
		case ir.BinaryExclusiveOr:
			return &Val{K: 'u', S: x ^ y}
		case ir.BinaryEqual:
			return bv(x == y)
		case ir.BinaryNotEqual:
			return bv(x != y)
		case ir.BinaryLess:
			return bv(x < y)
		case ir.BinaryLessEqual:
			return bv(x <= y)
		case ir.BinaryGreater:
			return bv(x > y)
		case ir.BinaryGreaterEqual:
			return bv(x >= y)
		}
	}
	in.fail("binary operator not modelled for this operand kind")
	return a
}

func (in *Interp) binary(op ir.BinaryOperator, a, b *Val) *Val {
	if a.scalar() && b.scalar() {
		return in.scalarBin(op, a, b)
	}
	if (a.K == 'V' || a.scalar()) && (b.K == 'V' || b.scalar()) {
		n := len(a.E)
		if b.K == 'V' {
			if a.K == 'V' && len(b.E) != n {
				in.fail("vector size mismatch")
				return a
			}
			n = len(b.E)
		}
		r := &Val{K: 'V'}
		for i := 0; i < n; i++ {
			x, y := a, b
			if a.K == 'V' {
				x = a.E[i]
			}
			if b.K == 'V' {
				y = b.E[i]
			}
			r.E = append(r.E, in.scalarBin(op, x, y))
		}
		return r
	}
	in.fail("binary operator on matrices/aggregates is not modelled")
	return a
}

func (in *Interp) as(v *Val, kind ir.ScalarKind, convert bool) *Val {
	if !v.scalar() {
		r := &Val{K: v.K}
		for _, e := range v.E {
			r.E = append(r.E, in.as(e, kind, convert))
		}
		return r
	}
	to := kindOf(kind)
	if !convert || to == v.K {
		return &Val{K: to, S: v.S}
	}
	switch to {
	case 'b':
		if v.K == 'f' {
			return bv(math.Float32frombits(v.S) != 0)
		}
		return bv(v.S != 0)
	case 'i', 'u':
		if v.K == 'f' {
			in.fail("float to integer conversion is not modelled")
		}
		return &Val{K: to, S: v.S}
	case 'f':
		switch v.K {
		case 'i':
			return &Val{K: 'f', S: math.Float32bits(float32(int32(v.S)))}
		case 'u':
			return &Val{K: 'f', S: math.Float32bits(float32(v.S))}
		case 'b':
			if v.S != 0 {
				return &Val{K: 'f', S: math.Float32bits(1)}
			}
			return &Val{K: 'f'}
		}
	}
	in.fail("conversion not modelled")
	return v
}

// ---- function frames ----

type flow int

const (
	flowNone flow = iota
	flowBreak
	flowContinue
	flowReturn
)

type frame struct {
	fn     *ir.Function
	cache  []*Val
	locals []*Val
	args   []*Val
	edge   ir.PhiPredKey
	caseIx uint32
	hasEdg bool
	ret    *Val
}

func needsEmit(k ir.ExpressionKind) bool {
	switch k.(type) {
	case ir.Literal, ir.ExprConstant, ir.ExprOverride, ir.ExprZeroValue, ir.ExprFunctionArgument, ir.ExprGlobalVariable,
		ir.ExprLocalVariable, ir.ExprCallResult, ir.ExprAtomicResult, ir.ExprWorkGroupUniformLoadResult, ir.ExprAlias:
		return false
	}
	return true
}

// value returns the value of expression h as seen by a user of h.
func (in *Interp) value(fr *frame, h ir.ExpressionHandle) *Val {
	if int(h) >= len(fr.fn.Expressions) {
		in.fail("expression handle out of range")
		return &Val{K: 'i'}
	}
	k := fr.fn.Expressions[h].Kind
	if al, ok := k.(ir.ExprAlias); ok {
		return in.value(fr, al.Source)
	}
	if v := fr.cache[h]; v != nil {
		return v
	}
	if needsEmit(k) {
		// Not covered by a StmtEmit on this path. naga's Go back ends materialise such an
		// expression where it is first used (the inliner relies on it for the loads that
		// replace call results), so it is evaluated at the use, without caching.
		in.Lazy++
		return in.evalFresh(fr, h)
	}
	switch k.(type) {
	case ir.ExprCallResult, ir.ExprAtomicResult, ir.ExprWorkGroupUniformLoadResult:
		zz.Assert(false, "IR uses a call/atomic result before the statement that produces it")
		in.fail("use of a result before its statement")
		return &Val{K: 'i'}
	}
	return in.evalFresh(fr, h)
}

func (in *Interp) index(base *Val, ix uint32, dynamic bool) *Val {
	target := base
	ptr := base.K == 'P'
	if ptr {
		target = base.P
	}
	if target == nil || target.scalar() || len(target.E) == 0 {
		in.fail("indexing a value without components")
		return &Val{K: 'i'}
	}
	if dynamic {
		zz.Assert(ix < uint32(len(target.E)), "dynamic index out of bounds in the IR program (the reference leaves the result unspecified; templates must stay in bounds)")
	}
	if ix >= uint32(len(target.E)) {
		in.fail("index out of bounds")
		return &Val{K: 'i'}
	}
	if ptr {
		return &Val{K: 'P', P: target.E[ix]}
	}
	return target.E[ix]
}

func (in *Interp) evalFresh(fr *frame, h ir.ExpressionHandle) *Val {
	switch k := fr.fn.Expressions[h].Kind.(type) {
	case ir.Literal:
		if v, ok := litVal(k.Value); ok {
			return v
		}
		in.fail("literal kind not modelled")
	case ir.ExprConstant:
		return in.constant(k.Constant)
	case ir.ExprZeroValue:
		return in.zero(k.Type)
	case ir.ExprCompose:
		var cs []*Val
		for _, c := range k.Components {
			cs = append(cs, in.value(fr, c))
		}
		return in.compose(k.Type, cs)
	case ir.ExprSplat:
		v := in.value(fr, k.Value)
		r := &Val{K: 'V'}
		for i := 0; i < int(k.Size); i++ {
			r.E = append(r.E, v.clone())
		}
		return r
	case ir.ExprSwizzle:
		v := in.value(fr, k.Vector)
		r := &Val{K: 'V'}
		for i := 0; i < int(k.Size); i++ {
			c := int(k.Pattern[i])
			if v.K != 'V' || c >= len(v.E) {
				in.fail("swizzle out of range")
				return r
			}
			r.E = append(r.E, v.E[c].clone())
		}
		return r
	case ir.ExprAccess:
		ix := in.value(fr, k.Index)
		return in.index(in.value(fr, k.Base), ix.S, true)
	case ir.ExprAccessIndex:
		return in.index(in.value(fr, k.Base), k.Index, false)
	case ir.ExprFunctionArgument:
		if int(k.Index) >= len(fr.args) {
			in.fail("function argument index out of range")
			return &Val{K: 'i'}
		}
		return fr.args[k.Index]
	case ir.ExprGlobalVariable:
		if int(k.Variable) >= len(in.globals) {
			in.fail("global variable handle out of range")
			return &Val{K: 'i'}
		}
		return &Val{K: 'P', P: in.globals[k.Variable]}
	case ir.ExprLocalVariable:
		if int(k.Variable) >= len(fr.locals) {
			in.fail("local variable index out of range")
			return &Val{K: 'i'}
		}
		return &Val{K: 'P', P: fr.locals[k.Variable]}
	case ir.ExprLoad:
		p := in.value(fr, k.Pointer)
		if p.K != 'P' || p.P == nil {
			in.fail("Load of a non-pointer")
			return &Val{K: 'i'}
		}
		return p.P.clone()
	case ir.ExprUnary:
		return in.unary(k.Op, in.value(fr, k.Expr))
	case ir.ExprBinary:
		return in.binary(k.Op, in.value(fr, k.Left), in.value(fr, k.Right))
	case ir.ExprSelect:
		c, a, r := in.value(fr, k.Condition), in.value(fr, k.Accept), in.value(fr, k.Reject)
		if c.K == 'V' {
			out := &Val{K: 'V'}
			for i := range c.E {
				if c.E[i].S != 0 {
					out.E = append(out.E, a.E[i].clone())
				} else {
					out.E = append(out.E, r.E[i].clone())
				}
			}
			return out
		}
		if c.S != 0 {
			return a.clone()
		}
		return r.clone()
	case ir.ExprAs:
		return in.as(in.value(fr, k.Expr), k.Kind, k.Convert != nil)
	case ir.ExprRelational:
		v := in.value(fr, k.Argument)
		switch k.Fun {
		case ir.RelationalAll:
			r := true
			for _, c := range flat(v, nil) {
				if c.S == 0 {
					r = false
				}
			}
			return bv(r)
		case ir.RelationalAny:
			r := false
			for _, c := range flat(v, nil) {
				if c.S != 0 {
					r = true
				}
			}
			return bv(r)
		}
		in.fail("relational function not modelled")
	case ir.ExprMath:
		return in.math(fr, k)
	case ir.ExprPhi:
		zz.Assert(fr.hasEdg, "ExprPhi evaluated where no structured-CFG edge has been taken")
		for _, inc := range k.Incoming {
			if inc.PredKey == fr.edge && (inc.PredKey != ir.PhiPredSwitchCase || inc.CaseIdx == fr.caseIx) {
				return in.value(fr, inc.Value).clone()
			}
		}
		zz.Assert(false, "ExprPhi has no incoming value for the edge along which control arrived")
		in.fail("phi without a matching incoming edge")
	default:
		in.fail("expression kind not modelled")
	}
	return &Val{K: 'i'}
}

func (in *Interp) math(fr *frame, k ir.ExprMath) *Val {
	args := []*Val{in.value(fr, k.Arg)}
	for _, a := range []*ir.ExpressionHandle{k.Arg1, k.Arg2, k.Arg3} {
		if a != nil {
			args = append(args, in.value(fr, *a))
		}
	}
	switch k.Fun {
	case ir.MathDot:
		if len(args) == 2 && args[0].K == 'V' && args[1].K == 'V' && len(args[0].E) == len(args[1].E) {
			acc := in.scalarBin(ir.BinaryMultiply, args[0].E[0], args[1].E[0])
			for i := 1; i < len(args[0].E); i++ {
				acc = in.scalarBin(ir.BinaryAdd, acc, in.scalarBin(ir.BinaryMultiply, args[0].E[i], args[1].E[i]))
			}
			return acc
		}
		in.fail("dot of non-vectors")
		return &Val{K: 'i'}
	case ir.MathPack4xU8, ir.MathPack4xI8:
		if args[0].K == 'V' && len(args[0].E) == 4 {
			e := args[0].E
			return &Val{K: 'u', S: e[0].S&0xFF | (e[1].S&0xFF)<<8 | (e[2].S&0xFF)<<16 | (e[3].S&0xFF)<<24}
		}
		in.fail("pack4x8 of a non-vec4")
		return &Val{K: 'u'}
	case ir.MathUnpack4xU8:
		r := &Val{K: 'V'}
		for i := uint(0); i < 4; i++ {
			r.E = append(r.E, &Val{K: 'u', S: args[0].S >> (8 * i) & 0xFF})
		}
		return r
	case ir.MathUnpack4xI8:
		r := &Val{K: 'V'}
		for i := uint(0); i < 4; i++ {
			r.E = append(r.E, &Val{K: 'i', S: uint32(int32(int8(args[0].S >> (8 * i))))})
		}
		return r
	}
	n := 0
	for _, a := range args {
		if a.K == 'V' {
			n = len(a.E)
		}
	}
	comp := func(xs []*Val) *Val {
		lt := func(a, b *Val) bool { return in.scalarBin(ir.BinaryLess, a, b).S != 0 }
		switch k.Fun {
		case ir.MathAbs:
			x := xs[0]
			if x.K == 'f' {
				return &Val{K: 'f', S: x.S &^ 0x80000000}
			}
			if x.K == 'i' && int32(x.S) < 0 {
				return &Val{K: 'i', S: -x.S}
			}
			return x
		case ir.MathMin:
			if lt(xs[1], xs[0]) {
				return xs[1]
			}
			return xs[0]
		case ir.MathMax:
			if lt(xs[0], xs[1]) {
				return xs[1]
			}
			return xs[0]
		case ir.MathClamp:
			v := xs[0]
			if lt(v, xs[1]) {
				v = xs[1]
			}
			if lt(xs[2], v) {
				v = xs[2]
			}
			return v
		case ir.MathCountOneBits:
			return &Val{K: xs[0].K, S: popc32(xs[0].S)}
		case ir.MathReverseBits:
			return &Val{K: xs[0].K, S: rev32(xs[0].S)}
		case ir.MathCountLeadingZeros:
			return &Val{K: xs[0].K, S: clz32(xs[0].S)}
		case ir.MathCountTrailingZeros:
			return &Val{K: xs[0].K, S: ctz32(xs[0].S)}
		case ir.MathFirstLeadingBit:
			x := xs[0].S
			if xs[0].K == 'i' {
				x ^= uint32(int32(x) >> 31)
			}
			return &Val{K: xs[0].K, S: 31 - clz32(x)}
		case ir.MathFirstTrailingBit:
			tz := ctz32(xs[0].S)
			return &Val{K: xs[0].K, S: tz | -(tz >> 5)}
		case ir.MathExtractBits:
			o := xs[1].S
			if o > 32 {
				o = 32
			}
			c := xs[2].S
			if c > 32-o {
				c = 32 - o
			}
			v := uint32((uint64(xs[0].S) >> o) & (uint64(1)<<c - 1))
			if xs[0].K == 'i' && c > 0 && c < 32 {
				sh := 32 - c
				v = uint32(int32(v<<sh) >> sh)
			}
			return &Val{K: xs[0].K, S: v}
		case ir.MathInsertBits:
			o := xs[2].S
			if o > 32 {
				o = 32
			}
			c := xs[3].S
			if c > 32-o {
				c = 32 - o
			}
			mask := uint32((uint64(1)<<c - 1) << o)
			return &Val{K: xs[0].K, S: xs[0].S&^mask | uint32(uint64(xs[1].S)<<o)&mask}
		}
		in.fail("math function not modelled")
		return xs[0]
	}
	if n == 0 {
		return comp(args).clone()
	}
	r := &Val{K: 'V'}
	for i := 0; i < n; i++ {
		xs := make([]*Val, len(args))
		for j, a := range args {
			if a.K == 'V' {
				xs[j] = a.E[i]
			} else {
				xs[j] = a
			}
		}
		r.E = append(r.E, comp(xs).clone())
	}
	return r
}

func storeInto(dst, src *Val) bool {
	if dst.scalar() {
		if !src.scalar() {
			return false
		}
		dst.S = src.S
		return true
	}
	if dst.K == 'P' {
		dst.P = src.P
		return true
	}
	if len(dst.E) != len(src.E) {
		return false
	}
	for i := range dst.E {
		if !storeInto(dst.E[i], src.E[i]) {
			return false
		}
	}
	return true
}

func (in *Interp) tick() bool {
	in.steps++
	if in.steps > in.StepMax {
		zz.Assert(false, "reference IR interpreter: step budget exhausted (non-terminating IR?)")
		in.fail("step budget")
	}
	return in.err == ""
}

func (in *Interp) block(fr *frame, b ir.Block) flow {
	for i := range b {
		if f := in.stmt(fr, &b[i]); f != flowNone {
			return f
		}
	}
	return flowNone
}

func (in *Interp) stmt(fr *frame, s *ir.Statement) flow {
	if !in.tick() {
		return flowReturn
	}
	switch k := s.Kind.(type) {
	case ir.StmtEmit:
		for h := k.Range.Start; h < k.Range.End; h++ {
			if int(h) >= len(fr.fn.Expressions) {
				in.fail("emit range out of bounds")
				return flowReturn
			}
			if needsEmit(fr.fn.Expressions[h].Kind) {
				fr.cache[h] = in.evalFresh(fr, h)
			}
		}
	case ir.StmtBlock:
		return in.block(fr, k.Block)
	case ir.StmtIf:
		c := in.value(fr, k.Condition)
		if c.S != 0 {
			if f := in.block(fr, k.Accept); f != flowNone {
				return f
			}
			fr.edge, fr.hasEdg = ir.PhiPredIfAccept, true
		} else {
			if f := in.block(fr, k.Reject); f != flowNone {
				return f
			}
			fr.edge, fr.hasEdg = ir.PhiPredIfReject, true
		}
	case ir.StmtSwitch:
		sel := in.value(fr, k.Selector)
		start := -1
		for i, c := range k.Cases {
			switch v := c.Value.(type) {
			case ir.SwitchValueI32:
				if start < 0 && uint32(v) == sel.S {
					start = i
				}
			case ir.SwitchValueU32:
				if start < 0 && uint32(v) == sel.S {
					start = i
				}
			}
		}
		if start < 0 {
			for i, c := range k.Cases {
				if _, ok := c.Value.(ir.SwitchValueDefault); ok {
					start = i
				}
			}
		}
		if start < 0 {
			fr.edge, fr.hasEdg = ir.PhiPredFallThrough, true
			return flowNone
		}
		for i := start; i < len(k.Cases); i++ {
			f := in.block(fr, k.Cases[i].Body)
			if f == flowBreak {
				fr.edge, fr.caseIx, fr.hasEdg = ir.PhiPredSwitchCase, uint32(i), true
				return flowNone
			}
			if f != flowNone {
				return f
			}
			if !k.Cases[i].FallThrough {
				fr.edge, fr.caseIx, fr.hasEdg = ir.PhiPredSwitchCase, uint32(i), true
				return flowNone
			}
		}
		fr.edge, fr.caseIx, fr.hasEdg = ir.PhiPredSwitchCase, uint32(len(k.Cases)-1), true
	case ir.StmtLoop:
		first := true
		for in.err == "" && in.tick() {
			if first {
				fr.edge, fr.hasEdg = ir.PhiPredLoopInit, true
			} else {
				fr.edge, fr.hasEdg = ir.PhiPredLoopBackEdge, true
			}
			first = false
			f := in.block(fr, k.Body)
			if f == flowBreak {
				break
			}
			if f == flowReturn {
				return f
			}
			f = in.block(fr, k.Continuing)
			if f == flowReturn {
				return f
			}
			if f == flowBreak {
				break
			}
			if k.BreakIf != nil && in.value(fr, *k.BreakIf).S != 0 {
				break
			}
		}
	case ir.StmtBreak:
		return flowBreak
	case ir.StmtContinue:
		return flowContinue
	case ir.StmtReturn:
		if k.Value != nil {
			fr.ret = in.value(fr, *k.Value).clone()
		}
		return flowReturn
	case ir.StmtKill:
		return flowReturn
	case ir.StmtBarrier:
	case ir.StmtStore:
		p := in.value(fr, k.Pointer)
		v := in.value(fr, k.Value)
		if p.K != 'P' || p.P == nil {
			in.fail("Store through a non-pointer")
			return flowReturn
		}
		if !storeInto(p.P, v.clone()) {
			in.fail("Store of a value whose shape differs from the destination")
			return flowReturn
		}
	case ir.StmtCall:
		if int(k.Function) >= len(in.Mod.Functions) {
			in.fail("call of a function handle out of range")
			return flowReturn
		}
		var args []*Val
		for _, a := range k.Arguments {
			args = append(args, in.value(fr, a))
		}
		r := in.call(&in.Mod.Functions[k.Function], args)
		if k.Result != nil {
			if r == nil {
				in.fail("call result of a function that returned no value")
				return flowReturn
			}
			fr.cache[*k.Result] = r
		}
	case ir.StmtWorkGroupUniformLoad:
		p := in.value(fr, k.Pointer)
		if p.K == 'P' && p.P != nil {
			fr.cache[k.Result] = p.P.clone()
		}
	default:
		in.fail("statement kind not modelled")
		return flowReturn
	}
	return flowNone
}

func (in *Interp) call(fn *ir.Function, args []*Val) *Val {
	in.depth++
	if in.depth > 40 {
		in.fail("call depth (recursive IR?)")
		in.depth--
		return nil
	}
	fr := &frame{fn: fn, cache: make([]*Val, len(fn.Expressions)), args: args}
	for i := range fn.LocalVars {
		fr.locals = append(fr.locals, in.zero(fn.LocalVars[i].Type))
	}
	for i := range fn.LocalVars {
		if init := fn.LocalVars[i].Init; init != nil {
			storeInto(fr.locals[i], in.value(fr, *init).clone())
		}
	}
	in.block(fr, fn.Body)
	in.depth--
	return fr.ret
}

func u3(x, y, z uint32) *Val {
	return &Val{K: 'V', E: []*Val{{K: 'u', S: x}, {K: 'u', S: y}, {K: 'u', S: z}}}
}

func (in *Interp) builtinArg(b ir.Binding) *Val {
	bb, ok := b.(ir.BuiltinBinding)
	if !ok {
		return nil
	}
	w, sz := in.WorkgroupID, in.WorkgroupSize
	switch bb.Builtin {
	case ir.BuiltinLocalInvocationID:
		return u3(0, 0, 0)
	case ir.BuiltinLocalInvocationIndex:
		return &Val{K: 'u'}
	case ir.BuiltinWorkGroupID:
		return u3(w[0], w[1], w[2])
	case ir.BuiltinGlobalInvocationID:
		return u3(w[0]*sz[0], w[1]*sz[1], w[2]*sz[2])
	}
	return nil
}

// Run executes entry point `entry` for local invocation (0,0,0) of workgroup in.WorkgroupID:
// the storage buffer bound at (group 0, binding 0) holds `buf`; workgroup and private variables
// start zero-initialised (or with their initialiser), as WGSL prescribes. Returns the final
// buffer words.
func (in *Interp) Run(entry string, buf []uint32) ([]uint32, string) {
	in.err, in.steps, in.depth = "", 0, 0
	if in.StepMax == 0 {
		in.StepMax = 20000
	}
	for i := range in.WorkgroupSize {
		if in.WorkgroupSize[i] == 0 {
			in.WorkgroupSize[i] = 1
		}
	}
	in.globals = nil
	var buffer *Val
	for i := range in.Mod.GlobalVariables {
		g := &in.Mod.GlobalVariables[i]
		v := in.zero(g.Type)
		if g.InitExpr != nil {
			storeInto(v, in.globalExpr(*g.InitExpr))
		} else if g.Init != nil {
			storeInto(v, in.constant(*g.Init))
		}
		if g.Binding != nil && g.Binding.Group == 0 && g.Binding.Binding == 0 && buffer == nil {
			buffer = v
			at := 0
			for _, c := range flat(v, nil) {
				if at < len(buf) {
					c.S = buf[at]
				}
				at++
			}
		}
		in.globals = append(in.globals, v)
	}
	var ep *ir.EntryPoint
	for i := range in.Mod.EntryPoints {
		if in.Mod.EntryPoints[i].Name == entry {
			ep = &in.Mod.EntryPoints[i]
		}
	}
	if ep == nil {
		return nil, "entry point not found"
	}
	var args []*Val
	for _, a := range ep.Function.Arguments {
		v := in.zero(a.Type)
		if a.Binding != nil {
			if b := in.builtinArg(*a.Binding); b != nil {
				v = b
			}
		} else if st, ok := in.Mod.Types[a.Type].Inner.(ir.StructType); ok {
			for k, m := range st.Members {
				if m.Binding != nil {
					if b := in.builtinArg(*m.Binding); b != nil {
						v.E[k] = b
					}
				}
			}
		}
		args = append(args, v)
	}
	in.call(&ep.Function, args)
	if in.err != "" {
		return nil, in.err
	}
	if buffer == nil {
		return nil, "no storage buffer at (0,0)"
	}
	var out []uint32
	for _, c := range flat(buffer, nil) {
		out = append(out, c.S)
	}
	return out, ""
}

// branch-free bit counting (the reference closures of the templates use math/bits)
func popc32(x uint32) uint32 {
	// sum of the bits (the SWAR multiply form is not decided by the solvers against it)
	var n uint32
	for i := uint(0); i < 32; i++ {
		n += x >> i & 1
	}
	return n
}

func clz32(x uint32) uint32 {
	x |= x >> 1
	x |= x >> 2
	x |= x >> 4
	x |= x >> 8
	x |= x >> 16
	return 32 - popc32(x)
}

func ctz32(x uint32) uint32 { return popc32((x & -x) - 1) }

func rev32(x uint32) uint32 {
	x = x>>1&0x55555555 | x&0x55555555<<1
	x = x>>2&0x33333333 | x&0x33333333<<2
	x = x>>4&0x0F0F0F0F | x&0x0F0F0F0F<<4
	x = x>>8&0x00FF00FF | x&0x00FF00FF<<8
	return x>>16 | x<<16
}
