//go:build verif

// Package zzspv is the reference SPIR-V executor used as the oracle of the translation-
// validation harnesses. It is harness code (overlay only), written from the SPIR-V specification.
package zzspv

import (
	"fmt"
	"math"

	zz "github.com/gogpu/naga/internal/zzverif"
)

type Inst struct {
	Op    uint32
	Words []uint32 // operands (without the first word)
}

// Parse splits a SPIR-V binary into instructions; ok=false when the stream is malformed.
func Parse(out []byte) (bound uint32, insts []Inst, ok bool) {
	if len(out)%4 != 0 || len(out) < 20 {
		return 0, nil, false
	}
	n := len(out) / 4
	w := func(i int) uint32 {
		return uint32(out[4*i]) | uint32(out[4*i+1])<<8 | uint32(out[4*i+2])<<16 | uint32(out[4*i+3])<<24
	}
	if w(0) != 0x07230203 {
		return 0, nil, false
	}
	bound = w(3)
	pos := 5
	for pos < n {
		h := w(pos)
		wc, op := int(h>>16), h&0xFFFF
		if wc < 1 || pos+wc > n {
			return bound, insts, false
		}
		in := Inst{Op: op}
		for i := 1; i < wc; i++ {
			in.Words = append(in.Words, w(pos+i))
		}
		insts = append(insts, in)
		pos += wc
	}
	return bound, insts, true
}

const (
	opDecorate   = 71
	opVariable   = 59
	opEntryPoint = 15
	decoBinding  = 33
	decoDescSet  = 34
)

func b2u(b bool) uint32 {
	if b {
		return 1
	}
	return 0
}

// ---- reference SPIR-V executor for whole entry points (written from the SPIR-V
// specification): 32-bit scalars, vectors, arrays, structs, storage/private/function
// variables, access chains, function calls, structured control flow. Undefined behaviour
// (division by zero, out-of-bounds access chains, reading an id before its definition) is
// reported through zz.Assert. Floats are IEEE binary32 with round-to-nearest-even. ----

// Tree is a value of any type: a leaf holds scalar/vector components (bit patterns), an
// aggregate holds children.
type Tree struct {
	Leaf []uint32
	Kids []*Tree
	Agg  bool
}

func (t *Tree) clone() *Tree {
	if t == nil {
		return nil
	}
	c := &Tree{Agg: t.Agg, Leaf: append([]uint32(nil), t.Leaf...)}
	for _, k := range t.Kids {
		c.Kids = append(c.Kids, k.clone())
	}
	return c
}

type spvType struct {
	Op    uint32 // OpTypeXxx
	words []uint32
}

type ptr struct {
	root *Tree
	path []uint32
	comp int // >= 0: component of a vector leaf
}

type Exec struct {
	insts   []Inst
	types   map[uint32]spvType
	consts  map[uint32]*Tree
	globals map[uint32]*Tree // OpVariable id -> storage
	fnStart map[uint32]int
	steps   int
	// ByteImages: the words given to / returned from RunEntry are the byte image of each
	// buffer, mapped onto the variable by the explicit layout decorations of its type
	// (Offset, ArrayStride, MatrixStride) instead of by declaration order.
	ByteImages bool
	varType    map[[2]uint32]uint32 // resource key -> pointee type id
}

func NewExec(out []byte) (*Exec, bool) {
	_, insts, ok := Parse(out)
	if !ok {
		return nil, false
	}
	e := &Exec{insts: insts, types: map[uint32]spvType{}, consts: map[uint32]*Tree{}, globals: map[uint32]*Tree{}, fnStart: map[uint32]int{}}
	for i, in := range insts {
		switch in.Op {
		case 19, 20, 21, 22, 23, 24, 28, 29, 30, 32, 33: // void bool int float vector matrix array rtarray struct pointer function
			e.types[in.Words[0]] = spvType{Op: in.Op, words: in.Words}
		case 43: // OpConstant
			e.consts[in.Words[1]] = &Tree{Leaf: []uint32{in.Words[2]}}
		case 41:
			e.consts[in.Words[1]] = &Tree{Leaf: []uint32{1}}
		case 42:
			e.consts[in.Words[1]] = &Tree{Leaf: []uint32{0}}
		case 44: // OpConstantComposite
			e.consts[in.Words[1]] = e.compose(in.Words[0], in.Words[2:], e.consts)
		case 46: // OpConstantNull
			e.consts[in.Words[1]] = e.zero(in.Words[0])
		case 54:
			e.fnStart[in.Words[1]] = i
		}
	}
	return e, true
}

func (e *Exec) isVectorOrScalar(ty uint32) bool {
	t := e.types[ty]
	return t.Op == 20 || t.Op == 21 || t.Op == 22 || t.Op == 23
}

func (e *Exec) numComps(ty uint32) int {
	t := e.types[ty]
	if t.Op == 23 {
		return int(t.words[2])
	}
	return 1
}

func (e *Exec) zero(ty uint32) *Tree {
	t := e.types[ty]
	switch t.Op {
	case 20, 21, 22:
		return &Tree{Leaf: []uint32{0}}
	case 23:
		return &Tree{Leaf: make([]uint32, t.words[2])}
	case 24: // matrix: columns
		r := &Tree{Agg: true}
		for i := uint32(0); i < t.words[2]; i++ {
			r.Kids = append(r.Kids, e.zero(t.words[1]))
		}
		return r
	case 28: // array: length is a constant id
		n := e.consts[t.words[2]].Leaf[0]
		r := &Tree{Agg: true}
		for i := uint32(0); i < n; i++ {
			r.Kids = append(r.Kids, e.zero(t.words[1]))
		}
		return r
	case 30:
		r := &Tree{Agg: true}
		for _, m := range t.words[1:] {
			r.Kids = append(r.Kids, e.zero(m))
		}
		return r
	}
	zz.Fail("reference SPIR-V executor: zero value of an unmodelled type")
	return &Tree{}
}

func (e *Exec) compose(ty uint32, parts []uint32, env map[uint32]*Tree) *Tree {
	if e.types[ty].Op == 23 {
		r := &Tree{}
		for _, p := range parts {
			r.Leaf = append(r.Leaf, env[p].Leaf...)
		}
		return r
	}
	r := &Tree{Agg: true}
	for _, p := range parts {
		r.Kids = append(r.Kids, env[p].clone())
	}
	return r
}

func f32(b uint32) float32  { return math.Float32frombits(b) }
func f32b(f float32) uint32 { return math.Float32bits(f) }

// resolve follows a pointer to the addressed subtree (or vector component).
func (p ptr) node() *Tree {
	n := p.root
	for _, i := range p.path {
		zz.Assert(int(i) < len(n.Kids), "OpAccessChain index out of bounds: undefined behaviour")
		if int(i) >= len(n.Kids) {
			return &Tree{Leaf: []uint32{0}}
		}
		n = n.Kids[i]
	}
	return n
}

type frame struct {
	env  map[uint32]*Tree
	ptrs map[uint32]ptr
}

// call executes function fn with argument values (pointers are passed through ptrArgs).
func (e *Exec) call(fn uint32, args []*Tree, ptrArgs []ptr, depth int) *Tree {
	zz.Assert(depth < 8, "reference SPIR-V executor: call depth")
	start, ok := e.fnStart[fn]
	zz.Assert(ok, "OpFunctionCall of an undefined function")
	if !ok {
		return nil
	}
	fr := &frame{env: map[uint32]*Tree{}, ptrs: map[uint32]ptr{}}
	for id, g := range e.globals {
		fr.ptrs[id] = ptr{root: g, comp: -1}
	}
	// index labels of this function
	labels := map[uint32]int{}
	end := start
	for i := start + 1; i < len(e.insts); i++ {
		if e.insts[i].Op == 248 {
			labels[e.insts[i].Words[0]] = i
		}
		if e.insts[i].Op == 56 {
			end = i
			break
		}
	}
	argi := 0
	pc := start + 1
	var prevLabel, curLabel uint32
	val := func(id uint32) *Tree {
		if v, ok := fr.env[id]; ok {
			return v
		}
		if c, ok := e.consts[id]; ok {
			return c
		}
		zz.Fail("SPIR-V id used before its definition")
		return &Tree{Leaf: []uint32{0, 0, 0, 0}}
	}
	jump := func(target uint32) {
		prevLabel = curLabel
		pc = labels[target]
	}
	for pc < end {
		e.steps++
		zz.Assert(e.steps < 4000, "reference SPIR-V executor: step budget exhausted (non-terminating code?)")
		if e.steps >= 4000 {
			return nil
		}
		in := e.insts[pc]
		pc++
		w := in.Words
		un := func(f func(a uint32) uint32) {
			a := val(w[2])
			r := &Tree{Leaf: make([]uint32, len(a.Leaf))}
			for i := range a.Leaf {
				r.Leaf[i] = f(a.Leaf[i])
			}
			fr.env[w[1]] = r
		}
		bin := func(f func(a, b uint32) uint32) {
			a, b := val(w[2]), val(w[3])
			zz.Assert(len(a.Leaf) == len(b.Leaf), "operand shapes differ")
			r := &Tree{Leaf: make([]uint32, len(a.Leaf))}
			for i := range a.Leaf {
				if i < len(b.Leaf) {
					r.Leaf[i] = f(a.Leaf[i], b.Leaf[i])
				}
			}
			fr.env[w[1]] = r
		}
		shiftAmt := func(b uint32) (uint32, bool) { return b, b < 32 }
		switch in.Op {
		case 55: // OpFunctionParameter
			if e.types[w[0]].Op == 32 {
				if argi < len(ptrArgs) {
					fr.ptrs[w[1]] = ptrArgs[argi]
				}
			} else if argi < len(args) {
				fr.env[w[1]] = args[argi]
			}
			argi++
		case 248: // OpLabel
			curLabel = w[0]
		case 59: // OpVariable (function scope): type is a pointer type
			pt := e.types[w[0]]
			store := e.zero(pt.words[2])
			if len(w) > 3 {
				store = val(w[3]).clone()
			}
			fr.ptrs[w[1]] = ptr{root: store, comp: -1}
		case 65, 66: // OpAccessChain / OpInBoundsAccessChain
			base, ok := fr.ptrs[w[2]]
			zz.Assert(ok, "access chain on an unknown pointer")
			p := ptr{root: base.root, path: append([]uint32(nil), base.path...), comp: base.comp}
			for _, ix := range w[3:] {
				iv := val(ix).Leaf[0]
				n := p.node()
				if !n.Agg {
					zz.Assert(p.comp < 0 && int(iv) < len(n.Leaf), "vector component index out of bounds: undefined behaviour")
					p.comp = int(iv)
				} else {
					p.path = append(p.path, iv)
				}
			}
			fr.ptrs[w[1]] = p
		case 61: // OpLoad
			p, ok := fr.ptrs[w[2]]
			zz.Assert(ok, "load through an unknown pointer")
			n := p.node()
			if p.comp >= 0 {
				if p.comp < len(n.Leaf) {
					fr.env[w[1]] = &Tree{Leaf: []uint32{n.Leaf[p.comp]}}
				} else {
					fr.env[w[1]] = &Tree{Leaf: []uint32{0}}
				}
			} else {
				fr.env[w[1]] = n.clone()
			}
		case 62: // OpStore
			p, ok := fr.ptrs[w[0]]
			zz.Assert(ok, "store through an unknown pointer")
			v := val(w[1])
			n := p.node()
			if p.comp >= 0 {
				if p.comp < len(n.Leaf) {
					n.Leaf[p.comp] = v.Leaf[0]
				}
			} else {
				c := v.clone()
				n.Leaf, n.Kids, n.Agg = c.Leaf, c.Kids, c.Agg
			}
		case 57: // OpFunctionCall
			var as []*Tree
			var ps []ptr
			for _, a := range w[3:] {
				if p, isPtr := fr.ptrs[a]; isPtr {
					ps = append(ps, p)
					as = append(as, nil)
				} else {
					as = append(as, val(a))
					ps = append(ps, ptr{})
				}
			}
			r := e.call(w[2], as, ps, depth+1)
			if r != nil {
				fr.env[w[1]] = r
			}
		case 80: // OpCompositeConstruct
			fr.env[w[1]] = e.compose(w[0], w[2:], fr.env2(e))
		case 81: // OpCompositeExtract
			n := val(w[2])
			for _, ix := range w[3:] {
				if n.Agg {
					zz.Assert(int(ix) < len(n.Kids), "composite extract index")
					n = n.Kids[ix]
				} else {
					zz.Assert(int(ix) < len(n.Leaf), "composite extract component")
					n = &Tree{Leaf: []uint32{n.Leaf[ix]}}
				}
			}
			fr.env[w[1]] = n.clone()
		case 79: // OpVectorShuffle
			a, b := val(w[2]), val(w[3])
			all := append(append([]uint32(nil), a.Leaf...), b.Leaf...)
			r := &Tree{}
			for _, c := range w[4:] {
				if int(c) < len(all) {
					r.Leaf = append(r.Leaf, all[c])
				} else {
					r.Leaf = append(r.Leaf, 0)
				}
			}
			fr.env[w[1]] = r
		case 77: // OpVectorExtractDynamic
			a, ix := val(w[2]), val(w[3]).Leaf[0]
			zz.Assert(int(ix) < len(a.Leaf), "dynamic vector extract out of bounds: undefined value")
			if int(ix) < len(a.Leaf) {
				fr.env[w[1]] = &Tree{Leaf: []uint32{a.Leaf[ix]}}
			} else {
				fr.env[w[1]] = &Tree{Leaf: []uint32{0}}
			}
		case 124: // OpBitcast
			un(func(a uint32) uint32 { return a })
		case 126: // OpSNegate
			un(func(a uint32) uint32 { return -a })
		case 127: // OpFNegate
			un(func(a uint32) uint32 { return a ^ 0x80000000 })
		case 200: // OpNot
			un(func(a uint32) uint32 { return ^a })
		case 168: // OpLogicalNot
			un(func(a uint32) uint32 { return a ^ 1 })
		case 128:
			bin(func(a, b uint32) uint32 { return a + b })
		case 130:
			bin(func(a, b uint32) uint32 { return a - b })
		case 132:
			bin(func(a, b uint32) uint32 { return a * b })
		case 129:
			bin(func(a, b uint32) uint32 { return f32b(f32(a) + f32(b)) })
		case 131:
			bin(func(a, b uint32) uint32 { return f32b(f32(a) - f32(b)) })
		case 133:
			bin(func(a, b uint32) uint32 { return f32b(f32(a) * f32(b)) })
		case 136:
			bin(func(a, b uint32) uint32 { return f32b(f32(a) / f32(b)) })
		case 134:
			bin(func(a, b uint32) uint32 {
				zz.Assert(b != 0, "OpUDiv by zero: undefined behaviour")
				if b == 0 {
					return 0
				}
				return a / b
			})
		case 137:
			bin(func(a, b uint32) uint32 {
				zz.Assert(b != 0, "OpUMod by zero: undefined behaviour")
				if b == 0 {
					return 0
				}
				return a % b
			})
		case 135:
			bin(func(a, b uint32) uint32 {
				zz.Assert(b != 0 && !(a == 0x80000000 && b == 0xFFFFFFFF), "OpSDiv by zero or overflow: undefined behaviour")
				if b == 0 || (a == 0x80000000 && b == 0xFFFFFFFF) {
					return 0
				}
				return uint32(int32(a) / int32(b))
			})
		case 138:
			bin(func(a, b uint32) uint32 {
				zz.Assert(b != 0 && !(a == 0x80000000 && b == 0xFFFFFFFF), "OpSRem by zero or overflow: undefined behaviour")
				if b == 0 || (a == 0x80000000 && b == 0xFFFFFFFF) {
					return 0
				}
				return uint32(int32(a) % int32(b))
			})
		case 197:
			bin(func(a, b uint32) uint32 { return a | b })
		case 198:
			bin(func(a, b uint32) uint32 { return a ^ b })
		case 199:
			bin(func(a, b uint32) uint32 { return a & b })
		case 194: // OpShiftRightLogical
			bin(func(a, b uint32) uint32 {
				s, ok := shiftAmt(b)
				zz.Assert(ok, "shift amount >= bit width: undefined result")
				return a >> (s & 31)
			})
		case 195: // OpShiftRightArithmetic
			bin(func(a, b uint32) uint32 {
				s, ok := shiftAmt(b)
				zz.Assert(ok, "shift amount >= bit width: undefined result")
				return uint32(int32(a) >> (s & 31))
			})
		case 196: // OpShiftLeftLogical
			bin(func(a, b uint32) uint32 {
				s, ok := shiftAmt(b)
				zz.Assert(ok, "shift amount >= bit width: undefined result")
				return a << (s & 31)
			})
		case 170:
			bin(func(a, b uint32) uint32 { return b2u(a == b) })
		case 171:
			bin(func(a, b uint32) uint32 { return b2u(a != b) })
		case 172:
			bin(func(a, b uint32) uint32 { return b2u(a > b) })
		case 173:
			bin(func(a, b uint32) uint32 { return b2u(int32(a) > int32(b)) })
		case 174:
			bin(func(a, b uint32) uint32 { return b2u(a >= b) })
		case 175:
			bin(func(a, b uint32) uint32 { return b2u(int32(a) >= int32(b)) })
		case 176:
			bin(func(a, b uint32) uint32 { return b2u(a < b) })
		case 177:
			bin(func(a, b uint32) uint32 { return b2u(int32(a) < int32(b)) })
		case 178:
			bin(func(a, b uint32) uint32 { return b2u(a <= b) })
		case 179:
			bin(func(a, b uint32) uint32 { return b2u(int32(a) <= int32(b)) })
		case 180: // OpFOrdEqual
			bin(func(a, b uint32) uint32 { return b2u(f32(a) == f32(b)) })
		case 182, 183: // OpFOrdNotEqual / OpFUnordNotEqual
			bin(func(a, b uint32) uint32 {
				x, y := f32(a), f32(b)
				if in.Op == 182 {
					return b2u(x < y || x > y)
				}
				return b2u(x != y)
			})
		case 184:
			bin(func(a, b uint32) uint32 { return b2u(f32(a) < f32(b)) })
		case 186:
			bin(func(a, b uint32) uint32 { return b2u(f32(a) > f32(b)) })
		case 188:
			bin(func(a, b uint32) uint32 { return b2u(f32(a) <= f32(b)) })
		case 190:
			bin(func(a, b uint32) uint32 { return b2u(f32(a) >= f32(b)) })
		case 166:
			bin(func(a, b uint32) uint32 { return a | b })
		case 167:
			bin(func(a, b uint32) uint32 { return a & b })
		case 164: // OpLogicalEqual
			bin(func(a, b uint32) uint32 { return b2u(a == b) })
		case 165:
			bin(func(a, b uint32) uint32 { return b2u(a != b) })
		case 169: // OpSelect
			c, a, b := val(w[2]), val(w[3]), val(w[4])
			if a.Agg {
				if c.Leaf[0] == 1 {
					fr.env[w[1]] = a.clone()
				} else {
					fr.env[w[1]] = b.clone()
				}
				break
			}
			r := &Tree{Leaf: make([]uint32, len(a.Leaf))}
			for i := range a.Leaf {
				ci := c.Leaf[0]
				if len(c.Leaf) == len(a.Leaf) {
					ci = c.Leaf[i]
				}
				if ci == 1 {
					r.Leaf[i] = a.Leaf[i]
				} else if i < len(b.Leaf) {
					r.Leaf[i] = b.Leaf[i]
				}
			}
			fr.env[w[1]] = r
		case 154, 155: // OpAny, OpAll
			a := val(w[2])
			r := uint32(0)
			if in.Op == 155 {
				r = 1
			}
			for _, c := range a.Leaf {
				if in.Op == 154 {
					r |= c
				} else {
					r &= c
				}
			}
			fr.env[w[1]] = &Tree{Leaf: []uint32{r}}
		case 111: // OpConvertSToF
			un(func(a uint32) uint32 { return f32b(float32(int32(a))) })
		case 112: // OpConvertUToF
			un(func(a uint32) uint32 { return f32b(float32(a)) })
		case 245: // OpPhi
			var chosen *Tree
			for i := 2; i+1 < len(w); i += 2 {
				if w[i+1] == prevLabel {
					chosen = val(w[i])
				}
			}
			zz.Assert(chosen != nil, "OpPhi has no operand for the predecessor block")
			if chosen != nil {
				fr.env[w[1]] = chosen
			}
		case 246, 247: // OpLoopMerge, OpSelectionMerge
		case 249: // OpBranch
			jump(w[0])
		case 250: // OpBranchConditional
			if val(w[0]).Leaf[0] == 1 {
				jump(w[1])
			} else {
				jump(w[2])
			}
		case 251: // OpSwitch
			sel := val(w[0]).Leaf[0]
			target := w[1]
			for i := 2; i+1 < len(w); i += 2 {
				if w[i] == sel {
					target = w[i+1]
					break
				}
			}
			jump(target)
		case 253: // OpReturn
			return nil
		case 254: // OpReturnValue
			return val(w[0])
		case 255: // OpUnreachable
			zz.Fail("OpUnreachable executed")
			return nil
		case 204: // OpBitReverse
			un(rev32)
		case 205: // OpBitCount
			un(popc32)
		case 201, 202, 203: // OpBitFieldInsert / OpBitFieldSExtract / OpBitFieldUExtract
			nOps := 3
			if in.Op == 201 {
				nOps = 4
			}
			ops := make([]*Tree, nOps)
			for k := range ops {
				ops[k] = val(w[2+k])
			}
			base := ops[0]
			r := &Tree{Leaf: make([]uint32, len(base.Leaf))}
			off, cnt := ops[nOps-2].Leaf[0], ops[nOps-1].Leaf[0]
			zz.Assert(off <= 32 && cnt <= 32 && off+cnt <= 32, "OpBitField* with offset + count > 32: the result is undefined")
			for i := range base.Leaf {
				if off > 32 || cnt > 32 || off+cnt > 32 {
					continue
				}
				switch in.Op {
				case 201:
					mask := uint32((uint64(1)<<cnt - 1) << off)
					r.Leaf[i] = base.Leaf[i]&^mask | uint32(uint64(ops[1].Leaf[i])<<off)&mask
				default:
					v := uint32((uint64(base.Leaf[i]) >> off) & (uint64(1)<<cnt - 1))
					if in.Op == 202 && cnt > 0 && cnt < 32 {
						sh := 32 - cnt
						v = uint32(int32(v<<sh) >> sh)
					}
					r.Leaf[i] = v
				}
			}
			fr.env[w[1]] = r
		case 12: // OpExtInst (GLSL.std.450)
			inst := w[3]
			args := make([]*Tree, len(w)-4)
			for k := range args {
				args[k] = val(w[4+k])
			}
			n := len(args[0].Leaf)
			r := &Tree{Leaf: make([]uint32, n)}
			at := func(k, i int) uint32 {
				if k < len(args) && i < len(args[k].Leaf) {
					return args[k].Leaf[i]
				}
				return 0
			}
			for i := 0; i < n; i++ {
				a, b, c := at(0, i), at(1, i), at(2, i)
				switch inst {
				case 5: // SAbs
					m := uint32(int32(a) >> 31)
					r.Leaf[i] = (a ^ m) - m
				case 38: // UMin
					r.Leaf[i] = a
					if b < a {
						r.Leaf[i] = b
					}
				case 39: // SMin
					r.Leaf[i] = a
					if int32(b) < int32(a) {
						r.Leaf[i] = b
					}
				case 41: // UMax
					r.Leaf[i] = a
					if b > a {
						r.Leaf[i] = b
					}
				case 42: // SMax
					r.Leaf[i] = a
					if int32(b) > int32(a) {
						r.Leaf[i] = b
					}
				case 44: // UClamp: min(max(x, lo), hi); undefined if lo > hi
					zz.Assert(b <= c, "UClamp with minVal > maxVal: undefined")
					v := a
					if v < b {
						v = b
					}
					if v > c {
						v = c
					}
					r.Leaf[i] = v
				case 45: // SClamp
					zz.Assert(int32(b) <= int32(c), "SClamp with minVal > maxVal: undefined")
					v := a
					if int32(v) < int32(b) {
						v = b
					}
					if int32(v) > int32(c) {
						v = c
					}
					r.Leaf[i] = v
				case 73: // FindILsb: -1 for 0
					tz := ctz32(a)
					r.Leaf[i] = tz | -(tz >> 5)
				case 74: // FindSMsb: for negative values the most significant 0 bit; -1 for 0 and -1
					r.Leaf[i] = 31 - clz32(a^uint32(int32(a)>>31))
				case 75: // FindUMsb: -1 for 0
					r.Leaf[i] = 31 - clz32(a)
				default:
					zz.Fail(fmt.Sprintf("reference SPIR-V executor: GLSL.std.450 instruction %d not modelled", inst))
					return nil
				}
			}
			fr.env[w[1]] = r
		case 224, 225: // OpControlBarrier, OpMemoryBarrier
		case 8: // OpLine
		default:
			zz.Fail(fmt.Sprintf("reference SPIR-V executor: opcode %d not modelled", in.Op))
			return nil
		}
	}
	return nil
}

// env2 gives compose() a lookup that also sees constants.
func (fr *frame) env2(e *Exec) map[uint32]*Tree {
	m := map[uint32]*Tree{}
	for k, v := range e.consts {
		m[k] = v
	}
	for k, v := range fr.env {
		m[k] = v
	}
	return m
}

// RunEntry allocates the module-scope variables (storage buffers get the given initial
// words, everything else is zero) and runs the first entry point. Returns the storage of the
// variable with the given DescriptorSet/Binding.
func (e *Exec) RunEntry(init map[[2]uint32][]uint32) map[[2]uint32]*Tree {
	set, bind := map[uint32]uint32{}, map[uint32]uint32{}
	for _, in := range e.insts {
		if in.Op == opDecorate && len(in.Words) == 3 {
			if in.Words[1] == decoDescSet {
				set[in.Words[0]] = in.Words[2]
			}
			if in.Words[1] == decoBinding {
				bind[in.Words[0]] = in.Words[2]
			}
		}
	}
	res := map[[2]uint32]*Tree{}
	var entry uint32
	for _, in := range e.insts {
		if in.Op == opEntryPoint && entry == 0 {
			entry = in.Words[1]
		}
		if in.Op == 54 {
			break // module-scope declarations end at the first function
		}
		if in.Op == opVariable {
			pt := e.types[in.Words[0]]
			if pt.Op != 32 {
				continue
			}
			store := e.zero(pt.words[2])
			if len(in.Words) > 3 { // initializer
				c, ok := e.consts[in.Words[3]]
				zz.Assert(ok, "OpVariable initializer is not a constant defined in the module")
				if ok {
					store = c.clone()
				}
			}
			_, hasSet := set[in.Words[1]]
			_, hasBind := bind[in.Words[1]]
			if hasSet && hasBind { // a resource variable
				key := [2]uint32{set[in.Words[1]], bind[in.Words[1]]}
				if words, ok := init[key]; ok {
					if e.ByteImages {
						if e.varType == nil {
							e.varType = map[[2]uint32]uint32{}
						}
						e.varType[key] = pt.words[2]
						e.walkImage(store, pt.words[2], 0, 0, func(leaf *Tree, comp int, off uint32) {
							if off%4 == 0 && int(off/4) < len(words) {
								leaf.Leaf[comp] = words[off/4]
							}
						})
					} else {
						Fill(store, words, new(int))
					}
					res[key] = store
				}
			}
			e.globals[in.Words[1]] = store
		}
	}
	e.call(entry, nil, nil, 0)
	return res
}

// walkImage visits every 32-bit component of a buffer value with its byte offset, computed
// from the layout decorations the Vulkan environment requires on buffer types: Offset on
// every struct member, ArrayStride on every array type, MatrixStride (+ ColMajor) on every
// struct member that is a matrix or an array of matrices. A missing decoration is reported.
func (e *Exec) walkImage(t *Tree, ty uint32, base, matStride uint32, visit func(leaf *Tree, comp int, off uint32)) {
	st := e.types[ty]
	switch st.Op {
	case 20, 21, 22:
		visit(t, 0, base)
	case 23:
		for i := range t.Leaf {
			visit(t, i, base+4*uint32(i))
		}
	case 24:
		zz.Assert(matStride != 0, "matrix in a buffer without a MatrixStride decoration on the enclosing struct member")
		for i, k := range t.Kids {
			e.walkImage(k, st.words[1], base+uint32(i)*matStride, 0, visit)
		}
	case 28:
		stride, ok := e.typeDeco(ty, decoArrayStride)
		zz.Assert(ok, "array type in a buffer without an ArrayStride decoration")
		for i, k := range t.Kids {
			e.walkImage(k, st.words[1], base+uint32(i)*stride, matStride, visit)
		}
	case 30:
		for i, k := range t.Kids {
			off, ok := e.memberDeco(ty, uint32(i), decoOffset)
			zz.Assert(ok, "struct member in a buffer without an Offset decoration")
			ms, _ := e.memberDeco(ty, uint32(i), decoMatrixStride)
			_, rowMajor := e.memberDeco(ty, uint32(i), decoRowMajor)
			zz.Assert(!rowMajor, "RowMajor matrix member: the WGSL layout is column major")
			e.walkImage(k, st.words[1+i], base+off, ms, visit)
		}
	default:
		zz.Fail("reference SPIR-V executor: byte image of an unmodelled type")
	}
}

const (
	decoRowMajor     = 4
	decoArrayStride  = 6
	decoMatrixStride = 7
	decoOffset       = 35
)

func (e *Exec) typeDeco(ty, deco uint32) (uint32, bool) {
	for _, in := range e.insts {
		if in.Op == opDecorate && len(in.Words) >= 2 && in.Words[0] == ty && in.Words[1] == deco {
			if len(in.Words) > 2 {
				return in.Words[2], true
			}
			return 0, true
		}
	}
	return 0, false
}

func (e *Exec) memberDeco(ty, member, deco uint32) (uint32, bool) {
	for _, in := range e.insts {
		if in.Op == 72 && len(in.Words) >= 3 && in.Words[0] == ty && in.Words[1] == member && in.Words[2] == deco {
			if len(in.Words) > 3 {
				return in.Words[3], true
			}
			return 0, true
		}
	}
	return 0, false
}

// Image returns the byte image (as n words, starting from `from`) of a buffer after RunEntry
// with ByteImages set.
func (e *Exec) Image(key [2]uint32, store *Tree, from []uint32) []uint32 {
	out := append([]uint32(nil), from...)
	e.walkImage(store, e.varType[key], 0, 0, func(leaf *Tree, comp int, off uint32) {
		if off%4 == 0 && int(off/4) < len(out) {
			out[off/4] = leaf.Leaf[comp]
		}
	})
	return out
}

// Fill writes words into the leaves of a tree in order.
func Fill(t *Tree, words []uint32, pos *int) {
	if !t.Agg {
		for i := range t.Leaf {
			if *pos < len(words) {
				t.Leaf[i] = words[*pos]
			}
			*pos++
		}
		return
	}
	for _, k := range t.Kids {
		Fill(k, words, pos)
	}
}

// Flatten reads the leaves of a tree in order.
func Flatten(t *Tree, out []uint32) []uint32 {
	if !t.Agg {
		return append(out, t.Leaf...)
	}
	for _, k := range t.Kids {
		out = Flatten(k, out)
	}
	return out
}

// bit counting by sum / smear (the reference closures of the templates are written bit by
// bit and by binary search)
func popc32(x uint32) uint32 {
	var n uint32
	for i := uint(0); i < 32; i++ {
		n += x >> i & 1
	}
	return n
}

func clz32(x uint32) uint32 {
	x |= x >> 1
	x |= x >> 2
	x |= x >> 4
	x |= x >> 8
	x |= x >> 16
	return 32 - popc32(x)
}

func ctz32(x uint32) uint32 { return popc32((x & -x) - 1) }

func rev32(x uint32) uint32 {
	x = x>>1&0x55555555 | x&0x55555555<<1
	x = x>>2&0x33333333 | x&0x33333333<<2
	x = x>>4&0x0F0F0F0F | x&0x0F0F0F0F<<4
	x = x>>8&0x00FF00FF | x&0x00FF00FF<<8
	return x>>16 | x<<16
}

// ---- stage interfaces ----

// spvString decodes a nul-terminated literal string starting at words[0]; returns the string
// and the number of words it occupies.
func spvString(words []uint32) (string, int) {
	var b []byte
	for i, w := range words {
		for k := uint(0); k < 4; k++ {
			c := byte(w >> (8 * k))
			if c == 0 {
				return string(b), i + 1
			}
			b = append(b, c)
		}
	}
	return string(b), len(words)
}

func utoa(n uint32) string {
	if n == 0 {
		return "0"
	}
	s := ""
	for n > 0 {
		s = string(rune('0'+n%10)) + s
		n /= 10
	}
	return s
}

// RunStage runs the entry point called name (Vertex or Fragment execution model). Input
// variables are filled by interface key ("loc<N>", "position", "vertex_index",
// "instance_index", "front_facing", "sample_index"); Output variables are returned by key
// ("loc<N>" for vertex outputs, "color<N>" for fragment outputs, "position", "frag_depth").
// interp maps "in:<key>" / "out:<key>" of user locations to the canonical interpolation
// given by the Flat / NoPerspective / Centroid / Sample decorations.
func (e *Exec) RunStage(name string, in map[string][]uint32) (out map[string][]uint32, interp map[string]string, ok bool) {
	out, interp = map[string][]uint32{}, map[string]string{}
	var entry, model uint32
	var iface map[uint32]bool
	found := false
	for _, ins := range e.insts {
		if ins.Op == opEntryPoint && len(ins.Words) >= 3 {
			if s, n := spvString(ins.Words[2:]); s == name {
				entry, model, found = ins.Words[1], ins.Words[0], true
				iface = map[uint32]bool{}
				for _, id := range ins.Words[2+n:] {
					iface[id] = true
				}
			}
		}
	}
	zz.Assert(found, "entry point not found in the emitted module")
	if !found {
		return nil, nil, false
	}
	fragment := model == 4
	deco := func(id, d uint32) (uint32, bool) { return e.typeDeco(id, d) }
	type outVar struct {
		key   string
		store *Tree
	}
	var outs []outVar
	for _, ins := range e.insts {
		if ins.Op == 54 {
			break
		}
		if ins.Op != opVariable {
			continue
		}
		pt := e.types[ins.Words[0]]
		if pt.Op != 32 {
			continue
		}
		id, class := ins.Words[1], ins.Words[2]
		store := e.zero(pt.words[2])
		if len(ins.Words) > 3 {
			if c, ok := e.consts[ins.Words[3]]; ok {
				store = c.clone()
			}
		}
		e.globals[id] = store
		if class != 1 && class != 3 {
			continue
		}
		if !iface[id] {
			continue // belongs to another entry point
		}
		key := ""
		if l, ok := deco(id, 30); ok { // Location
			key = "loc" + utoa(l)
			if class == 3 && fragment {
				key = "color" + utoa(l)
			}
			kind, samp := "perspective", ""
			if _, f := deco(id, 14); f {
				kind = "flat"
			}
			if _, f := deco(id, 13); f {
				kind = "linear"
			}
			if _, f := deco(id, 16); f {
				samp = " centroid"
			}
			if _, f := deco(id, 17); f {
				samp = " sample"
			}
			if kind == "flat" {
				samp = ""
			}
			if class == 1 {
				interp["in:"+key] = kind + samp
			} else if !fragment {
				interp["out:"+key] = kind + samp
			}
		} else if b, ok := deco(id, 11); ok { // BuiltIn
			switch b {
			case 0, 15:
				key = "position"
			case 42, 5:
				key = "vertex_index"
			case 43, 6:
				key = "instance_index"
			case 17:
				key = "front_facing"
			case 22:
				key = "frag_depth"
			case 18:
				key = "sample_index"
			}
		}
		if key == "" {
			continue
		}
		if class == 1 {
			if w, ok := in[key]; ok {
				Fill(store, w, new(int))
			}
		} else {
			outs = append(outs, outVar{key, store})
		}
	}
	e.call(entry, nil, nil, 0)
	for _, o := range outs {
		_, dup := out[o.key]
		zz.Assert(!dup, "two Output variables are bound to one interface key")
		out[o.key] = Flatten(o.store, nil)
	}
	return out, interp, true
}
