//go:build verif

package zzspv

import "fmt"

// CheckStructure checks universal structural rules of a SPIR-V module (SPIR-V 1.x section 2.4
// logical layout and 2.11 structured control flow, Shader capability):
//   - every result id is below the bound and defined once;
//   - inside a function every block starts with OpLabel and ends with exactly one termination
//     instruction, nothing sits between a terminator and the next OpLabel, OpVariable appears
//     only in the first block;
//   - every branch target is a label of the same function; merge and continue targets too;
//   - a merge instruction is immediately followed by the branch it belongs to
//     (OpSelectionMerge: OpBranchConditional / OpSwitch; OpLoopMerge: OpBranch /
//     OpBranchConditional);
//   - an OpBranchConditional / OpSwitch that is not preceded by a merge instruction is only
//     legal as an exit from an enclosing construct: at least one of its targets must be a
//     declared merge block or continue target of the function (a header without a merge
//     instruction is the invalid shape);
//   - OpFunctionCall refers to a function defined in the module with the right argument count.
func CheckStructure(out []byte) []string {
	bound, insts, ok := Parse(out)
	if !ok {
		return []string{"not a well-formed SPIR-V word stream"}
	}
	var problems []string
	bad := func(format string, a ...any) {
		if len(problems) < 20 {
			problems = append(problems, fmt.Sprintf(format, a...))
		}
	}
	resultID := func(in Inst) (uint32, bool) {
		switch in.Op {
		case 19, 20, 21, 22, 23, 24, 25, 26, 27, 28, 29, 30, 31, 32, 33, 248, 11: // types, OpLabel, OpExtInstImport
			if len(in.Words) > 0 {
				return in.Words[0], true
			}
		case 41, 42, 43, 44, 45, 46, 48, 49, 50, 51, 52, 54, 55, 57, 59, 60, 61, 65, 66, 67, 68, 12, // consts, function, param, call, variable, loads, access chains, ext inst
			77, 79, 80, 81, 82, 83, 84, 87, 88, 98, 100, 109, 110, 111, 112, 113, 114, 115, 124, 126, 127,
			128, 129, 130, 131, 132, 133, 134, 135, 136, 137, 138, 139, 140, 141, 142, 143, 144, 145, 146, 147, 148,
			149, 150, 151, 152, 153, 154, 155, 156, 157, 158, 164, 165, 166, 167, 168, 169, 170, 171, 172, 173, 174, 175,
			176, 177, 178, 179, 180, 181, 182, 183, 184, 185, 186, 187, 188, 189, 190, 191, 194, 195, 196, 197, 198, 199,
			200, 201, 202, 203, 204, 205, 245:
			if len(in.Words) > 1 {
				return in.Words[1], true
			}
		}
		return 0, false
	}
	defined := map[uint32]bool{}
	funcParams := map[uint32]int{}
	for i, in := range insts {
		if id, ok := resultID(in); ok {
			if id == 0 || id >= bound {
				bad("result id %d is not below the bound %d", id, bound)
			}
			if defined[id] {
				bad("result id %d is defined twice", id)
			}
			defined[id] = true
		}
		if in.Op == 54 { // OpFunction: count parameters
			n := 0
			for j := i + 1; j < len(insts) && insts[j].Op == 55; j++ {
				n++
			}
			funcParams[in.Words[1]] = n
		}
	}
	isTerminator := func(op uint32) bool {
		switch op {
		case 249, 250, 251, 252, 253, 254, 255:
			return true
		}
		return false
	}
	i := 0
	for i < len(insts) {
		if insts[i].Op != 54 {
			i++
			continue
		}
		start := i
		end := i
		for end < len(insts) && insts[end].Op != 56 {
			end++
		}
		fnID := insts[start].Words[1]
		labels := map[uint32]bool{}
		mergeOrContinue := map[uint32]bool{}
		for _, in := range insts[start:end] {
			if in.Op == 248 {
				labels[in.Words[0]] = true
			}
			if in.Op == 247 { // OpSelectionMerge
				if mergeOrContinue[in.Words[0]] {
					bad("function %d: block %d is the merge block of two constructs", fnID, in.Words[0])
				}
				mergeOrContinue[in.Words[0]] = true
			}
			if in.Op == 246 { // OpLoopMerge
				mergeOrContinue[in.Words[0]] = true
				mergeOrContinue[in.Words[1]] = true
			}
		}
		inBlock, blockIndex := false, 0
		target := func(l uint32, what string) {
			if !labels[l] {
				bad("function %d: %s %d is not a label of the function", fnID, what, l)
			}
		}
		for k := start + 1; k < end; k++ {
			in := insts[k]
			switch {
			case in.Op == 55 || in.Op == 8 || in.Op == 317: // parameters, OpLine, OpNoLine
			case in.Op == 248:
				if inBlock {
					bad("function %d: block %d starts before the previous block has a terminator", fnID, in.Words[0])
				}
				inBlock = true
				blockIndex++
			default:
				if !inBlock {
					bad("function %d: instruction (opcode %d) outside a block", fnID, in.Op)
					continue
				}
				if in.Op == 59 && blockIndex != 1 {
					bad("function %d: OpVariable outside the first block", fnID)
				}
				if in.Op == 247 {
					target(in.Words[0], "selection merge block")
					if k+1 >= end || (insts[k+1].Op != 250 && insts[k+1].Op != 251) {
						bad("function %d: OpSelectionMerge is not immediately followed by OpBranchConditional / OpSwitch", fnID)
					}
				}
				if in.Op == 246 {
					target(in.Words[0], "loop merge block")
					target(in.Words[1], "continue target")
					if k+1 >= end || (insts[k+1].Op != 249 && insts[k+1].Op != 250) {
						bad("function %d: OpLoopMerge is not immediately followed by a branch", fnID)
					}
				}
				if in.Op == 249 {
					target(in.Words[0], "branch target")
				}
				if in.Op == 250 || in.Op == 251 {
					var ts []uint32
					if in.Op == 250 {
						ts = []uint32{in.Words[1], in.Words[2]}
					} else {
						ts = []uint32{in.Words[1]}
						for q := 3; q < len(in.Words); q += 2 {
							ts = append(ts, in.Words[q])
						}
					}
					exits := false
					for _, t := range ts {
						target(t, "conditional branch target")
						if mergeOrContinue[t] {
							exits = true
						}
					}
					hasMerge := k > start && (insts[k-1].Op == 247 || insts[k-1].Op == 246)
					if !hasMerge && !exits {
						bad("function %d: OpBranchConditional / OpSwitch heads a selection but no merge instruction precedes it", fnID)
					}
				}
				if in.Op == 57 { // OpFunctionCall
					n, ok := funcParams[in.Words[2]]
					if !ok {
						bad("function %d: OpFunctionCall of %d, which is not a function of the module", fnID, in.Words[2])
					} else if n != len(in.Words)-3 {
						bad("function %d: OpFunctionCall of %d with %d arguments, the function has %d parameters", fnID, in.Words[2], len(in.Words)-3, n)
					}
				}
				if isTerminator(in.Op) {
					inBlock = false
				}
			}
		}
		if inBlock {
			bad("function %d: last block has no terminator", fnID)
		}
		i = end + 1
	}
	return problems
}
