//go:build verif

package zzclike

// Stage interfaces: RunStage executes a vertex or fragment entry point of the emitted text
// with its stage inputs given by INTERFACE KEY and returns its stage outputs by key, so that a
// harness can chain vertex -> fragment exactly as the pipeline would: an output written under
// one key on one side and read under another key on the other side loses the value.
//
// Keys: "loc<N>" (user-defined @location; for fragment outputs "color<N>"), "position",
// "vertex_index", "instance_index", "front_facing", "frag_depth", "sample_index".
// Interpolation of every keyed input / output is reported in canonical form
// ("flat", "linear", "linear centroid", "linear sample", "perspective", ...).

func atoiPrefix(s string) (int, bool) {
	n, i := 0, 0
	for i < len(s) && s[i] >= '0' && s[i] <= '9' {
		n = n*10 + int(s[i]-'0')
		i++
	}
	return n, i > 0
}

func itoa(n int) string {
	if n == 0 {
		return "0"
	}
	s := ""
	for n > 0 {
		s = string(rune('0'+n%10)) + s
		n /= 10
	}
	return s
}

func hasPrefix(s, p string) bool { return len(s) >= len(p) && s[:len(p)] == p }

func indexOf(s, sub string) int {
	for i := 0; i+len(sub) <= len(s); i++ {
		if s[i:i+len(sub)] == sub {
			return i
		}
	}
	return -1
}

// ioKeyHLSL maps an HLSL semantic to an interface key.
func ioKeyHLSL(sem string) string {
	switch {
	case hasPrefix(sem, "LOC"):
		return "loc" + sem[3:]
	case hasPrefix(sem, "SV_Target"):
		return "color" + sem[9:]
	}
	switch sem {
	case "SV_Position":
		return "position"
	case "SV_VertexID":
		return "vertex_index"
	case "SV_InstanceID":
		return "instance_index"
	case "SV_IsFrontFace":
		return "front_facing"
	case "SV_Depth":
		return "frag_depth"
	case "SV_SampleIndex":
		return "sample_index"
	}
	return ""
}

// ioKeyMSL maps an MSL attribute text ("user(loc3), flat", "attribute(2)", "color(1)",
// "position", ...) to an interface key and the interpolation written with it.
func ioKeyMSL(attr string) (key, interp string) {
	rest := ""
	if i := indexOf(attr, ","); i >= 0 {
		rest = attr[i+1:]
		attr = attr[:i]
	}
	for len(rest) > 0 && rest[0] == ' ' {
		rest = rest[1:]
	}
	switch rest {
	case "flat":
		interp = "flat"
	case "center_perspective":
		interp = "perspective"
	case "centroid_perspective":
		interp = "perspective centroid"
	case "sample_perspective":
		interp = "perspective sample"
	case "center_no_perspective":
		interp = "linear"
	case "centroid_no_perspective":
		interp = "linear centroid"
	case "sample_no_perspective":
		interp = "linear sample"
	}
	num := func(prefix string) string {
		s := attr[len(prefix):]
		if len(s) > 0 && s[len(s)-1] == ')' {
			s = s[:len(s)-1]
		}
		return s
	}
	switch {
	case hasPrefix(attr, "user(loc"):
		return "loc" + num("user(loc"), interp
	case hasPrefix(attr, "attribute("):
		return "loc" + num("attribute("), interp
	case hasPrefix(attr, "color("):
		return "color" + num("color("), interp
	case hasPrefix(attr, "depth("):
		return "frag_depth", interp
	}
	switch attr {
	case "position":
		return "position", interp
	case "vertex_id":
		return "vertex_index", interp
	case "instance_id":
		return "instance_index", interp
	case "front_facing":
		return "front_facing", interp
	case "sample_id":
		return "sample_index", interp
	}
	return "", interp
}

func interpFromQualifiers(qs []string, d Dialect) string {
	kind, samp := "perspective", ""
	for _, q := range qs {
		switch q {
		case "nointerpolation", "flat":
			kind = "flat"
		case "noperspective":
			kind = "linear"
		case "linear":
			if d == HLSL {
				kind = "perspective" // HLSL "linear" is the perspective-correct default
			}
		case "smooth":
			kind = "perspective"
		case "centroid":
			samp = " centroid"
		case "sample":
			samp = " sample"
		}
	}
	if kind == "flat" {
		return "flat"
	}
	return kind + samp
}

func fillWords(v *Val, words []uint32) {
	for i, c := range flatten(v, nil) {
		if i < len(words) {
			c.S = words[i]
		}
	}
}

func wordsOf(v *Val) []uint32 {
	var out []uint32
	for _, c := range flatten(v, nil) {
		out = append(out, c.S)
	}
	return out
}

// RunStage runs a vertex ("vertex") or fragment ("fragment") entry point. Inputs absent from
// `in` are zero. interp maps "in:<key>" / "out:<key>" to the canonical interpolation written in
// the text for user-defined locations.
func (p *Program) RunStage(entry, stage string, in map[string][]uint32) (out map[string][]uint32, interp map[string]string, errs string) {
	out, interp = map[string][]uint32{}, map[string]string{}
	f, ok := p.funcs[entry]
	if !ok {
		return nil, nil, "entry point " + entry + " not found in the emitted text"
	}
	p.genv = map[string]*Val{}
	p.steps = 0
	p.words = nil
	p.scopes = []map[string]*Val{{}}
	for _, g := range p.globals {
		var v *Val
		if g.init != nil {
			v = p.initValue(g.t, g.init)
		} else {
			v = zero(g.t)
		}
		p.genv[g.name] = v
	}
	if p.d == GLSL {
		return p.runStageGLSL(f, stage, in)
	}
	bind := func(v *Val, key, dir, ip string) {
		if key == "" {
			return
		}
		if w, ok := in[key]; ok && dir == "in" {
			fillWords(v, w)
		}
		if hasPrefix(key, "loc") {
			interp[dir+":"+key] = ip
		}
	}
	locals := map[string]*Val{}
	for _, prm := range f.params {
		v := zero(prm.t)
		if prm.t.K == 'S' {
			for k, fld := range prm.t.Fields {
				if p.d == HLSL {
					bind(v.E[k], ioKeyHLSL(fld.Sem), "in", interpFromQualifiers(fld.Qual, HLSL))
				} else {
					key, ip := ioKeyMSL(fld.Sem)
					bind(v.E[k], key, "in", ip)
				}
			}
		} else if p.d == HLSL {
			bind(v, ioKeyHLSL(prm.sem), "in", "")
		} else {
			key, ip := ioKeyMSL(prm.sem)
			bind(v, key, "in", ip)
		}
		locals[prm.s] = v
	}
	p.scopes = []map[string]*Val{locals}
	fr := &frame{}
	p.execBlock(f.body.kids, fr)
	if p.err != "" {
		return nil, nil, p.err
	}
	if f.ret.K == 'v' {
		return out, interp, ""
	}
	if fr.ret == nil {
		return nil, nil, "entry point falls off its end without returning a value"
	}
	ret := p.coerce(fr.ret, f.ret)
	if f.ret.K == 'S' {
		for k, fld := range f.ret.Fields {
			var key, ip string
			if p.d == HLSL {
				key, ip = ioKeyHLSL(fld.Sem), interpFromQualifiers(fld.Qual, HLSL)
			} else {
				key, ip = ioKeyMSL(fld.Sem)
			}
			if key == "" {
				return nil, nil, "entry point result member " + fld.Name + " has no recognisable binding"
			}
			if _, dup := out[key]; dup {
				return nil, nil, "two entry point result members are bound to " + key
			}
			out[key] = wordsOf(ret.E[k])
			if hasPrefix(key, "loc") {
				interp["out:"+key] = ip
			}
		}
		return out, interp, ""
	}
	key := ioKeyHLSL(f.retSem)
	if key == "" {
		return nil, nil, "entry point result has no recognisable binding"
	}
	out[key] = wordsOf(ret)
	return out, interp, ""
}

func (p *Program) runStageGLSL(f *fn, stage string, in map[string][]uint32) (out map[string][]uint32, interp map[string]string, errs string) {
	out, interp = map[string][]uint32{}, map[string]string{}
	type bound struct {
		key string
		v   *Val
	}
	var outs []bound
	for _, g := range p.globals {
		loc := ""
		for _, q := range g.quals {
			if hasPrefix(q, "location=") {
				loc = q[9:]
			}
		}
		if has(g.quals, "in") && loc != "" {
			key := "loc" + loc
			if w, ok := in[key]; ok {
				fillWords(p.genv[g.name], w)
			}
			interp["in:"+key] = interpFromQualifiers(g.quals, GLSL)
		}
		if has(g.quals, "out") && loc != "" {
			key := "loc" + loc
			if stage == "fragment" {
				key = "color" + loc
			} else {
				interp["out:"+key] = interpFromQualifiers(g.quals, GLSL)
			}
			outs = append(outs, bound{key, p.genv[g.name]})
		}
	}
	builtinIn := []struct {
		name, key string
		t         *Type
	}{
		{"gl_VertexID", "vertex_index", tInt}, {"gl_VertexIndex", "vertex_index", tInt},
		{"gl_InstanceID", "instance_index", tInt}, {"gl_InstanceIndex", "instance_index", tInt},
		{"gl_FragCoord", "position", vecOf(tFloat, 4)}, {"gl_FrontFacing", "front_facing", tBool},
		{"gl_SampleID", "sample_index", tInt},
	}
	for _, b := range builtinIn {
		v := zero(b.t)
		if w, ok := in[b.key]; ok {
			fillWords(v, w)
		}
		p.genv[b.name] = v
	}
	pos, depth := zero(vecOf(tFloat, 4)), zero(tFloat)
	if stage == "vertex" {
		p.genv["gl_Position"] = pos
	} else {
		p.genv["gl_FragDepth"] = depth
	}
	p.scopes = []map[string]*Val{{}}
	fr := &frame{}
	p.execBlock(f.body.kids, fr)
	if p.err != "" {
		return nil, nil, p.err
	}
	for _, b := range outs {
		if _, dup := out[b.key]; dup {
			return nil, nil, "two outputs are bound to " + b.key
		}
		out[b.key] = wordsOf(b.v)
	}
	if stage == "vertex" {
		out["position"] = wordsOf(pos)
	} else {
		out["frag_depth"] = wordsOf(depth)
	}
	return out, interp, ""
}
