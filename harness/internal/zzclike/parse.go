//go:build verif

package zzclike

// ---- types ----

type Type struct {
	K      byte // 'v' void 'b' bool 'i' int 'u' uint 'f' float 'V' vector 'M' matrix 'A' array 'S' struct 'B' byte-address buffer 'D' default-constructible
	Elem   *Type
	N      int // vector size / array length / matrix columns
	Rows   int
	Name   string
	Fields []Field
	Bits   int  // scalar width when not 32 (8 for char/uchar)
	Packed bool // MSL packed_ vector: size N*4, alignment of the component
}

type Field struct {
	Name string
	T    *Type
	Sem  string   // HLSL semantic / MSL attribute
	Qual []string // interpolation qualifiers written in front of the member
}

var (
	tVoid  = &Type{K: 'v', Name: "void"}
	tBool  = &Type{K: 'b', Name: "bool"}
	tInt   = &Type{K: 'i', Name: "int"}
	tUint  = &Type{K: 'u', Name: "uint"}
	tFloat = &Type{K: 'f', Name: "float"}
	tHalf  = &Type{K: 'f', Name: "half", Bits: 16} // MSL half: a float for evaluation, 2 bytes in memory
	tAuto  = &Type{K: '?', Name: "auto"}           // MSL `auto`: the type of the initialiser
	tUchar = &Type{K: 'u', Name: "uchar", Bits: 8}
	tChar  = &Type{K: 'i', Name: "char", Bits: 8}
	tBuf   = &Type{K: 'B', Name: "RWByteAddressBuffer"}
	tDef   = &Type{K: 'D', Name: "DefaultConstructible"}
)

func (t *Type) scalar() bool { return t.K == 'b' || t.K == 'i' || t.K == 'u' || t.K == 'f' }

func vecOf(e *Type, n int) *Type { return &Type{K: 'V', Elem: e, N: n} }

func scalarByName(s string) *Type {
	switch s {
	case "int", "int32_t", "short", "ushort":
		return tInt
	case "char":
		return tChar
	case "uchar":
		return tUchar
	case "uint", "uint32_t", "dword", "unsigned":
		return tUint
	case "float", "min16float":
		return tFloat
	case "half":
		return tHalf
	case "bool":
		return tBool
	case "void":
		return tVoid
	}
	return nil
}

// builtinType resolves the spelling of a scalar / vector / matrix type in any dialect.
func builtinType(s string) *Type {
	if t := scalarByName(s); t != nil {
		return t
	}
	if s == "RWByteAddressBuffer" || s == "ByteAddressBuffer" {
		return tBuf
	}
	if s == "DefaultConstructible" {
		return tDef
	}
	if len(s) > 7 && s[:7] == "packed_" {
		if t := builtinType(s[7:]); t != nil && t.K == 'V' {
			return &Type{K: 'V', Elem: t.Elem, N: t.N, Packed: true}
		}
		s = s[7:]
	}
	n := len(s)
	// GLSL: vecN ivecN uvecN bvecN matN matCxR
	if n >= 4 && s[n-4:n-1] == "vec" && s[n-1] >= '2' && s[n-1] <= '4' {
		sz := int(s[n-1] - '0')
		switch s[:n-4] {
		case "":
			return vecOf(tFloat, sz)
		case "i":
			return vecOf(tInt, sz)
		case "u":
			return vecOf(tUint, sz)
		case "b":
			return vecOf(tBool, sz)
		}
		return nil
	}
	if n == 4 && s[:3] == "mat" && s[3] >= '2' && s[3] <= '4' {
		k := int(s[3] - '0')
		return &Type{K: 'M', Elem: vecOf(tFloat, k), N: k, Rows: k}
	}
	if n == 6 && s[:3] == "mat" && s[4] == 'x' {
		c, r := int(s[3]-'0'), int(s[5]-'0')
		return &Type{K: 'M', Elem: vecOf(tFloat, r), N: c, Rows: r}
	}
	// HLSL / MSL: int2 uint3 float4 bool2 float3x3
	if n >= 2 && s[n-1] >= '2' && s[n-1] <= '4' {
		if n >= 4 && s[n-2] == 'x' && s[n-3] >= '2' && s[n-3] <= '4' {
			if e := scalarByName(s[:n-3]); e != nil && e.K == 'f' {
				c, r := int(s[n-3]-'0'), int(s[n-1]-'0')
				return &Type{K: 'M', Elem: vecOf(tFloat, r), N: c, Rows: r}
			}
			return nil
		}
		if e := scalarByName(s[:n-1]); e != nil && e.K != 'v' {
			return vecOf(e, int(s[n-1]-'0'))
		}
	}
	return nil
}

// ---- syntax tree ----

type node struct {
	k      string
	s      string
	t      *Type
	kids   []*node
	tk     tok
	ref    bool   // parameter passed by reference (inout / out / T&)
	sem    string // parameter: HLSL semantic / MSL attribute
	shared bool   // declaration in workgroup (threadgroup) memory
}

type fn struct {
	name   string
	ret    *Type
	params []*node // k="param", s=name, t=type, ref
	space  []string
	body   *node
	retSem string // HLSL semantic of the return value
}

type global struct {
	name   string
	t      *Type
	init   *node
	class  string   // "buffer" (storage block member), "uniform" (cbuffer / uniform block member), "shared", "" otherwise
	std140 bool     // GLSL block declared layout(std140)
	quals  []string // declaration qualifiers (GLSL in/out, interpolation, "location=N")
}

type Program struct {
	d                       Dialect
	toks                    []tok
	pos                     int
	err                     string
	structs                 map[string]*Type
	typedefs                map[string]*Type
	funcs                   map[string]*fn   // last definition per name
	overload                map[string][]*fn // all definitions per name (HLSL / MSL overloads)
	sawDefaultConstructible bool
	Dups                    []string // redefinitions found while parsing (same function signature, struct or global name twice)
	globals                 []*global
	blocks                  []*global // GLSL interface blocks without an instance name
	// dispatch parameters (set before Run): the invocation executed is local id (0,0,0) of
	// workgroup WorkgroupID; workgroup memory initially holds Garbage (cyclically)
	WorkgroupID   [3]uint32
	WorkgroupSize [3]uint32
	Garbage       []uint32
	Uniform       []uint32 // byte image (as words) of the first uniform buffer
	garbageAt     int
	// run-time state
	genv    map[string]*Val
	scopes  []map[string]*Val
	steps   int
	words   []uint32 // HLSL byte-address buffer contents
	StepMax int
}

func (p *Program) fail(msg string) {
	if p.err == "" {
		ctx := ""
		for i := p.pos; i < p.pos+6 && i < len(p.toks); i++ {
			ctx += " " + p.toks[i].s
		}
		p.err = msg + " near:" + ctx
	}
}

func (p *Program) peek() tok { return p.toks[p.pos] }
func (p *Program) peekAt(k int) tok {
	if p.pos+k < len(p.toks) {
		return p.toks[p.pos+k]
	}
	return tok{}
}
func (p *Program) next() tok {
	t := p.toks[p.pos]
	if p.pos < len(p.toks)-1 {
		p.pos++
	}
	return t
}
func (p *Program) isP(s string) bool { t := p.peek(); return t.k == 'p' && t.s == s }
func (p *Program) isI(s string) bool { t := p.peek(); return t.k == 'i' && t.s == s }
func (p *Program) accept(s string) bool {
	if p.isP(s) {
		p.next()
		return true
	}
	return false
}
func (p *Program) expect(s string) {
	if !p.accept(s) {
		p.fail("expected '" + s + "'")
		p.next()
	}
}

func isQualifier(s string) bool {
	switch s {
	case "const", "static", "thread", "device", "threadgroup", "constant", "precise", "highp", "mediump", "lowp",
		"in", "out", "inout", "groupshared", "shared", "uniform", "volatile", "coherent", "restrict", "readonly",
		"writeonly", "constexpr", "inline", "kernel", "vertex", "fragment", "flat", "smooth", "noperspective",
		"buffer", "row_major", "column_major", "nointerpolation", "linear", "centroid", "sample", "globallycoherent":
		return true
	}
	return false
}

func (p *Program) typeByName(s string) *Type {
	if t, ok := p.structs[s]; ok {
		return t
	}
	if t, ok := p.typedefs[s]; ok {
		return t
	}
	if s == "auto" && p.d == MSL {
		return tAuto
	}
	if s == "DefaultConstructible" && p.d != MSL {
		return nil // only naga's MSL prelude defines it; elsewhere it is an ordinary name
	}
	return builtinType(s)
}

func (p *Program) atType() bool {
	t := p.peek()
	return t.k == 'i' && p.typeByName(t.s) != nil
}

// skipGroup skips a balanced (...) / [...] / {...} group starting at the current token.
func (p *Program) skipGroup(open, close string) {
	if !p.accept(open) {
		return
	}
	depth := 1
	for depth > 0 && p.peek().k != 0 {
		t := p.next()
		if t.k == 'p' && t.s == open {
			depth++
		}
		if t.k == 'p' && t.s == close {
			depth--
		}
	}
}

// qualifiers skips declaration qualifiers and returns them.
func (p *Program) qualifiers() []string {
	var qs []string
	for {
		t := p.peek()
		if t.k == 'a' {
			p.next()
			continue
		}
		if t.k == 'i' && isQualifier(t.s) {
			qs = append(qs, t.s)
			p.next()
			continue
		}
		if t.k == 'i' && t.s == "layout" {
			p.next()
			for p.peek().k != 0 && !(p.peek().k == 'p' && p.peek().s == ")") {
				q := p.next()
				if q.k == 'i' && (q.s == "std140" || q.s == "std430") {
					qs = append(qs, q.s)
				}
				if q.k == 'i' && q.s == "location" && p.isP("=") && p.peekAt(1).k == 'n' {
					p.next()
					qs = append(qs, "location="+p.next().s)
				}
			}
			p.next()
			continue
		}
		return qs
	}
}

func has(qs []string, s string) bool {
	for _, q := range qs {
		if q == s {
			return true
		}
	}
	return false
}

func (p *Program) parseType() *Type {
	t := p.next()
	ty := p.typeByName(t.s)
	if t.k != 'i' || ty == nil {
		p.fail("unknown type '" + t.s + "'")
		return tInt
	}
	return ty
}

// arraySuffix parses [N][M]... after a declarator and wraps t.
func (p *Program) arraySuffix(t *Type) *Type {
	var dims []int
	for p.isP("[") {
		p.next()
		if p.isP("]") { // runtime-sized: one element is enough for the harness
			p.next()
			dims = append(dims, 1)
			continue
		}
		e := p.parseExpr()
		p.expect("]")
		n, ok := constInt(e)
		if !ok {
			p.fail("array size is not a constant")
			n = 1
		}
		dims = append(dims, n)
	}
	for i := len(dims) - 1; i >= 0; i-- {
		t = &Type{K: 'A', Elem: t, N: dims[i]}
	}
	return t
}

func constInt(e *node) (int, bool) {
	switch e.k {
	case "lit":
		if e.tk.k == 'n' {
			return int(e.tk.u), true
		}
	case "bin":
		a, ok1 := constInt(e.kids[0])
		b, ok2 := constInt(e.kids[1])
		if ok1 && ok2 {
			switch e.s {
			case "+":
				return a + b, true
			case "-":
				return a - b, true
			case "*":
				return a * b, true
			}
		}
	}
	return 0, false
}

// Parse parses a translation unit.
func Parse(src string, d Dialect) (*Program, string) {
	toks, e := lex(src, d)
	if e != "" {
		return nil, e
	}
	p := &Program{d: d, toks: toks, structs: map[string]*Type{}, typedefs: map[string]*Type{}, funcs: map[string]*fn{}, StepMax: 20000}
	for p.peek().k != 0 && p.err == "" {
		p.topLevel()
	}
	if p.err != "" {
		return nil, p.err
	}
	return p, ""
}

func (p *Program) structBody(name string) *Type {
	st := &Type{K: 'S', Name: name}
	p.expect("{")
	for !p.isP("}") && p.peek().k != 0 && p.err == "" {
		fq := p.qualifiers()
		ft := p.parseType()
		for {
			fname := p.next()
			if fname.k != 'i' {
				p.fail("struct member name expected")
				break
			}
			t := p.arraySuffix(ft)
			sem := ""
			if p.accept(":") { // HLSL semantic
				sem = p.next().s
			}
			for p.peek().k == 'a' {
				sem = p.next().s
			}
			st.Fields = append(st.Fields, Field{fname.s, t, sem, fq})
			if !p.accept(",") {
				break
			}
		}
		p.expect(";")
	}
	p.expect("}")
	return st
}

func (p *Program) topLevel() {
	if p.accept(";") {
		return
	}
	if p.isP("[") { // HLSL attribute: [numthreads(1, 1, 1)]
		p.skipGroup("[", "]")
		return
	}
	if p.isI("using") || p.isI("precision") {
		for !p.isP(";") && p.peek().k != 0 {
			p.next()
		}
		p.next()
		return
	}
	if p.isI("typedef") {
		p.next()
		p.qualifiers()
		if p.isI("struct") && p.peekAt(1).k == 'p' && p.peekAt(1).s == "{" { // typedef struct { ... } name;
			p.next()
			st := p.structBody("")
			name := p.next()
			st.Name = name.s
			if _, dup := p.structs[name.s]; dup {
				p.Dups = append(p.Dups, "struct "+name.s+" is defined twice")
			}
			p.structs[name.s] = st
			p.expect(";")
			return
		}
		t := p.parseType()
		name := p.next()
		t = p.arraySuffix(t)
		p.expect(";")
		_, dupS := p.structs[name.s]
		_, dupT := p.typedefs[name.s]
		if dupS || dupT {
			p.Dups = append(p.Dups, "type name "+name.s+" is defined twice")
		}
		p.typedefs[name.s] = t
		return
	}
	if p.isI("template") {
		p.next()
		// template<...> declaration: not needed by the evaluator
		for !p.isP(">") && p.peek().k != 0 {
			p.next()
		}
		p.next()
		return
	}
	if p.isI("struct") {
		p.next()
		name := p.next()
		if name.s == "DefaultConstructible" && p.d == MSL && p.structs["DefaultConstructible"] == nil && !p.sawDefaultConstructible {
			p.sawDefaultConstructible = true
			p.skipGroup("{", "}")
			p.expect(";")
			return
		}
		st := p.structBody(name.s)
		if _, dup := p.structs[name.s]; dup {
			p.Dups = append(p.Dups, "struct "+name.s+" is defined twice")
		}
		p.structs[name.s] = st
		p.expect(";")
		return
	}
	if p.isI("cbuffer") {
		p.next()
		p.next()
		if p.accept(":") {
			p.next()
			p.skipGroup("(", ")")
		}
		st := p.structBody("")
		for _, f := range st.Fields {
			p.globals = append(p.globals, &global{name: f.Name, t: f.T, class: "uniform"})
		}
		return
	}
	qs := p.qualifiers()
	if p.accept(";") { // e.g. layout(local_size_x = 1) in;
		return
	}
	// GLSL interface block: [qualifiers] buffer|uniform BlockName { members } [instance];
	if (has(qs, "buffer") || has(qs, "uniform")) && p.peek().k == 'i' && p.peekAt(1).k == 'p' && p.peekAt(1).s == "{" {
		bname := p.next()
		if _, dup := p.structs[bname.s]; dup {
			p.Dups = append(p.Dups, "interface block "+bname.s+" has the name of a struct type")
		}
		if _, dup := p.funcs[bname.s]; dup {
			p.Dups = append(p.Dups, "interface block "+bname.s+" has the name of a function")
		}
		st := p.structBody(bname.s)
		class := "buffer"
		if !has(qs, "buffer") {
			class = "uniform"
		}
		if p.peek().k == 'i' {
			inst := p.next()
			t := p.arraySuffix(st)
			p.globals = append(p.globals, &global{name: inst.s, t: t, class: class, std140: has(qs, "std140")})
		} else {
			// members of an instance-less block are laid out as one struct
			p.blocks = append(p.blocks, &global{name: bname.s, t: st, class: class, std140: has(qs, "std140")})
		}
		p.expect(";")
		return
	}
	if !p.atType() {
		p.fail("unexpected token at top level")
		p.next()
		return
	}
	t := p.parseType()
	if p.d == GLSL && p.isP("[") { // GLSL array-returning function / array-typed global: T[N] name
		t = p.arraySuffix(t)
	}
	name := p.next()
	if name.k != 'i' {
		p.fail("declarator expected")
		return
	}
	if p.isP("(") {
		f := &fn{name: name.s, ret: t}
		p.next()
		for !p.isP(")") && p.peek().k != 0 && p.err == "" {
			pq := p.qualifiers()
			pt := p.parseType()
			pq = append(pq, p.qualifiers()...) // e.g. "device T const& x"
			byRef := has(pq, "inout") || has(pq, "out")
			if p.accept("&") {
				byRef = true
			}
			if p.accept("*") {
				byRef = true
			}
			pn := p.next()
			pt = p.arraySuffix(pt)
			sem := ""
			if p.accept(":") {
				sem = p.next().s
			}
			for p.peek().k == 'a' {
				sem = p.next().s
			}
			space := ""
			for _, q := range pq {
				if q == "device" || q == "threadgroup" || q == "constant" {
					space = q
				}
			}
			f.params = append(f.params, &node{k: "param", s: pn.s, t: pt, ref: byRef, sem: sem})
			f.space = append(f.space, space)
			if !p.accept(",") {
				break
			}
		}
		p.expect(")")
		for p.peek().k == 'a' {
			p.next()
		}
		if p.accept(":") { // HLSL return semantic
			f.retSem = p.next().s
		}
		if p.accept(";") { // prototype
			return
		}
		f.body = p.block()
		sig := funcSignature(f)
		for _, g := range p.overload[f.name] {
			if funcSignature(g) == sig {
				p.Dups = append(p.Dups, "function "+sig+" is defined twice")
			}
		}
		if p.overload == nil {
			p.overload = map[string][]*fn{}
		}
		p.overload[f.name] = append(p.overload[f.name], f)
		p.funcs[f.name] = f
		return
	}
	// global variable(s)
	for {
		gt := p.arraySuffix(t)
		g := &global{name: name.s, t: gt, quals: qs}
		for _, og := range p.globals {
			if og.name == name.s {
				p.Dups = append(p.Dups, "module-scope name "+name.s+" is declared twice")
			}
		}
		if has(qs, "groupshared") || has(qs, "shared") || has(qs, "threadgroup") {
			g.class = "shared"
		}
		if p.accept(":") { // HLSL register binding
			p.next()
			p.skipGroup("(", ")")
		}
		if p.accept("=") {
			g.init = p.initializer()
		}
		p.globals = append(p.globals, g)
		if !p.accept(",") {
			break
		}
		name = p.next()
	}
	p.expect(";")
}

func (p *Program) initializer() *node {
	if p.isP("{") {
		p.next()
		n := &node{k: "init"}
		for !p.isP("}") && p.peek().k != 0 && p.err == "" {
			n.kids = append(n.kids, p.initializer())
			if !p.accept(",") {
				break
			}
		}
		p.expect("}")
		return n
	}
	return p.parseAssign()
}

// ---- statements ----

func (p *Program) block() *node {
	n := &node{k: "block"}
	p.expect("{")
	for !p.isP("}") && p.peek().k != 0 && p.err == "" {
		n.kids = append(n.kids, p.statement())
	}
	p.expect("}")
	return n
}

func (p *Program) isDeclStart() bool {
	t := p.peek()
	if t.k != 'i' {
		return false
	}
	if isQualifier(t.s) {
		return true
	}
	if p.typeByName(t.s) == nil {
		return false
	}
	n1 := p.peekAt(1)
	return n1.k == 'i' // "T name": a declaration; "T(" / "T[" are constructor expressions
}

func (p *Program) declaration() *node {
	dq := p.qualifiers()
	shared := has(dq, "threadgroup") || has(dq, "groupshared") || has(dq, "shared")
	t := p.parseType()
	blk := &node{k: "decls"}
	for {
		if p.accept("&") {
			// local reference: treated as an alias of its initialiser
		}
		name := p.next()
		if name.k != 'i' {
			p.fail("declarator expected")
			break
		}
		dt := p.arraySuffix(t)
		d := &node{k: "decl", s: name.s, t: dt, shared: shared}
		for p.peek().k == 'a' {
			p.next()
		}
		if p.accept("=") {
			d.kids = append(d.kids, p.initializer())
		} else if p.isP("{") { // T name {a, b}
			d.kids = append(d.kids, p.initializer())
		}
		blk.kids = append(blk.kids, d)
		if !p.accept(",") {
			break
		}
	}
	p.expect(";")
	if len(blk.kids) == 1 {
		return blk.kids[0]
	}
	return blk
}

func (p *Program) statement() *node {
	t := p.peek()
	if t.k == 'p' {
		switch t.s {
		case "{":
			return p.block()
		case ";":
			p.next()
			return &node{k: "block"}
		case "[": // HLSL statement attribute: [loop] [unroll] [branch] ...
			p.skipGroup("[", "]")
			return p.statement()
		}
	}
	if t.k == 'i' {
		switch t.s {
		case "if":
			p.next()
			p.expect("(")
			c := p.parseExpr()
			p.expect(")")
			n := &node{k: "if", kids: []*node{c, p.statement()}}
			if p.isI("else") {
				p.next()
				n.kids = append(n.kids, p.statement())
			}
			return n
		case "while":
			p.next()
			p.expect("(")
			c := p.parseExpr()
			p.expect(")")
			return &node{k: "while", kids: []*node{c, p.statement()}}
		case "do":
			p.next()
			body := p.statement()
			if !p.isI("while") {
				p.fail("'while' expected after do body")
			}
			p.next()
			p.expect("(")
			c := p.parseExpr()
			p.expect(")")
			p.expect(";")
			return &node{k: "dowhile", kids: []*node{c, body}}
		case "for":
			p.next()
			p.expect("(")
			var init, cond, step *node
			if !p.isP(";") {
				if p.isDeclStart() {
					init = p.declaration()
				} else {
					init = &node{k: "expr", kids: []*node{p.parseExpr()}}
					p.expect(";")
				}
			} else {
				p.next()
			}
			if !p.isP(";") {
				cond = p.parseExpr()
			}
			p.expect(";")
			if !p.isP(")") {
				step = p.parseExpr()
			}
			p.expect(")")
			body := p.statement()
			return &node{k: "for", kids: []*node{init, cond, step, body}}
		case "switch":
			p.next()
			p.expect("(")
			sel := p.parseExpr()
			p.expect(")")
			n := &node{k: "switch", kids: []*node{sel}}
			p.expect("{")
			for !p.isP("}") && p.peek().k != 0 && p.err == "" {
				if p.isI("case") {
					p.next()
					lbl := p.parseCond()
					p.expect(":")
					n.kids = append(n.kids, &node{k: "case", kids: []*node{lbl}})
				} else if p.isI("default") {
					p.next()
					p.expect(":")
					n.kids = append(n.kids, &node{k: "default"})
				} else {
					n.kids = append(n.kids, p.statement())
				}
			}
			p.expect("}")
			return n
		case "break":
			p.next()
			p.expect(";")
			return &node{k: "break"}
		case "continue":
			p.next()
			p.expect(";")
			return &node{k: "continue"}
		case "discard", "discard_fragment":
			p.next()
			if p.isP("(") {
				p.skipGroup("(", ")")
			}
			p.expect(";")
			return &node{k: "discard"}
		case "return":
			p.next()
			n := &node{k: "return"}
			if !p.isP(";") {
				n.kids = append(n.kids, p.parseExpr())
			}
			p.expect(";")
			return n
		}
		if p.isDeclStart() {
			return p.declaration()
		}
	}
	e := p.parseExpr()
	p.expect(";")
	return &node{k: "expr", kids: []*node{e}}
}

// ---- expressions (C precedence) ----

func (p *Program) parseExpr() *node {
	e := p.parseAssign()
	for p.isP(",") && false {
		p.next()
		e = &node{k: "comma", kids: []*node{e, p.parseAssign()}}
	}
	return e
}

func isAssignOp(s string) bool {
	switch s {
	case "=", "+=", "-=", "*=", "/=", "%=", "&=", "|=", "^=", "<<=", ">>=":
		return true
	}
	return false
}

func (p *Program) parseAssign() *node {
	lhs := p.parseCond()
	t := p.peek()
	if t.k == 'p' && isAssignOp(t.s) {
		p.next()
		rhs := p.parseAssign()
		return &node{k: "assign", s: t.s, kids: []*node{lhs, rhs}}
	}
	return lhs
}

func (p *Program) parseCond() *node {
	c := p.parseBin(0)
	if p.isP("?") {
		p.next()
		a := p.parseAssign()
		p.expect(":")
		b := p.parseCond()
		return &node{k: "cond", kids: []*node{c, a, b}}
	}
	return c
}

var binLevels = [][]string{
	{"||"}, {"&&"}, {"|"}, {"^"}, {"&"}, {"==", "!="}, {"<", ">", "<=", ">="}, {"<<", ">>"}, {"+", "-"}, {"*", "/", "%"},
}

func (p *Program) parseBin(level int) *node {
	if level >= len(binLevels) {
		return p.parseUnary()
	}
	lhs := p.parseBin(level + 1)
	for {
		t := p.peek()
		found := false
		if t.k == 'p' {
			for _, op := range binLevels[level] {
				if t.s == op {
					found = true
				}
			}
		}
		if !found {
			return lhs
		}
		p.next()
		rhs := p.parseBin(level + 1)
		lhs = &node{k: "bin", s: t.s, kids: []*node{lhs, rhs}}
	}
}

func (p *Program) parseUnary() *node {
	t := p.peek()
	if t.k == 'p' {
		switch t.s {
		case "-", "+", "!", "~":
			p.next()
			return &node{k: "un", s: t.s, kids: []*node{p.parseUnary()}}
		case "++", "--":
			p.next()
			return &node{k: "pre", s: t.s, kids: []*node{p.parseUnary()}}
		case "*", "&": // pointer dereference / address-of: both denote the same storage here
			p.next()
			return p.parseUnary()
		case "(":
			// C-style cast: ( type ) unary
			n1 := p.peekAt(1)
			if n1.k == 'i' && p.typeByName(n1.s) != nil && p.peekAt(2).k == 'p' && (p.peekAt(2).s == ")" || p.peekAt(2).s == "[") {
				save := p.pos
				p.next()
				ty := p.parseType()
				ty = p.arraySuffix(ty)
				if p.accept(")") {
					return &node{k: "cast", t: ty, kids: []*node{p.parseUnary()}}
				}
				p.pos = save // not a cast after all: T[...] was an expression
			}
		}
	}
	return p.parsePostfix()
}

func (p *Program) args() []*node {
	var as []*node
	p.expect("(")
	for !p.isP(")") && p.peek().k != 0 && p.err == "" {
		as = append(as, p.parseAssign())
		if !p.accept(",") {
			break
		}
	}
	p.expect(")")
	return as
}

func (p *Program) parsePrimary() *node {
	t := p.next()
	switch t.k {
	case 'n', 'f':
		return &node{k: "lit", tk: t}
	case 'p':
		if t.s == "(" {
			e := p.parseExpr()
			p.expect(")")
			return e
		}
		if t.s == "{" { // brace initialiser in expression position
			p.pos--
			return p.initializer()
		}
	case 'i':
		if t.s == "true" || t.s == "false" {
			return &node{k: "lit", tk: t}
		}
		if t.s == "as_type" || t.s == "static_cast" || t.s == "bitcast" {
			p.expect("<")
			p.qualifiers()
			ty := p.parseType()
			p.expect(">")
			as := p.args()
			k := "bits"
			if t.s == "static_cast" {
				k = "cast"
			}
			if len(as) != 1 {
				p.fail(t.s + " takes one argument")
				return &node{k: "lit", tk: tok{k: 'n'}}
			}
			return &node{k: k, t: ty, kids: as}
		}
		if ty := p.typeByName(t.s); ty != nil && (p.isP("(") || p.isP("[") || p.isP("{")) {
			if _, isFn := p.funcs[t.s]; !isFn {
				ty = p.arraySuffix(ty)
				if p.isP("{") {
					in := p.initializer()
					if ty.K == 'S' || ty.K == 'A' { // aggregate initialisation: members may be brace lists
						return &node{k: "tinit", t: ty, kids: []*node{in}}
					}
					return &node{k: "ctor", t: ty, kids: in.kids}
				}
				return &node{k: "ctor", t: ty, kids: p.args()}
			}
		}
		if p.isP("(") {
			return &node{k: "call", s: t.s, kids: p.args()}
		}
		return &node{k: "id", s: t.s}
	}
	p.fail("unexpected token '" + t.s + "' in expression")
	return &node{k: "lit", tk: tok{k: 'n'}}
}

func (p *Program) parsePostfix() *node {
	e := p.parsePrimary()
	for p.err == "" {
		switch {
		case p.isP("["):
			p.next()
			ix := p.parseExpr()
			p.expect("]")
			e = &node{k: "index", kids: []*node{e, ix}}
		case p.isP(".") || p.isP("->"):
			p.next()
			name := p.next()
			if p.isP("(") {
				e = &node{k: "method", s: name.s, kids: append([]*node{e}, p.args()...)}
			} else {
				e = &node{k: "member", s: name.s, kids: []*node{e}}
			}
		case p.isP("++") || p.isP("--"):
			t := p.next()
			e = &node{k: "post", s: t.s, kids: []*node{e}}
		default:
			return e
		}
	}
	return e
}

func typeKey(t *Type) string {
	if t == nil {
		return "?"
	}
	switch t.K {
	case 'V':
		return typeKey(t.Elem) + string(rune('0'+t.N))
	case 'A':
		return typeKey(t.Elem) + "[" + string(rune('0'+t.N%10)) + "]"
	case 'M':
		return "mat" + string(rune('0'+t.N)) + string(rune('0'+t.Rows))
	case 'S':
		return "struct " + t.Name
	}
	return t.Name
}

func funcSignature(f *fn) string {
	s := f.name + "("
	for i, prm := range f.params {
		if i > 0 {
			s += ","
		}
		s += typeKey(prm.t)
	}
	return s + ")"
}
