//go:build verif

package zzclike

import (
	zz "github.com/gogpu/naga/internal/zzverif"
)

type flow int

const (
	flowNone flow = iota
	flowBreak
	flowContinue
	flowReturn
)

type frame struct {
	ret *Val
}

func (p *Program) tick() bool {
	p.steps++
	if p.steps >= p.StepMax {
		zz.Assert(false, "reference evaluator: step budget exhausted (non-terminating emitted code?)")
		if p.err == "" {
			p.err = "step budget"
		}
		return false
	}
	return p.err == ""
}

func (p *Program) truth(e *node) bool {
	c := p.eval(e)
	if c.T.K == 'V' {
		p.rtFail("vector used as a condition")
		return false
	}
	return p.convert(p.scalarOf(c), tBool).S != 0
}

func (p *Program) execBlock(stmts []*node, fr *frame) flow {
	for _, s := range stmts {
		if f := p.exec(s, fr); f != flowNone {
			return f
		}
	}
	return flowNone
}

func (p *Program) exec(s *node, fr *frame) flow {
	if !p.tick() {
		return flowReturn
	}
	switch s.k {
	case "block":
		p.push()
		f := p.execBlock(s.kids, fr)
		p.pop()
		return f
	case "decls":
		return p.execBlock(s.kids, fr)
	case "decl":
		var v *Val
		if len(s.kids) > 0 && s.t.K == '?' {
			v = p.eval(s.kids[0]).clone()
		} else if len(s.kids) > 0 {
			v = p.initValue(s.t, s.kids[0])
		} else {
			v = zero(s.t) // reading it before a write is checked by the WGSL side, not here
			if s.shared {
				p.fillGarbage(v)
			}
		}
		p.declare(s.s, v)
		return flowNone
	case "expr":
		p.eval(s.kids[0])
		return flowNone
	case "if":
		if p.truth(s.kids[0]) {
			return p.exec(s.kids[1], fr)
		} else if len(s.kids) > 2 {
			return p.exec(s.kids[2], fr)
		}
		return flowNone
	case "while":
		for p.err == "" && p.tick() && p.truth(s.kids[0]) {
			f := p.exec(s.kids[1], fr)
			if f == flowBreak {
				break
			}
			if f == flowReturn {
				return f
			}
		}
		return flowNone
	case "dowhile":
		for p.err == "" && p.tick() {
			f := p.exec(s.kids[1], fr)
			if f == flowBreak {
				break
			}
			if f == flowReturn {
				return f
			}
			if !p.truth(s.kids[0]) {
				break
			}
		}
		return flowNone
	case "for":
		p.push()
		if s.kids[0] != nil {
			p.exec(s.kids[0], fr)
		}
		for p.err == "" && p.tick() {
			if s.kids[1] != nil && !p.truth(s.kids[1]) {
				break
			}
			f := p.exec(s.kids[3], fr)
			if f == flowBreak {
				break
			}
			if f == flowReturn {
				p.pop()
				return f
			}
			if s.kids[2] != nil {
				p.eval(s.kids[2])
			}
		}
		p.pop()
		return flowNone
	case "switch":
		sel := p.scalarOf(p.eval(s.kids[0]))
		start := -1
		for i := 1; i < len(s.kids) && start < 0; i++ {
			if s.kids[i].k == "case" {
				l := p.scalarOf(p.eval(s.kids[i].kids[0]))
				if p.scalarBin("==", sel, l).S != 0 {
					start = i
				}
			}
		}
		if start < 0 {
			for i := 1; i < len(s.kids); i++ {
				if s.kids[i].k == "default" {
					start = i
				}
			}
		}
		if start < 0 {
			return flowNone
		}
		p.push()
		for i := start; i < len(s.kids); i++ {
			k := s.kids[i]
			if k.k == "case" || k.k == "default" {
				continue
			}
			f := p.exec(k, fr)
			if f == flowBreak {
				break
			}
			if f != flowNone {
				p.pop()
				return f
			}
		}
		p.pop()
		return flowNone
	case "break":
		return flowBreak
	case "continue":
		return flowContinue
	case "discard":
		return flowReturn
	case "return":
		if len(s.kids) > 0 {
			fr.ret = p.eval(s.kids[0])
		}
		return flowReturn
	}
	p.rtFail("unsupported statement kind " + s.k)
	return flowReturn
}

func (p *Program) callUser(f *fn, argNodes []*node) *Val {
	if len(argNodes) != len(f.params) {
		p.rtFail("call of " + f.name + " with a wrong number of arguments")
		return zero(f.ret)
	}
	locals := map[string]*Val{}
	for i, prm := range f.params {
		if prm.ref {
			cells := p.lvalue(argNodes[i])
			if len(cells) != 1 {
				p.rtFail("swizzle passed by reference")
				return zero(f.ret)
			}
			locals[prm.s] = cells[0]
		} else {
			locals[prm.s] = p.coerce(p.eval(argNodes[i]), prm.t)
		}
	}
	saved := p.scopes
	p.scopes = []map[string]*Val{locals}
	fr := &frame{}
	p.execBlock(f.body.kids, fr)
	p.scopes = saved
	if f.ret.K == 'v' {
		return zero(tVoid)
	}
	if fr.ret == nil {
		zz.Assert(false, "emitted function "+f.name+" falls off its end without returning a value: undefined")
		return zero(f.ret)
	}
	return p.coerce(fr.ret, f.ret)
}

func mapComps(vs []*Val, f func(xs []*Val) *Val) *Val {
	n := 0
	for _, v := range vs {
		if v.T.K == 'V' {
			n = v.T.N
		}
	}
	if n == 0 {
		return f(vs)
	}
	var r *Val
	for i := 0; i < n; i++ {
		xs := make([]*Val, len(vs))
		for k, v := range vs {
			if v.T.K == 'V' {
				xs[k] = v.E[i]
			} else {
				xs[k] = v
			}
		}
		c := f(xs)
		if r == nil {
			r = &Val{T: vecOf(c.T, n)}
		}
		r.E = append(r.E, c)
	}
	return r
}

func (p *Program) call(e *node) *Val {
	if f, ok := p.funcs[e.s]; ok {
		if ovs := p.overload[e.s]; len(ovs) > 1 {
			// overload resolution: same arity and the parameter types of the (static)
			// argument types; the last definition is the fallback
			for _, g := range ovs {
				if len(g.params) != len(e.kids) {
					continue
				}
				match := true
				for i, prm := range g.params {
					if typeKey(p.staticType(e.kids[i])) != typeKey(prm.t) {
						match = false
					}
				}
				if match {
					f = g
				}
			}
		}
		return p.callUser(f, e.kids)
	}
	switch e.s {
	case "GroupMemoryBarrierWithGroupSync", "DeviceMemoryBarrierWithGroupSync", "AllMemoryBarrierWithGroupSync", "threadgroup_barrier",
		"barrier", "memoryBarrierShared", "memoryBarrierBuffer", "memoryBarrier", "groupMemoryBarrier", "DeviceMemoryBarrier",
		"GroupMemoryBarrier", "AllMemoryBarrier", "simdgroup_barrier":
		return zero(tVoid) // one invocation per workgroup: a barrier has no effect
	}
	as := p.evalArgs(e.kids)
	need := func(n int) bool {
		if len(as) != n {
			p.rtFail("intrinsic " + e.s + " with a wrong number of arguments")
			return false
		}
		return true
	}
	switch e.s {
	case "asint", "floatBitsToInt":
		if need(1) {
			return p.reinterpret(as[0], tInt)
		}
	case "asuint", "floatBitsToUint":
		if need(1) {
			return p.reinterpret(as[0], tUint)
		}
	case "asfloat", "intBitsToFloat", "uintBitsToFloat":
		if need(1) {
			return p.reinterpret(as[0], tFloat)
		}
	case "select": // MSL select(f, t, cond)
		if need(3) {
			return p.selectVec(as[0], as[1], as[2])
		}
	case "mix": // GLSL mix(f, t, bvec / bool)
		if need(3) {
			c := as[2]
			ck := c.T
			if ck.K == 'V' {
				ck = ck.Elem
			}
			if ck.K == 'b' {
				return p.selectVec(as[0], as[1], c)
			}
			p.rtFail("float mix is not modelled")
		}
	case "all":
		if need(1) {
			r := true
			for _, c := range flatten(as[0], nil) {
				if c.S == 0 {
					r = false
				}
			}
			return boolVal(r)
		}
	case "any":
		if need(1) {
			r := false
			for _, c := range flatten(as[0], nil) {
				if c.S != 0 {
					r = true
				}
			}
			return boolVal(r)
		}
	case "not":
		if need(1) {
			return p.unary("!", as[0])
		}
	case "lessThan", "lessThanEqual", "greaterThan", "greaterThanEqual", "equal", "notEqual":
		if need(2) {
			op := map[string]string{"lessThan": "<", "lessThanEqual": "<=", "greaterThan": ">", "greaterThanEqual": ">=", "equal": "==", "notEqual": "!="}[e.s]
			return mapComps(as, func(xs []*Val) *Val { return p.scalarBin(op, xs[0], xs[1]) })
		}
	case "min", "max":
		if need(2) {
			return mapComps(as, func(xs []*Val) *Val {
				lt := p.scalarBin("<", xs[1], xs[0]).S != 0
				if e.s == "max" {
					lt = p.scalarBin("<", xs[0], xs[1]).S != 0
				}
				if lt {
					return p.coerce(xs[1], xs[0].T)
				}
				return xs[0]
			})
		}
	case "clamp":
		if need(3) {
			return mapComps(as, func(xs []*Val) *Val {
				v := xs[0]
				if p.scalarBin("<", v, xs[1]).S != 0 {
					v = p.coerce(xs[1], xs[0].T)
				}
				if p.scalarBin("<", xs[2], v).S != 0 {
					v = p.coerce(xs[2], xs[0].T)
				}
				return v
			})
		}
	case "abs":
		if need(1) {
			return mapComps(as, func(xs []*Val) *Val {
				x := xs[0]
				switch x.T.K {
				case 'f':
					return &Val{T: x.T, S: x.S &^ 0x80000000}
				case 'i':
					if int32(x.S) < 0 {
						zz.Assert(p.d != MSL || x.S != 0x80000000, "emitted MSL takes abs(INT_MIN): undefined (C++14)")
						return &Val{T: x.T, S: -x.S}
					}
				}
				return x
			})
		}
	case "firstbithigh", "findMSB": // index of the most significant 1 (for negative ints: 0) bit; -1 if none
		if need(1) {
			return mapComps(as, func(xs []*Val) *Val {
				x := xs[0].S
				if xs[0].T.K == 'i' {
					x ^= uint32(int32(x) >> 31)
				}
				rt := xs[0].T
				if p.d == GLSL {
					rt = tInt
				}
				return &Val{T: rt, S: 31 - clz32(x)}
			})
		}
	case "firstbitlow", "findLSB": // index of the least significant 1 bit; -1 if none
		if need(1) {
			return mapComps(as, func(xs []*Val) *Val {
				rt := xs[0].T
				if p.d == GLSL {
					rt = tInt
				}
				tz := ctz32(xs[0].S)
				return &Val{T: rt, S: tz | -(tz >> 5)}
			})
		}
	case "clz":
		if need(1) {
			return mapComps(as, func(xs []*Val) *Val { return &Val{T: xs[0].T, S: clz32(xs[0].S)} })
		}
	case "ctz":
		if need(1) {
			return mapComps(as, func(xs []*Val) *Val { return &Val{T: xs[0].T, S: ctz32(xs[0].S)} })
		}
	case "extract_bits", "bitfieldExtract":
		if need(3) {
			return mapComps(as, func(xs []*Val) *Val {
				off, cnt := p.convert(xs[1], tUint).S, p.convert(xs[2], tUint).S
				zz.Assert(off <= 32 && cnt <= 32 && off+cnt <= 32, "emitted text extracts a bit field with offset + bits > 32 (or a negative one): undefined in the target language")
				if off > 32 || cnt > 32 || off+cnt > 32 {
					return &Val{T: xs[0].T}
				}
				v := uint32((uint64(xs[0].S) >> off) & (uint64(1)<<cnt - 1))
				if xs[0].T.K == 'i' && cnt > 0 && cnt < 32 { // sign-extend
					sh := 32 - cnt
					v = uint32(int32(v<<sh) >> sh)
				}
				return &Val{T: xs[0].T, S: v}
			})
		}
	case "insert_bits", "bitfieldInsert":
		if need(4) {
			return mapComps(as, func(xs []*Val) *Val {
				off, cnt := p.convert(xs[2], tUint).S, p.convert(xs[3], tUint).S
				zz.Assert(off <= 32 && cnt <= 32 && off+cnt <= 32, "emitted text inserts a bit field with offset + bits > 32 (or a negative one): undefined in the target language")
				if off > 32 || cnt > 32 || off+cnt > 32 {
					return &Val{T: xs[0].T}
				}
				mask := uint32((uint64(1)<<cnt - 1) << off)
				return &Val{T: xs[0].T, S: xs[0].S&^mask | uint32(uint64(xs[1].S)<<off)&mask}
			})
		}
	case "countbits", "popcount", "bitCount":
		if need(1) {
			return mapComps(as, func(xs []*Val) *Val {
				rt := xs[0].T
				if p.d == GLSL {
					rt = tInt
				}
				return &Val{T: rt, S: popc32(xs[0].S)}
			})
		}
	case "reversebits", "reverse_bits", "bitfieldReverse":
		if need(1) {
			return mapComps(as, func(xs []*Val) *Val { return &Val{T: xs[0].T, S: rev32(xs[0].S)} })
		}
	case "dot":
		if need(2) && as[0].T.K == 'V' && as[1].T.K == 'V' && as[0].T.N == as[1].T.N {
			acc := p.scalarBin("*", as[0].E[0], as[1].E[0])
			for i := 1; i < as[0].T.N; i++ {
				acc = p.scalarBin("+", acc, p.scalarBin("*", as[0].E[i], as[1].E[i]))
			}
			return acc
		}
	}
	if p.err == "" {
		p.rtFail("the emitted text calls '" + e.s + "', which is neither defined in it nor a modelled intrinsic")
	}
	return zero(tInt)
}

func (p *Program) method(e *node) *Val {
	objCells := p.lvalue(e.kids[0])
	if len(objCells) != 1 {
		p.rtFail("method on a swizzle")
		return zero(tInt)
	}
	obj := objCells[0]
	as := p.evalArgs(e.kids[1:])
	if obj.T.K == 'B' {
		n := 0
		switch e.s {
		case "Load", "Store":
			n = 1
		case "Load2", "Store2":
			n = 2
		case "Load3", "Store3":
			n = 3
		case "Load4", "Store4":
			n = 4
		}
		if n == 0 || len(as) < 1 {
			p.rtFail("unsupported byte-address-buffer method " + e.s)
			return zero(tInt)
		}
		addr := p.convert(p.scalarOf(as[0]), tUint).S
		zz.Assert(addr&3 == 0, "emitted HLSL uses a byte address that is not a multiple of 4: undefined")
		w := addr >> 2
		if e.s[0] == 'L' {
			r := &Val{T: vecOf(tUint, n)}
			for i := 0; i < n; i++ {
				var x uint32
				ix := w + uint32(i)
				if ix < uint32(len(p.words)) { // out-of-bounds loads return 0 (D3D robust access)
					x = p.words[ix]
				}
				r.E = append(r.E, &Val{T: tUint, S: x})
			}
			if n == 1 {
				return r.E[0]
			}
			return r
		}
		if len(as) != 2 {
			p.rtFail("Store with a wrong number of arguments")
			return zero(tVoid)
		}
		comps := flatten(as[1], nil)
		if len(comps) != n {
			p.rtFail("Store with a value of the wrong width")
			return zero(tVoid)
		}
		for i := 0; i < n; i++ {
			zz.Assert(comps[i].T.K == 'u', "emitted HLSL stores a non-uint value into a byte-address buffer (implicit value conversion instead of asuint)")
			ix := w + uint32(i)
			if ix < uint32(len(p.words)) { // out-of-bounds stores are dropped
				p.words[ix] = comps[i].S
			}
		}
		return zero(tVoid)
	}
	p.rtFail("unsupported method " + e.s)
	return zero(tInt)
}

// unflatten fills the scalar cells of v from words (declaration order) and returns the
// number of words consumed.
func unflatten(v *Val, words []uint32, at int) int {
	for _, c := range flatten(v, nil) {
		if at < len(words) {
			c.S = words[at]
		}
		at++
	}
	return at
}

// Run executes entry point `entry` with the single storage buffer of the program holding
// `in` (32-bit words in declaration order) and returns the final buffer words.
// All invocation-id builtins are zero (one invocation).
func (p *Program) Run(entry string, in []uint32) ([]uint32, string) {
	f, ok := p.funcs[entry]
	if !ok {
		return nil, "entry point " + entry + " not found in the emitted text"
	}
	p.genv = map[string]*Val{}
	p.scopes = nil
	p.steps = 0
	p.words = append([]uint32(nil), in...)
	var buffer, uniform *Val
	var bufMode layoutMode
	p.scopes = []map[string]*Val{{}}
	bind := func(g *global, v *Val) {
		if g.class == "buffer" && buffer == nil {
			buffer, bufMode = v, p.modeOf(g)
			loadImage(v, bufMode, in)
		}
		if g.class == "uniform" && uniform == nil {
			uniform = v
			loadImage(v, p.modeOf(g), p.Uniform)
		}
	}
	for _, g := range p.globals {
		var v *Val
		if g.init != nil {
			v = p.initValue(g.t, g.init)
		} else {
			v = zero(g.t)
		}
		bind(g, v)
		if g.class == "shared" {
			p.fillGarbage(v)
		}
		p.genv[g.name] = v
	}
	for _, g := range p.blocks {
		v := zero(g.t)
		bind(g, v)
		for i, f := range g.t.Fields {
			p.genv[f.Name] = v.E[i]
		}
	}
	if p.d == GLSL {
		for _, n := range []string{"gl_LocalInvocationID", "gl_LocalInvocationIndex", "gl_WorkGroupID", "gl_GlobalInvocationID", "gl_NumWorkGroups", "gl_WorkGroupSize"} {
			if v := p.builtin(n, nil); v != nil {
				p.genv[n] = v
			}
		}
	}
	locals := map[string]*Val{}
	for i, prm := range f.params {
		v := zero(prm.t)
		if f.space[i] == "device" && buffer == nil {
			buffer, bufMode = v, layMSL
			loadImage(v, layMSL, in)
		}
		if f.space[i] == "constant" && uniform == nil && prm.sem != "" && len(prm.sem) > 6 && prm.sem[:6] == "buffer" {
			uniform = v
			loadImage(v, layMSL, p.Uniform)
		}
		if f.space[i] == "threadgroup" {
			p.fillGarbage(v)
		}
		if b := p.builtin(prm.sem, prm.t); b != nil {
			v = b
		}
		if prm.t.K == 'S' {
			for k, fld := range prm.t.Fields {
				if b := p.builtin(fld.Sem, fld.T); b != nil {
					v.E[k] = b
				}
			}
		}
		locals[prm.s] = v
	}
	p.scopes = []map[string]*Val{locals}
	fr := &frame{}
	p.execBlock(f.body.kids, fr)
	if p.err != "" {
		return nil, p.err
	}
	if p.d == HLSL {
		return p.words, ""
	}
	if buffer == nil {
		return nil, "no storage buffer found in the emitted text"
	}
	return storeImage(buffer, bufMode, in), ""
}

// fillGarbage fills workgroup storage with the stale words of a previous dispatch.
func (p *Program) fillGarbage(v *Val) {
	if len(p.Garbage) == 0 {
		return
	}
	for _, c := range flatten(v, nil) {
		c.S = p.Garbage[p.garbageAt%len(p.Garbage)]
		p.garbageAt++
	}
}

func u3(x, y, z uint32) *Val {
	return &Val{T: vecOf(tUint, 3), E: []*Val{{T: tUint, S: x}, {T: tUint, S: y}, {T: tUint, S: z}}}
}

// builtin gives the value of an invocation builtin named by an HLSL semantic, an MSL
// attribute or a GLSL variable, for local invocation (0,0,0) of workgroup p.WorkgroupID.
func (p *Program) builtin(sem string, t *Type) *Val {
	w, sz := p.WorkgroupID, p.WorkgroupSize
	for i := range sz {
		if sz[i] == 0 {
			sz[i] = 1
		}
	}
	switch sem {
	case "SV_GroupThreadID", "thread_position_in_threadgroup", "gl_LocalInvocationID":
		return u3(0, 0, 0)
	case "SV_GroupIndex", "thread_index_in_threadgroup", "gl_LocalInvocationIndex":
		return &Val{T: tUint}
	case "SV_GroupID", "threadgroup_position_in_grid", "gl_WorkGroupID":
		return u3(w[0], w[1], w[2])
	case "SV_DispatchThreadID", "thread_position_in_grid", "gl_GlobalInvocationID":
		return u3(w[0]*sz[0], w[1]*sz[1], w[2]*sz[2])
	case "gl_WorkGroupSize", "threads_per_threadgroup":
		return u3(sz[0], sz[1], sz[2])
	}
	return nil
}

// branch-free bit counting (the reference closures of the templates use math/bits: the two
// formulations are independent)
func popc32(x uint32) uint32 {
	// sum of the bits (the SWAR multiply form is not decided by the solvers against it)
	var n uint32
	for i := uint(0); i < 32; i++ {
		n += x >> i & 1
	}
	return n
}

func clz32(x uint32) uint32 {
	x |= x >> 1
	x |= x >> 2
	x |= x >> 4
	x |= x >> 8
	x |= x >> 16
	return 32 - popc32(x)
}

func ctz32(x uint32) uint32 { return popc32((x & -x) - 1) }

func rev32(x uint32) uint32 {
	x = x>>1&0x55555555 | x&0x55555555<<1
	x = x>>2&0x33333333 | x&0x33333333<<2
	x = x>>4&0x0F0F0F0F | x&0x0F0F0F0F<<4
	x = x>>8&0x00FF00FF | x&0x00FF00FF<<8
	return x>>16 | x<<16
}

// ---- memory layout of buffer types (bytes), per target language ----

type layoutMode int

const (
	layMSL    layoutMode = iota // C++ layout with Metal's vector sizes (vec3 = 16 bytes unless packed_)
	layStd430                   // GLSL storage blocks
	layStd140                   // GLSL uniform blocks: array strides and struct alignments rounded up to 16
	layCBuf                     // HLSL constant-buffer packing (see placeCBuf)
)

func roundUp(a, n int) int { return (n + a - 1) / a * a }

func layout(t *Type, m layoutMode) (size, align int) {
	switch t.K {
	case 'b', 'i', 'u', 'f':
		if t.Bits == 8 {
			return 1, 1
		}
		if t.Bits == 16 {
			return 2, 2
		}
		return 4, 4
	case 'V':
		es, _ := layout(t.Elem, m)
		if m != layMSL {
			switch t.N {
			case 2:
				return 2 * es, 2 * es
			case 3:
				return 3 * es, 4 * es
			}
			return 4 * es, 4 * es
		}
		if t.Packed {
			return t.N * es, es
		}
		if t.N == 3 {
			return 4 * es, 4 * es
		}
		return t.N * es, t.N * es
	case 'M', 'A':
		es, ea := layout(t.Elem, m)
		if m == layStd140 {
			ea = roundUp(16, ea)
		}
		return t.N * roundUp(ea, es), ea
	case 'S':
		off, maxA := 0, 1
		for _, f := range t.Fields {
			fs, fa := layout(f.T, m)
			off = roundUp(fa, off) + fs
			if fa > maxA {
				maxA = fa
			}
		}
		if m == layStd140 {
			maxA = roundUp(16, maxA)
		}
		return roundUp(maxA, off), maxA
	}
	return 4, 4
}

// mapBytes visits every 32-bit scalar cell of v with its byte offset in the buffer image.
func mapBytes(v *Val, base int, m layoutMode, visit func(cell *Val, byteOff int)) {
	switch v.T.K {
	case 'b', 'i', 'u', 'f':
		if v.T.Bits != 8 && v.T.Bits != 16 {
			visit(v, base)
		}
	case 'V':
		es, _ := layout(v.T.Elem, m)
		for i, e := range v.E {
			mapBytes(e, base+i*es, m, visit)
		}
	case 'M', 'A':
		es, ea := layout(v.T.Elem, m)
		if m == layStd140 {
			ea = roundUp(16, ea)
		}
		stride := roundUp(ea, es)
		for i, e := range v.E {
			mapBytes(e, base+i*stride, m, visit)
		}
	case 'S':
		off := 0
		for i, f := range v.T.Fields {
			fs, fa := layout(f.T, m)
			off = roundUp(fa, off)
			mapBytes(v.E[i], base+off, m, visit)
			off += fs
		}
	}
}

// placeCBuf lays v out by the HLSL packing rules for constant variables: every scalar takes
// 4 bytes at the next free 4-byte slot; a vector is moved to the next 16-byte register when
// it would straddle one; arrays, matrices and structs start on a register; every array
// element (matrix row/column) starts on a register and the last one is not padded; a struct
// is not padded at its end either, so what follows may share its last register. It returns
// the first free byte after v.
func placeCBuf(v *Val, off int, visit func(cell *Val, byteOff int)) int {
	switch v.T.K {
	case 'V':
		n := 4 * len(v.E)
		if off%16+n > 16 {
			off = roundUp(16, off)
		}
		for i, e := range v.E {
			visit(e, off+4*i)
		}
		return off + n
	case 'M', 'A':
		off = roundUp(16, off)
		for _, e := range v.E {
			off = placeCBuf(e, roundUp(16, off), visit)
		}
		return off
	case 'S':
		off = roundUp(16, off)
		for _, e := range v.E {
			off = placeCBuf(e, off, visit)
		}
		return off
	}
	visit(v, off)
	return off + 4
}

func (p *Program) modeOf(g *global) layoutMode {
	switch {
	case p.d == MSL:
		return layMSL
	case p.d == HLSL:
		return layCBuf
	case g != nil && (g.std140 || g.class == "uniform"):
		return layStd140
	}
	return layStd430
}

func visitImage(v *Val, m layoutMode, visit func(cell *Val, byteOff int)) {
	if m == layCBuf {
		placeCBuf(v, 0, visit)
		return
	}
	mapBytes(v, 0, m, visit)
}

// loadImage fills the cells of a buffer value from its byte image (32-bit words).
func loadImage(v *Val, m layoutMode, words []uint32) {
	visitImage(v, m, func(c *Val, off int) {
		if off%4 == 0 && off/4 < len(words) {
			c.S = words[off/4]
		}
	})
}

// storeImage writes the cells of a buffer value back into a copy of the byte image.
func storeImage(v *Val, m layoutMode, words []uint32) []uint32 {
	out := append([]uint32(nil), words...)
	visitImage(v, m, func(c *Val, off int) {
		if off%4 == 0 && off/4 < len(out) {
			out[off/4] = c.S
		}
	})
	return out
}

// StructLayout returns the byte offset of every member of the struct called name and the
// struct's size, by the target language's layout rules for storage buffers (MSL: C++ layout
// with Metal's vector sizes; GLSL: std430). ok is false when the struct is not declared.
func (p *Program) StructLayout(name string) (offsets map[string]int, size int, ok bool) {
	t, found := p.structs[name]
	if !found {
		return nil, 0, false
	}
	mode := layStd430
	if p.d == MSL {
		mode = layMSL
	}
	offsets = map[string]int{}
	off := 0
	for _, f := range t.Fields {
		fs, fa := layout(f.T, mode)
		off = roundUp(fa, off)
		offsets[f.Name] = off
		off += fs
	}
	size, _ = layout(t, mode)
	return offsets, size, true
}
