//go:build verif

// Package zzclike is the reference evaluator for the C-like shader texts that the HLSL, MSL
// and GLSL back ends emit. It is harness code (overlay only), written from the language
// specifications (HLSL reference, Metal Shading Language specification 2.x / C++14, GLSL
// 4.50): a lexer, a recursive-descent parser for the subset the back ends produce
// (structs, global resource declarations, functions, local declarations, if/while/for/
// switch/break/continue/return, C expressions with constructors, swizzles, casts,
// bit reinterpretation and a table of intrinsics) and a tree-walking evaluator over values
// whose scalars are 32-bit patterns. Everything that the target language leaves undefined
// (integer division by zero, INT_MIN / -1, signed overflow in C++-based MSL, shift amounts
// >= 32 in GLSL, out-of-bounds indexing, reading an unknown name) is reported through
// zz.Assert so that a harness can never "pass" by way of undefined behaviour.
package zzclike

type Dialect int

const (
	HLSL Dialect = iota
	MSL
	GLSL
)

type tok struct {
	k   byte // 'i' identifier, 'n' integer literal, 'f' float literal, 'p' punctuation, 'a' MSL [[attribute]], 0 end
	s   string
	u   uint32
	uns bool
	f   float32
}

func isIdStart(c byte) bool {
	return c == '_' || (c >= 'a' && c <= 'z') || (c >= 'A' && c <= 'Z')
}
func isDigit(c byte) bool  { return c >= '0' && c <= '9' }
func isIdChar(c byte) bool { return isIdStart(c) || isDigit(c) }

var punct3 = []string{"<<=", ">>="}
var punct2 = []string{"<<", ">>", "<=", ">=", "==", "!=", "&&", "||", "+=", "-=", "*=", "/=", "%=", "&=", "|=", "^=", "++", "--", "->"}

func pow10(n int) float64 {
	r := 1.0
	for i := 0; i < n; i++ {
		r *= 10
	}
	return r
}

// lex splits src into tokens. Preprocessor lines, comments and (MSL) [[...]] attributes are
// dropped; "metal::" qualification is stripped.
func lex(src string, d Dialect) ([]tok, string) {
	var out []tok
	i, n := 0, len(src)
	lineStart := true
	for i < n {
		c := src[i]
		if c == '\n' {
			lineStart = true
			i++
			continue
		}
		if c == ' ' || c == '\t' || c == '\r' {
			i++
			continue
		}
		if c == '#' && lineStart {
			for i < n && src[i] != '\n' {
				i++
			}
			continue
		}
		lineStart = false
		if c == '/' && i+1 < n && src[i+1] == '/' {
			for i < n && src[i] != '\n' {
				i++
			}
			continue
		}
		if c == '/' && i+1 < n && src[i+1] == '*' {
			i += 2
			for i+1 < n && !(src[i] == '*' && src[i+1] == '/') {
				i++
			}
			i += 2
			continue
		}
		if d == MSL && c == '[' && i+1 < n && src[i+1] == '[' {
			j := i + 2
			for j+1 < n && !(src[j] == ']' && src[j+1] == ']') {
				j++
			}
			out = append(out, tok{k: 'a', s: src[i+2 : j]})
			i = j + 2
			continue
		}
		if isIdStart(c) {
			j := i
			for j < n && isIdChar(src[j]) {
				j++
			}
			for j+2 < n && src[j] == ':' && src[j+1] == ':' && isIdStart(src[j+2]) {
				j += 2
				for j < n && isIdChar(src[j]) {
					j++
				}
			}
			s := src[i:j]
			if len(s) > 7 && s[:7] == "metal::" {
				s = s[7:]
			}
			out = append(out, tok{k: 'i', s: s})
			i = j
			continue
		}
		if isDigit(c) || (c == '.' && i+1 < n && isDigit(src[i+1])) {
			j := i
			if c == '0' && j+1 < n && (src[j+1] == 'x' || src[j+1] == 'X') {
				j += 2
				var v uint32
				for j < n {
					h := src[j]
					var dgt uint32
					if isDigit(h) {
						dgt = uint32(h - '0')
					} else if h >= 'a' && h <= 'f' {
						dgt = uint32(h-'a') + 10
					} else if h >= 'A' && h <= 'F' {
						dgt = uint32(h-'A') + 10
					} else {
						break
					}
					v = v*16 + dgt
					j++
				}
				t := tok{k: 'n', s: src[i:j], u: v}
				if j < n && (src[j] == 'u' || src[j] == 'U') {
					t.uns = true
					j++
				}
				out = append(out, t)
				i = j
				continue
			}
			var mant float64
			var iv uint64
			digits, frac := 0, 0
			isFloat := false
			for j < n && isDigit(src[j]) {
				mant = mant*10 + float64(src[j]-'0')
				iv = iv*10 + uint64(src[j]-'0')
				digits++
				j++
			}
			if j < n && src[j] == '.' {
				isFloat = true
				j++
				for j < n && isDigit(src[j]) {
					mant = mant*10 + float64(src[j]-'0')
					frac++
					j++
				}
			}
			exp := 0
			if j < n && (src[j] == 'e' || src[j] == 'E') {
				isFloat = true
				j++
				neg := false
				if j < n && (src[j] == '+' || src[j] == '-') {
					neg = src[j] == '-'
					j++
				}
				for j < n && isDigit(src[j]) {
					exp = exp*10 + int(src[j]-'0')
					j++
				}
				if neg {
					exp = -exp
				}
			}
			if j < n && (src[j] == 'f' || src[j] == 'F' || src[j] == 'h' || src[j] == 'H') {
				isFloat = true
				j++
			}
			if isFloat {
				e10 := exp - frac
				v := mant
				if e10 > 0 {
					v = mant * pow10(e10)
				} else if e10 < 0 {
					v = mant / pow10(-e10)
				}
				out = append(out, tok{k: 'f', s: src[i:j], f: float32(v)})
				i = j
				continue
			}
			if iv > 0xFFFFFFFF {
				return nil, "integer literal out of range: " + src[i:j]
			}
			t := tok{k: 'n', s: src[i:j], u: uint32(iv)}
			if j < n && (src[j] == 'u' || src[j] == 'U') {
				t.uns = true
				j++
			}
			if j < n && (src[j] == 'l' || src[j] == 'L') {
				j++
			}
			out = append(out, t)
			i = j
			continue
		}
		matched := false
		for _, p := range punct3 {
			if i+3 <= n && src[i:i+3] == p {
				out = append(out, tok{k: 'p', s: p})
				i += 3
				matched = true
				break
			}
		}
		if matched {
			continue
		}
		for _, p := range punct2 {
			if i+2 <= n && src[i:i+2] == p {
				out = append(out, tok{k: 'p', s: p})
				i += 2
				matched = true
				break
			}
		}
		if matched {
			continue
		}
		out = append(out, tok{k: 'p', s: src[i : i+1]})
		i++
	}
	out = append(out, tok{})
	return out, ""
}
