//go:build verif

package zzclike

import (
	"math"

	zz "github.com/gogpu/naga/internal/zzverif"
)

// Val is a value or a storage cell: scalars carry a 32-bit pattern, aggregates children.
type Val struct {
	T *Type
	S uint32
	E []*Val
}

func zero(t *Type) *Val {
	v := &Val{T: t}
	switch t.K {
	case 'V':
		for i := 0; i < t.N; i++ {
			v.E = append(v.E, &Val{T: t.Elem})
		}
	case 'M', 'A':
		for i := 0; i < t.N; i++ {
			v.E = append(v.E, zero(t.Elem))
		}
	case 'S':
		for _, f := range t.Fields {
			v.E = append(v.E, zero(f.T))
		}
	}
	return v
}

func (v *Val) clone() *Val {
	c := &Val{T: v.T, S: v.S}
	for _, e := range v.E {
		c.E = append(c.E, e.clone())
	}
	return c
}

func scalarVal(t *Type, s uint32) *Val { return &Val{T: t, S: s} }
func b2u(b bool) uint32 {
	if b {
		return 1
	}
	return 0
}
func boolVal(b bool) *Val { return &Val{T: tBool, S: b2u(b)} }

func f32(s uint32) float32    { return math.Float32frombits(s) }
func bitsOf(f float32) uint32 { return math.Float32bits(f) }

// convert converts scalar v to scalar type t (value conversion, as a constructor does).
func (p *Program) convert(v *Val, t *Type) *Val {
	r := p.convert32(v, t)
	if t.Bits == 8 {
		if t.K == 'i' {
			r.S = uint32(int32(int8(r.S)))
		} else {
			r.S &= 0xFF
		}
	}
	return r
}

func (p *Program) convert32(v *Val, t *Type) *Val {
	if v.T.K == t.K {
		return &Val{T: t, S: v.S}
	}
	switch t.K {
	case 'b':
		if v.T.K == 'f' {
			return boolVal(f32(v.S) != 0)
		}
		return boolVal(v.S != 0)
	case 'i':
		switch v.T.K {
		case 'f':
			f := f32(v.S)
			zz.Assert(f >= -2147483648.0 && f < 2147483648.0, "emitted text converts an out-of-range float to int: undefined in the target language")
			return &Val{T: t, S: uint32(int32(f))}
		}
		return &Val{T: t, S: v.S} // uint / bool(0,1)
	case 'u':
		switch v.T.K {
		case 'f':
			f := f32(v.S)
			zz.Assert(f > -1.0 && f < 4294967296.0, "emitted text converts an out-of-range float to uint: undefined in the target language")
			return &Val{T: t, S: uint32(f)}
		}
		return &Val{T: t, S: v.S}
	case 'f':
		switch v.T.K {
		case 'i':
			return &Val{T: t, S: bitsOf(float32(int32(v.S)))}
		case 'u':
			return &Val{T: t, S: bitsOf(float32(v.S))}
		case 'b':
			if v.S != 0 {
				return &Val{T: t, S: bitsOf(1)}
			}
			return &Val{T: t}
		}
	}
	p.rtFail("unsupported conversion " + v.T.Name + " -> " + t.Name)
	return &Val{T: t}
}

func (p *Program) rtFail(msg string) {
	zz.Fail("reference evaluator: " + msg)
	if p.err == "" {
		p.err = msg
	}
}

// coerce converts v to declared type t: scalars by value conversion, the default-
// constructible marker to a zero value, aggregates of the same shape by copy.
func (p *Program) coerce(v *Val, t *Type) *Val {
	if v.T.K == 'D' {
		return zero(t)
	}
	if t.scalar() && v.T.scalar() {
		return p.convert(v, t)
	}
	if t.K == 'V' && v.T.K == 'V' && t.N == v.T.N {
		r := &Val{T: t}
		for _, e := range v.E {
			r.E = append(r.E, p.convert(e, t.Elem))
		}
		return r
	}
	if t.K == 'V' && v.T.scalar() { // HLSL / MSL implicit splat
		r := &Val{T: t}
		for i := 0; i < t.N; i++ {
			r.E = append(r.E, p.convert(v, t.Elem))
		}
		return r
	}
	if t.K == v.T.K && len(zero(t).E) == len(v.E) {
		r := &Val{T: t}
		zt := zero(t)
		for i, e := range v.E {
			r.E = append(r.E, p.coerce(e, zt.E[i].T))
		}
		return r
	}
	if t.K == 'B' {
		return v
	}
	p.rtFail("cannot convert a value of type kind " + string(v.T.K) + " to " + string(t.K))
	return zero(t)
}

// store writes v into cell dst (deep copy, converting to dst's type).
func (p *Program) store(dst *Val, v *Val) {
	c := p.coerce(v, dst.T)
	dst.S = c.S
	if len(dst.E) == len(c.E) {
		for i := range c.E {
			p.store(dst.E[i], c.E[i])
		}
	} else if len(c.E) > 0 || len(dst.E) > 0 {
		p.rtFail("shape mismatch in assignment")
	}
}

// ---- scalar arithmetic ----

func rank(t *Type) int {
	switch t.K {
	case 'f':
		return 3
	case 'u':
		return 2
	case 'i':
		return 1
	}
	return 0
}

func (p *Program) scalarBin(op string, a, b *Val) *Val {
	switch op {
	case "&&":
		return boolVal(p.convert(a, tBool).S != 0 && p.convert(b, tBool).S != 0)
	case "||":
		return boolVal(p.convert(a, tBool).S != 0 || p.convert(b, tBool).S != 0)
	}
	if a.T.K == 'b' && b.T.K == 'b' {
		x, y := a.S != 0, b.S != 0
		switch op {
		case "==":
			return boolVal(x == y)
		case "!=", "^":
			return boolVal(x != y)
		case "&":
			return boolVal(x && y)
		case "|":
			return boolVal(x || y)
		}
	}
	if op == "<<" || op == ">>" {
		// the result has the (promoted) type of the left operand
		lt := a.T
		if lt.K == 'b' {
			lt = tInt
		}
		x := p.convert(a, lt).S
		sh := p.convert(b, tUint).S
		switch p.d {
		case GLSL:
			zz.Assert(sh < 32, "emitted GLSL shifts by an amount >= 32: the result is undefined (GLSL 4.50 5.9)")
		case MSL, HLSL:
			sh &= 31 // MSL 2.x 6.1 / HLSL: the amount is taken modulo the bit width
		}
		if sh >= 32 {
			return &Val{T: lt}
		}
		if op == "<<" {
			return &Val{T: lt, S: x << sh}
		}
		if lt.K == 'i' {
			return &Val{T: lt, S: uint32(int32(x) >> sh)}
		}
		return &Val{T: lt, S: x >> sh}
	}
	// usual arithmetic conversions
	rt := a.T
	if rank(b.T) > rank(a.T) {
		rt = b.T
	}
	if rt.K == 'b' {
		rt = tInt
	}
	x, y := p.convert(a, rt), p.convert(b, rt)
	switch rt.K {
	case 'f':
		fx, fy := f32(x.S), f32(y.S)
		switch op {
		case "+":
			return &Val{T: rt, S: bitsOf(fx + fy)}
		case "-":
			return &Val{T: rt, S: bitsOf(fx - fy)}
		case "*":
			return &Val{T: rt, S: bitsOf(fx * fy)}
		case "/":
			return &Val{T: rt, S: bitsOf(fx / fy)}
		case "==":
			return boolVal(fx == fy)
		case "!=":
			return boolVal(fx != fy)
		case "<":
			return boolVal(fx < fy)
		case "<=":
			return boolVal(fx <= fy)
		case ">":
			return boolVal(fx > fy)
		case ">=":
			return boolVal(fx >= fy)
		}
	case 'i':
		sx, sy := int32(x.S), int32(y.S)
		switch op {
		case "+":
			if p.d == MSL {
				s := int64(sx) + int64(sy)
				zz.Assert(s >= -2147483648 && s <= 2147483647, "emitted MSL adds two ints with overflow: undefined behaviour in C++14")
			}
			return &Val{T: rt, S: x.S + y.S}
		case "-":
			if p.d == MSL {
				s := int64(sx) - int64(sy)
				zz.Assert(s >= -2147483648 && s <= 2147483647, "emitted MSL subtracts two ints with overflow: undefined behaviour in C++14")
			}
			return &Val{T: rt, S: x.S - y.S}
		case "*":
			if p.d == MSL {
				s := int64(sx) * int64(sy)
				zz.Assert(s >= -2147483648 && s <= 2147483647, "emitted MSL multiplies two ints with overflow: undefined behaviour in C++14")
			}
			return &Val{T: rt, S: x.S * y.S}
		case "/", "%":
			zz.Assert(sy != 0, "emitted text divides an int by zero: undefined in the target language")
			zz.Assert(!(sx == -2147483648 && sy == -1), "emitted text divides INT_MIN by -1: undefined in the target language")
			if sy == 0 || (sx == -2147483648 && sy == -1) {
				return &Val{T: rt}
			}
			if op == "/" {
				return &Val{T: rt, S: uint32(sx / sy)}
			}
			return &Val{T: rt, S: uint32(sx % sy)}
		case "&":
			return &Val{T: rt, S: x.S & y.S}
		case "|":
			return &Val{T: rt, S: x.S | y.S}
		case "^":
			return &Val{T: rt, S: x.S ^ y.S}
		case "==":
			return boolVal(sx == sy)
		case "!=":
			return boolVal(sx != sy)
		case "<":
			return boolVal(sx < sy)
		case "<=":
			return boolVal(sx <= sy)
		case ">":
			return boolVal(sx > sy)
		case ">=":
			return boolVal(sx >= sy)
		}
	case 'u':
		ux, uy := x.S, y.S
		switch op {
		case "+":
			return &Val{T: rt, S: ux + uy}
		case "-":
			return &Val{T: rt, S: ux - uy}
		case "*":
			return &Val{T: rt, S: ux * uy}
		case "/", "%":
			zz.Assert(uy != 0, "emitted text divides a uint by zero: undefined in the target language")
			if uy == 0 {
				return &Val{T: rt}
			}
			if op == "/" {
				return &Val{T: rt, S: ux / uy}
			}
			return &Val{T: rt, S: ux % uy}
		case "&":
			return &Val{T: rt, S: ux & uy}
		case "|":
			return &Val{T: rt, S: ux | uy}
		case "^":
			return &Val{T: rt, S: ux ^ uy}
		case "==":
			return boolVal(ux == uy)
		case "!=":
			return boolVal(ux != uy)
		case "<":
			return boolVal(ux < uy)
		case "<=":
			return boolVal(ux <= uy)
		case ">":
			return boolVal(ux > uy)
		case ">=":
			return boolVal(ux >= uy)
		}
	}
	p.rtFail("unsupported operator " + op + " on " + rt.Name)
	return &Val{T: rt}
}

func isCompare(op string) bool {
	switch op {
	case "==", "!=", "<", "<=", ">", ">=":
		return true
	}
	return false
}

// binary applies op component-wise with scalar broadcasting.
func (p *Program) binary(op string, a, b *Val) *Val {
	if a.T.scalar() && b.T.scalar() {
		return p.scalarBin(op, a, b)
	}
	if a.T.K == 'V' || b.T.K == 'V' {
		n := 0
		if a.T.K == 'V' {
			n = a.T.N
		}
		if b.T.K == 'V' {
			if n != 0 && n != b.T.N {
				p.rtFail("vector size mismatch in " + op)
				return a
			}
			n = b.T.N
		}
		if (a.T.K != 'V' && !a.T.scalar()) || (b.T.K != 'V' && !b.T.scalar()) {
			p.rtFail("unsupported operand shapes for " + op)
			return a
		}
		var comps []*Val
		for i := 0; i < n; i++ {
			x, y := a, b
			if a.T.K == 'V' {
				x = a.E[i]
			}
			if b.T.K == 'V' {
				y = b.E[i]
			}
			comps = append(comps, p.scalarBin(op, x, y))
		}
		if p.d == GLSL && (op == "==" || op == "!=") {
			// GLSL: == and != on vectors yield a single bool
			all := true
			for _, c := range comps {
				if c.S == 0 {
					all = false
				}
			}
			if op == "!=" {
				anyNe := false
				for _, c := range comps {
					if c.S != 0 {
						anyNe = true
					}
				}
				return boolVal(anyNe)
			}
			return boolVal(all)
		}
		return &Val{T: vecOf(comps[0].T, n), E: comps}
	}
	p.rtFail("unsupported operand types for " + op)
	return a
}

func (p *Program) unary(op string, a *Val) *Val {
	if a.T.K == 'V' {
		r := &Val{T: a.T}
		for _, e := range a.E {
			r.E = append(r.E, p.unary(op, e))
		}
		if op == "!" {
			r.T = vecOf(tBool, a.T.N)
		}
		return r
	}
	switch op {
	case "+":
		return a
	case "!":
		return boolVal(p.convert(a, tBool).S == 0)
	case "~":
		if a.T.K == 'b' {
			a = p.convert(a, tInt)
		}
		return &Val{T: a.T, S: ^a.S}
	case "-":
		switch a.T.K {
		case 'f':
			return &Val{T: a.T, S: a.S ^ 0x80000000}
		case 'i':
			if p.d == MSL {
				zz.Assert(a.S != 0x80000000, "emitted MSL negates INT_MIN: undefined behaviour in C++14")
			}
			return &Val{T: a.T, S: -a.S}
		case 'u':
			return &Val{T: a.T, S: -a.S}
		case 'b':
			return &Val{T: tInt, S: -a.S}
		}
	}
	p.rtFail("unsupported unary operator " + op)
	return a
}

// ---- environment ----

func (p *Program) push() { p.scopes = append(p.scopes, map[string]*Val{}) }
func (p *Program) pop()  { p.scopes = p.scopes[:len(p.scopes)-1] }
func (p *Program) declare(name string, v *Val) {
	p.scopes[len(p.scopes)-1][name] = v
}
func (p *Program) lookup(name string) *Val {
	for i := len(p.scopes) - 1; i >= 0; i-- {
		if v, ok := p.scopes[i][name]; ok {
			return v
		}
	}
	if v, ok := p.genv[name]; ok {
		return v
	}
	return nil
}

func swizzleIndex(c byte) int {
	switch c {
	case 'x', 'r', 's':
		return 0
	case 'y', 'g', 't':
		return 1
	case 'z', 'b', 'p':
		return 2
	case 'w', 'a', 'q':
		return 3
	}
	return -1
}

// lvalue resolves e to storage cells: one cell, or (for multi-component swizzles) several.
func (p *Program) lvalue(e *node) []*Val {
	switch e.k {
	case "id":
		v := p.lookup(e.s)
		if v == nil {
			p.rtFail("emitted text uses the undeclared name '" + e.s + "'")
			return []*Val{zero(tInt)}
		}
		return []*Val{v}
	case "member":
		base := p.lvalue(e.kids[0])
		if len(base) != 1 {
			p.rtFail("member of a swizzle")
			return base
		}
		b := base[0]
		if b.T.K == 'S' {
			for i, f := range b.T.Fields {
				if f.Name == e.s {
					return []*Val{b.E[i]}
				}
			}
			p.rtFail("emitted text names the missing struct member '" + e.s + "'")
			return []*Val{zero(tInt)}
		}
		if b.T.K == 'V' {
			var cells []*Val
			for i := 0; i < len(e.s); i++ {
				ix := swizzleIndex(e.s[i])
				if ix < 0 || ix >= b.T.N {
					p.rtFail("bad swizzle ." + e.s)
					return []*Val{zero(tInt)}
				}
				cells = append(cells, b.E[ix])
			}
			return cells
		}
		if b.T.scalar() && len(e.s) == 1 && swizzleIndex(e.s[0]) == 0 {
			return []*Val{b}
		}
		if b.T.scalar() && len(e.s) >= 2 && len(e.s) <= 4 { // HLSL scalar splat: (1u).xxxx
			all0 := true
			for i := 0; i < len(e.s); i++ {
				if swizzleIndex(e.s[i]) != 0 {
					all0 = false
				}
			}
			if all0 {
				cells := make([]*Val, len(e.s))
				for i := range cells {
					cells[i] = b
				}
				return cells
			}
		}
		p.rtFail("member access ." + e.s + " on a value that has no members")
		return []*Val{zero(tInt)}
	case "index":
		base := p.lvalue(e.kids[0])
		if len(base) != 1 {
			p.rtFail("index of a swizzle")
			return base
		}
		b := base[0]
		ix := p.convert(p.scalarOf(p.eval(e.kids[1])), tUint).S
		if b.T.K != 'V' && b.T.K != 'A' && b.T.K != 'M' {
			p.rtFail("indexing a value that is not an array, vector or matrix")
			return []*Val{zero(tInt)}
		}
		zz.Assert(ix < uint32(len(b.E)), "emitted text indexes out of bounds: undefined in the target language")
		if ix >= uint32(len(b.E)) {
			return []*Val{zero(b.T.Elem)}
		}
		return []*Val{b.E[ix]}
	}
	// not an lvalue: a temporary
	return []*Val{p.eval(e)}
}

func (p *Program) scalarOf(v *Val) *Val {
	if !v.T.scalar() {
		p.rtFail("scalar expected")
		return zero(tInt)
	}
	return v
}

// rvalue of cells: a single cell is copied; several cells form a vector.
func cellsValue(cells []*Val) *Val {
	if len(cells) == 1 {
		return cells[0].clone()
	}
	r := &Val{T: vecOf(cells[0].T, len(cells))}
	for _, c := range cells {
		r.E = append(r.E, c.clone())
	}
	return r
}

func (p *Program) assignCells(cells []*Val, v *Val) {
	if len(cells) == 1 {
		p.store(cells[0], v)
		return
	}
	if v.T.K != 'V' || len(v.E) != len(cells) {
		if v.T.scalar() {
			for _, c := range cells {
				p.store(c, v)
			}
			return
		}
		p.rtFail("swizzle assignment shape mismatch")
		return
	}
	tmp := v.clone()
	for i, c := range cells {
		p.store(c, tmp.E[i])
	}
}

// flatten appends the scalar components of v (declaration order).
func flatten(v *Val, out []*Val) []*Val {
	if v.T.scalar() {
		return append(out, v)
	}
	for _, e := range v.E {
		out = flatten(e, out)
	}
	return out
}

// construct builds a value of type t from constructor arguments.
func (p *Program) construct(t *Type, args []*Val) *Val {
	switch t.K {
	case 'D':
		return &Val{T: tDef}
	case 'b', 'i', 'u', 'f':
		if len(args) == 0 {
			return zero(t)
		}
		a := args[0]
		if a.T.K == 'V' {
			a = a.E[0]
		}
		if a.T.K == 'D' {
			return zero(t)
		}
		return p.convert(p.scalarOf(a), t)
	case 'V':
		if len(args) == 0 {
			return zero(t)
		}
		var comps []*Val
		for _, a := range args {
			comps = flatten(a, comps)
		}
		r := &Val{T: t}
		if len(comps) == 1 {
			for i := 0; i < t.N; i++ {
				r.E = append(r.E, p.convert(comps[0], t.Elem))
			}
			return r
		}
		if len(comps) < t.N {
			p.rtFail("too few components in vector constructor")
			return zero(t)
		}
		for i := 0; i < t.N; i++ {
			r.E = append(r.E, p.convert(comps[i], t.Elem))
		}
		return r
	case 'M':
		if len(args) == 0 {
			return zero(t)
		}
		var comps []*Val
		for _, a := range args {
			comps = flatten(a, comps)
		}
		r := zero(t)
		if len(comps) != t.N*t.Rows {
			p.rtFail("matrix constructor with an unsupported argument count")
			return r
		}
		for c := 0; c < t.N; c++ {
			for k := 0; k < t.Rows; k++ {
				r.E[c].E[k] = p.convert(comps[c*t.Rows+k], tFloat)
			}
		}
		return r
	case 'A', 'S':
		r := zero(t)
		if len(args) == 0 {
			return r
		}
		// brace elision: a struct with a single array member (naga's MSL array wrappers)
		// initialised with the flat list of the array's elements
		if t.K == 'S' && len(t.Fields) == 1 && t.Fields[0].T.K == 'A' && len(args) > 1 {
			r.E[0] = p.construct(t.Fields[0].T, args)
			return r
		}
		if len(args) == 1 && args[0].T.K == t.K && len(args[0].E) == len(r.E) {
			return p.coerce(args[0], t)
		}
		if len(args) > len(r.E) {
			p.rtFail("too many initialisers")
			return r
		}
		for i, a := range args {
			r.E[i] = p.coerce(a, r.E[i].T)
		}
		return r
	}
	p.rtFail("unsupported constructor")
	return zero(t)
}

// initValue evaluates an initialiser (expression or brace list) for type t.
func (p *Program) initValue(t *Type, e *node) *Val {
	if e.k == "init" {
		r := zero(t)
		if t.scalar() {
			if len(e.kids) == 1 {
				return p.coerce(p.initValue(t, e.kids[0]), t)
			}
			return r
		}
		if t.K == 'S' && len(t.Fields) == 1 && t.Fields[0].T.K == 'A' && len(e.kids) > 1 {
			r.E[0] = p.initValue(t.Fields[0].T, e) // brace elision
			return r
		}
		if len(e.kids) > len(r.E) {
			p.rtFail("too many initialisers in brace list")
			return r
		}
		for i, k := range e.kids {
			r.E[i] = p.initValue(r.E[i].T, k)
		}
		return r
	}
	return p.coerce(p.eval(e), t)
}

func (p *Program) evalArgs(ns []*node) []*Val {
	var vs []*Val
	for _, n := range ns {
		vs = append(vs, p.eval(n))
	}
	return vs
}

func (p *Program) eval(e *node) *Val {
	if p.err != "" {
		return zero(tInt)
	}
	switch e.k {
	case "lit":
		switch e.tk.k {
		case 'n':
			if e.tk.uns {
				return scalarVal(tUint, e.tk.u)
			}
			if e.tk.u > 0x7FFFFFFF && p.d != HLSL {
				// decimal literal without suffix that does not fit int
				p.rtFail("integer literal " + e.tk.s + " does not fit int")
			}
			return scalarVal(tInt, e.tk.u)
		case 'f':
			return scalarVal(tFloat, bitsOf(e.tk.f))
		case 'i':
			return boolVal(e.tk.s == "true")
		}
	case "id", "member", "index":
		return cellsValue(p.lvalue(e))
	case "un":
		return p.unary(e.s, p.eval(e.kids[0]))
	case "pre", "post":
		cells := p.lvalue(e.kids[0])
		old := cellsValue(cells)
		op := "+"
		if e.s == "--" {
			op = "-"
		}
		one := scalarVal(tInt, 1)
		nv := p.binary(op, old, one)
		p.assignCells(cells, nv)
		if e.k == "pre" {
			return nv
		}
		return old
	case "bin":
		if e.s == "&&" || e.s == "||" {
			a := p.eval(e.kids[0])
			if a.T.scalar() {
				// C short-circuit evaluation (HLSL evaluates both sides, which differs only
				// when the right side has effects or undefined behaviour; it is evaluated
				// below for HLSL so that such behaviour is reported)
				av := p.convert(a, tBool).S != 0
				if p.d != HLSL {
					if e.s == "&&" && !av {
						return boolVal(false)
					}
					if e.s == "||" && av {
						return boolVal(true)
					}
				}
				b := p.eval(e.kids[1])
				return p.binary(e.s, a, b)
			}
			return p.binary(e.s, a, p.eval(e.kids[1]))
		}
		if x, y, ok := remPattern(e); ok {
			// x - (x / y) * y: by C/C++ [expr.mul] (a/b)*b + a%b == a whenever a/b is
			// representable, so this is x % y and neither the product nor the difference can
			// overflow (the solvers cannot establish that from the bit-level product)
			return p.binary("%", p.eval(x), p.eval(y))
		}
		a := p.eval(e.kids[0])
		b := p.eval(e.kids[1])
		return p.binary(e.s, a, b)
	case "assign":
		cells := p.lvalue(e.kids[0])
		if e.kids[1].k == "init" && e.s == "=" && len(cells) == 1 { // x = {}; / x = {a, b};
			p.store(cells[0], p.initValue(cells[0].T, e.kids[1]))
			return cellsValue(cells)
		}
		rhs := p.eval(e.kids[1])
		if e.s != "=" {
			rhs = p.binary(e.s[:len(e.s)-1], cellsValue(cells), rhs)
		}
		p.assignCells(cells, rhs)
		return cellsValue(cells)
	case "cond":
		c := p.eval(e.kids[0])
		if c.T.K == 'V' {
			a, b := p.eval(e.kids[1]), p.eval(e.kids[2])
			return p.selectVec(b, a, c)
		}
		if p.convert(p.scalarOf(c), tBool).S != 0 {
			v := p.eval(e.kids[1])
			if v.T.K == 'D' {
				return zero(p.staticType(e.kids[2]))
			}
			return v
		}
		v := p.eval(e.kids[2])
		if v.T.K == 'D' {
			return zero(p.staticType(e.kids[1]))
		}
		return v
	case "cast":
		v := p.eval(e.kids[0])
		if !e.t.scalar() && v.T.scalar() && e.t.K != 'V' {
			return zero(e.t) // (S)0
		}
		return p.coerce(v, e.t)
	case "bits":
		return p.reinterpret(p.eval(e.kids[0]), e.t)
	case "ctor":
		return p.construct(e.t, p.evalArgs(e.kids))
	case "tinit":
		return p.initValue(e.t, e.kids[0])
	case "init":
		p.rtFail("brace initialiser without a target type")
		return zero(tInt)
	case "call":
		return p.call(e)
	case "method":
		return p.method(e)
	}
	p.rtFail("unsupported expression kind " + e.k)
	return zero(tInt)
}

// sameSimple: both are the same plain name (no effects, no aliasing through calls).
func sameSimple(a, b *node) bool {
	return a.k == "id" && b.k == "id" && a.s == b.s
}

// remPattern recognises x - (x / y) * y and x - y * (x / y) over plain names.
func remPattern(e *node) (x, y *node, ok bool) {
	if e.k != "bin" || e.s != "-" {
		return nil, nil, false
	}
	m := e.kids[1]
	if m.k != "bin" || m.s != "*" {
		return nil, nil, false
	}
	for k := 0; k < 2; k++ {
		q, d := m.kids[k], m.kids[1-k]
		if q.k == "bin" && q.s == "/" && sameSimple(q.kids[0], e.kids[0]) && sameSimple(q.kids[1], d) {
			return e.kids[0], d, true
		}
	}
	return nil, nil, false
}

// staticType gives the type of an lvalue-like expression without evaluating effects (used
// only to type the DefaultConstructible arm of a conditional).
func (p *Program) staticType(e *node) *Type {
	switch e.k {
	case "id", "member", "index":
		save := p.steps
		// indexing may be out of bounds on the path not taken: look at element types only
		if e.k == "index" {
			bt := p.staticType(e.kids[0])
			p.steps = save
			if bt.Elem != nil {
				return bt.Elem
			}
			return tInt
		}
		if e.k == "member" {
			bt := p.staticType(e.kids[0])
			if bt.K == 'S' {
				for _, f := range bt.Fields {
					if f.Name == e.s {
						return f.T
					}
				}
			}
			if bt.K == 'V' {
				if len(e.s) == 1 {
					return bt.Elem
				}
				return vecOf(bt.Elem, len(e.s))
			}
			return tInt
		}
		if v := p.lookup(e.s); v != nil {
			return v.T
		}
	case "ctor", "cast", "bits":
		return e.t
	case "lit":
		return p.eval(e).T
	}
	return tInt
}

func (p *Program) reinterpret(v *Val, t *Type) *Val {
	// as_type between a 32-bit scalar and a vector of four 8-bit components (little endian)
	if v.T.K == 'V' && len(v.E) == 4 && v.T.Elem.Bits == 8 && t.scalar() && t.Bits == 0 {
		return &Val{T: t, S: v.E[0].S&0xFF | (v.E[1].S&0xFF)<<8 | (v.E[2].S&0xFF)<<16 | (v.E[3].S&0xFF)<<24}
	}
	if v.T.scalar() && v.T.Bits == 0 && t.K == 'V' && t.N == 4 && t.Elem.Bits == 8 {
		r := &Val{T: t}
		for i := uint(0); i < 4; i++ {
			r.E = append(r.E, p.convert(&Val{T: tUint, S: v.S >> (8 * i)}, t.Elem))
		}
		return r
	}
	if v.T.K == 'V' {
		r := &Val{T: t}
		et := t
		if t.K == 'V' {
			et = t.Elem
		}
		for _, e := range v.E {
			r.E = append(r.E, &Val{T: et, S: e.S})
		}
		if t.K != 'V' {
			r.T = vecOf(et, len(v.E))
		}
		return r
	}
	et := t
	if t.K == 'V' {
		et = t.Elem
	}
	return &Val{T: et, S: v.S}
}

func (p *Program) selectVec(f, t, c *Val) *Val {
	// component-wise c ? t : f
	if c.T.K != 'V' {
		if p.convert(p.scalarOf(c), tBool).S != 0 {
			return t
		}
		return f
	}
	r := &Val{T: t.T}
	if t.T.K != 'V' {
		r.T = vecOf(t.T, c.T.N)
	}
	for i := 0; i < c.T.N; i++ {
		tv, fv := t, f
		if t.T.K == 'V' {
			tv = t.E[i]
		}
		if f.T.K == 'V' {
			fv = f.E[i]
		}
		if c.E[i].S != 0 {
			r.E = append(r.E, tv.clone())
		} else {
			r.E = append(r.E, p.coerce(fv, tv.T))
		}
	}
	return r
}
