//go:build verif

package registry

import (
	zz "github.com/gogpu/naga/internal/zzverif"
	"github.com/gogpu/naga/ir"
)

func zzScalar(n string) ir.ScalarType {
	return ir.ScalarType{Kind: ir.ScalarKind(zz.U8(n + "kind")), Width: zz.U8(n + "width")}
}

func zzSameScalar(a, b ir.ScalarType) bool { return a.Kind == b.Kind && a.Width == b.Width }

// zzMakeType builds a type of the given variant with symbolic fields (prefix n) and returns a
// function comparing it structurally with another type of the same variant.
func zzMakeType(variant int, n string, small bool) ir.TypeInner {
	u32 := func(name string) uint32 {
		v := zz.U32(n + name)
		if small {
			zz.Assume(v < 16)
		}
		return v
	}
	switch variant {
	case 0:
		return zzScalar(n)
	case 1:
		return ir.VectorType{Size: ir.VectorSize(zz.U8(n + "size")), Scalar: zzScalar(n)}
	case 2:
		return ir.MatrixType{Columns: ir.VectorSize(zz.U8(n + "cols")), Rows: ir.VectorSize(zz.U8(n + "rows")), Scalar: zzScalar(n)}
	case 3:
		sz := u32("count")
		base := ir.TypeHandle(u32("base"))
		if small {
			// the classic separator collision needs bases such as 1 and 11
			base = ir.TypeHandle([]uint32{1, 11, 2, 12}[zz.Choice(n+"baseIdx", 4)])
		}
		return ir.ArrayType{Base: base, Size: ir.ArraySize{Constant: &sz}, Stride: u32("stride")}
	case 4:
		return ir.ArrayType{Base: ir.TypeHandle(u32("base")), Stride: u32("stride")} // runtime-sized
	case 5:
		return ir.PointerType{Base: ir.TypeHandle(u32("base")), Space: ir.AddressSpace(zz.U8(n + "space"))}
	case 6:
		return ir.AtomicType{Scalar: zzScalar(n)}
	case 7:
		return ir.StructType{Span: u32("span"), Members: []ir.StructMember{
			{Name: "a", Type: ir.TypeHandle(u32("t0")), Offset: u32("o0")},
			{Name: "b", Type: ir.TypeHandle(u32("t1")), Offset: u32("o1")},
		}}
	case 8:
		sz := u32("count")
		return ir.BindingArrayType{Base: ir.TypeHandle(u32("base")), Size: &sz}
	default:
		return ir.SamplerType{Comparison: zz.Bool(n + "cmp")}
	}
}

func zzStructEq(a, b ir.TypeInner) bool {
	switch x := a.(type) {
	case ir.ScalarType:
		return zzSameScalar(x, b.(ir.ScalarType))
	case ir.VectorType:
		y := b.(ir.VectorType)
		return x.Size == y.Size && zzSameScalar(x.Scalar, y.Scalar)
	case ir.MatrixType:
		y := b.(ir.MatrixType)
		return x.Columns == y.Columns && x.Rows == y.Rows && zzSameScalar(x.Scalar, y.Scalar)
	case ir.ArrayType:
		y := b.(ir.ArrayType)
		if (x.Size.Constant == nil) != (y.Size.Constant == nil) {
			return false
		}
		if x.Size.Constant != nil && *x.Size.Constant != *y.Size.Constant {
			return false
		}
		return x.Base == y.Base && x.Stride == y.Stride
	case ir.PointerType:
		y := b.(ir.PointerType)
		return x.Base == y.Base && x.Space == y.Space
	case ir.AtomicType:
		return zzSameScalar(x.Scalar, b.(ir.AtomicType).Scalar)
	case ir.StructType:
		y := b.(ir.StructType)
		if x.Span != y.Span || len(x.Members) != len(y.Members) {
			return false
		}
		for i := range x.Members {
			if x.Members[i].Name != y.Members[i].Name || x.Members[i].Type != y.Members[i].Type || x.Members[i].Offset != y.Members[i].Offset {
				return false
			}
		}
		return true
	case ir.BindingArrayType:
		y := b.(ir.BindingArrayType)
		return x.Base == y.Base && *x.Size == *y.Size
	case ir.SamplerType:
		return x.Comparison == b.(ir.SamplerType).Comparison
	}
	return false
}

// Deduplication key is injective and total: two anonymous types of one variant receive the
// same handle iff they are structurally equal, for every field value.
func ZZ_C09_registry_dedup() {
	v := zz.Choice("variant", 10)
	t1, t2 := zzMakeType(v, "x_", false), zzMakeType(v, "y_", false)
	r := NewTypeRegistry()
	h1 := r.GetOrCreate("", t1)
	h2 := r.GetOrCreate("", t2)
	zz.Assert((h1 == h2) == zzStructEq(t1, t2), "type deduplication disagrees with structural equality")
	zz.Assert(r.Count() >= 1 && r.Count() <= 2, "registry size")
	zz.Reach("end")
}

// Same with small field values (fields < 16, array bases in {1,2,11,12}): concrete witnesses for
// key collisions such as a missing separator ("1"+"12" = "11"+"2").
func ZZ_C09_registry_dedup_small() {
	v := []int{3, 7, 8}[zz.Choice("variant", 3)]
	zz.AtomConcretize(true)
	t1, t2 := zzMakeType(v, "x_", true), zzMakeType(v, "y_", true)
	r := NewTypeRegistry()
	h1 := r.GetOrCreate("", t1)
	h2 := r.GetOrCreate("", t2)
	zz.Assert((h1 == h2) == zzStructEq(t1, t2), "type deduplication disagrees with structural equality")
	zz.Reach("end")
}

// Named and anonymous types never share a handle; equal names with equal structure do.
func ZZ_C09_registry_named() {
	t1, t2 := zzMakeType(3, "x_", false), zzMakeType(3, "y_", false)
	n1, n2 := zz.Str("n1", 1), zz.Str("n2", 1)
	zz.Assume(n1[0] >= 'a' && n1[0] <= 'z' && n2[0] >= 'a' && n2[0] <= 'z')
	r := NewTypeRegistry()
	ha := r.GetOrCreate("", t1)
	h1 := r.GetOrCreate(n1, t1)
	h2 := r.GetOrCreate(n2, t2)
	zz.Assert(ha != h1, "a named type was merged with the anonymous type of the same structure")
	zz.Assert((h1 == h2) == (n1 == n2 && zzStructEq(t1, t2)), "named type deduplication disagrees with (name, structure) equality")
	zz.Reach("end")
}

// Digit boundaries between adjacent numbers of a key: pairs of field values whose decimal
// renderings concatenate to the same digits ("1"+"23" = "12"+"3") must still be told apart
// (concrete table; a separator dropped between two numeric fields shows here without any
// search).
func ZZ_C09_registry_digit_boundaries() {
	pairs := [][4]uint32{{1, 23, 12, 3}, {1, 12, 11, 2}, {2, 34, 23, 4}, {12, 345, 123, 45}, {1, 10, 11, 0}, {21, 1, 2, 11}}
	p := pairs[zz.Choice("pair", len(pairs))]
	shape := zz.Choice("fields", 4)
	mk := func(a, b uint32) ir.TypeInner {
		switch shape {
		case 0: // array: base | size
			return ir.ArrayType{Base: ir.TypeHandle(a), Size: ir.ArraySize{Constant: &b}, Stride: 4}
		case 1: // array: size | stride
			return ir.ArrayType{Base: 1, Size: ir.ArraySize{Constant: &a}, Stride: b}
		case 2: // binding array: base | size
			return ir.BindingArrayType{Base: ir.TypeHandle(a), Size: &b}
		default: // array: base | stride with a dynamic size
			return ir.ArrayType{Base: ir.TypeHandle(a), Stride: b}
		}
	}
	r := NewTypeRegistry()
	h1 := r.GetOrCreate("", mk(p[0], p[1]))
	h2 := r.GetOrCreate("", mk(p[2], p[3]))
	zz.Assert(h1 != h2, "two structurally different types share a deduplication key (digit boundary between two numeric fields)")
	zz.Reach("end")
}
