//go:build verif

// Package zzverif is the harness API of the /verif symbolic-execution engine.
// Inside the engine every function here is intercepted (the bodies below are
// never interpreted). Compiled natively, the same functions read a replay
// vector (a solver model), so that a harness can be re-run as an ordinary Go
// test against the real build.
package zzverif

import (
	"encoding/json"
	"fmt"
	"math"
	"os"
	"reflect"
	"sort"
	"strings"
	"unsafe"
)

// Replay holds the values of the named inputs for a native run.
var Replay = map[string]uint64{}

// Failures collects assertion failures of a native run.
var Failures []string

// Reached collects Reach labels of a native run.
var Reached = map[string]bool{}

type replayFile struct {
	Vectors []struct {
		Values map[string]uint64 `json:"values"`
	} `json:"vectors"`
}

// LoadVectors reads replay vectors from a JSON file.
func LoadVectors(path string) ([]map[string]uint64, error) {
	b, err := os.ReadFile(path)
	if err != nil {
		return nil, err
	}
	var rf replayFile
	if err := json.Unmarshal(b, &rf); err != nil {
		return nil, err
	}
	var out []map[string]uint64
	for _, v := range rf.Vectors {
		out = append(out, v.Values)
	}
	return out, nil
}

// SetReplay installs one vector and clears per-run state.
func SetReplay(v map[string]uint64) {
	Replay = v
	Failures = nil
	Reached = map[string]bool{}
	frozenRoots, frozenDumps = nil, nil
}

func get(name string) uint64 { return Replay[name] }

func Bool(name string) bool   { return get(name)&1 == 1 }
func U8(name string) uint8    { return uint8(get(name)) }
func U16(name string) uint16  { return uint16(get(name)) }
func U32(name string) uint32  { return uint32(get(name)) }
func U64(name string) uint64  { return get(name) }
func I8(name string) int8     { return int8(get(name)) }
func I16(name string) int16   { return int16(get(name)) }
func I32(name string) int32   { return int32(get(name)) }
func I64(name string) int64   { return int64(get(name)) }
func Int(name string) int     { return int(get(name)) }
func Uint(name string) uint   { return uint(get(name)) }
func F32(name string) float32 { return math.Float32frombits(uint32(get(name))) }
func F64(name string) float64 { return math.Float64frombits(get(name)) }

// Choice returns a value in [0,n) that the engine enumerates exhaustively.
func Choice(name string, n int) int {
	v := int(get(name))
	if v < 0 || v >= n {
		panic(AssumeFailed{"Choice out of range: " + name})
	}
	return v
}

// Bytes returns n symbolic bytes named name[0..n-1].
func Bytes(name string, n int) []byte {
	b := make([]byte, n)
	for i := range b {
		b[i] = byte(get(fmt.Sprintf("%s[%d]", name, i)))
	}
	return b
}

// Str returns a string of n symbolic bytes.
func Str(name string, n int) string { return string(Bytes(name, n)) }

// AssumeFailed is the panic value of a violated assumption in a native run.
type AssumeFailed struct{ Msg string }

// Assume restricts the inputs; place it before the code it constrains.
func Assume(c bool) {
	if !c {
		panic(AssumeFailed{"assumption violated"})
	}
}

// Assert states the property.
func Assert(c bool, msg string) {
	if !c {
		Failures = append(Failures, msg)
	}
}

// Fail is Assert(false, msg).
func Fail(msg string) { Failures = append(Failures, msg) }

// Reach marks a program point that must be reachable (vacuity witness).
func Reach(label string) { Reached[label] = true }

// Note records a sample datum for the evidence file.
func Note(key, val string) {}

// Cell names the discriminating cell of the current case (known-findings key).
func Cell(c string) {}

// Unwind sets the loop unwinding bound for the rest of the path.
func Unwind(n int) {}

// Bounded declares that the code executed from here on must finish within `steps` interpreted
// SSA instructions and `depth` additional nested calls; exceeding either on a feasible path is
// a violation with message msg (non-termination / stack exhaustion within the bound).
// Bounded(0, 0, "") switches the bound off. Natively a no-op: a replay of a violating input
// hangs or overflows the stack, which the replay driver reports as reproduced.
func Bounded(steps int, depth int, msg string) {}

// Native reports whether the harness is running natively (replay).
func Native() bool { return true }

// Thorough reports the tier.
func Thorough() bool { return os.Getenv("VERIF_TIER") == "thorough" }

// IsSymbolic reports whether x is symbolic (always false natively).
func IsSymbolic(x any) bool { return false }

// Freeze marks all memory reachable from x as read-only for the write barrier.
// Natively it records a deep dump of x (following pointers) for later comparison.
func Freeze(x any) {
	frozenRoots = append(frozenRoots, x)
	frozenDumps = append(frozenDumps, deepDump(x))
}

// FrozenWrites is the number of stores into frozen memory so far (natively: the number of
// frozen roots whose deep dump changed).
func FrozenWrites() int {
	n := 0
	for i, r := range frozenRoots {
		if deepDump(r) != frozenDumps[i] {
			n++
		}
	}
	return n
}

var frozenRoots []any
var frozenDumps []string

func deepDump(x any) string {
	seen := map[uintptr]int{}
	var walk func(v reflect.Value, depth int) string
	walk = func(v reflect.Value, depth int) string {
		if depth > 64 {
			return "<deep>"
		}
		switch v.Kind() {
		case reflect.Ptr:
			if v.IsNil() {
				return "nil"
			}
			p := v.Pointer()
			if id, ok := seen[p]; ok {
				return fmt.Sprintf("&#%d", id)
			}
			seen[p] = len(seen)
			return "&" + walk(v.Elem(), depth+1)
		case reflect.Interface:
			if v.IsNil() {
				return "nil"
			}
			return v.Elem().Type().String() + ":" + walk(v.Elem(), depth+1)
		case reflect.Struct:
			var parts []string
			for i := 0; i < v.NumField(); i++ {
				parts = append(parts, walk(v.Field(i), depth+1))
			}
			return "{" + strings.Join(parts, ",") + "}"
		case reflect.Slice, reflect.Array:
			if v.Kind() == reflect.Slice && v.IsNil() {
				return "nil[]"
			}
			var parts []string
			for i := 0; i < v.Len(); i++ {
				parts = append(parts, walk(v.Index(i), depth+1))
			}
			return "[" + strings.Join(parts, ",") + "]"
		case reflect.Map:
			var parts []string
			for _, k := range v.MapKeys() {
				parts = append(parts, walk(k, depth+1)+"=>"+walk(v.MapIndex(k), depth+1))
			}
			sort.Strings(parts)
			return "map[" + strings.Join(parts, ";") + "]"
		case reflect.Bool:
			return fmt.Sprint(v.Bool())
		case reflect.Int, reflect.Int8, reflect.Int16, reflect.Int32, reflect.Int64:
			return fmt.Sprint(v.Int())
		case reflect.Uint, reflect.Uint8, reflect.Uint16, reflect.Uint32, reflect.Uint64, reflect.Uintptr:
			return fmt.Sprint(v.Uint())
		case reflect.Float32, reflect.Float64:
			return fmt.Sprint(math.Float64bits(v.Float()))
		case reflect.String:
			return fmt.Sprintf("%q", v.String())
		}
		return "<" + v.Kind().String() + ">"
	}
	return walk(reflect.ValueOf(x), 0)
}

// MapOrder switches nondeterministic map iteration order on or off.
func MapOrder(on bool) {}

// PanicOK declares that a Go panic on this path is not a violation.
func PanicOK(ok bool) {}

// UF64 is an uninterpreted float function (natively: identity marker).
func UF64(name string, x float64) float64 { return x }

// Same is structural identity (floats bit-wise up to NaN).
func Same(a, b any) bool {
	return fmt.Sprintf("%#v", a) == fmt.Sprintf("%#v", b)
}

// UFU32 is an uninterpreted function of its arguments (engine only; natively it panics:
// guard uses with Native()).
func UFU32(name string, args ...uint32) uint32 { panic("zzverif.UFU32 called natively") }

// UFU64 is an uninterpreted function of its arguments (engine only).
func UFU64(name string, args ...uint64) uint64 { panic("zzverif.UFU64 called natively") }

// Override replaces the named function (ssa String() form, module path optional) by fn
// for the rest of the path. Engine only; natively a no-op (guard with Native()).
func Override(name string, fn any) {}

// Flag is a structural boolean: the engine enumerates both values on separate paths
// (use Bool for data that should stay symbolic inside one path).
func Flag(name string) bool { return Choice(name, 2) == 1 }

// AtomConcretize lets the engine enumerate the values of symbolic numbers that were rendered
// into a string next to other digits (ambiguous boundary) instead of giving up; use only with
// small value ranges.
func AtomConcretize(on bool) {}

// Havoc fills *p (p must be a non-nil pointer) with arbitrary content following its type:
// symbolic scalars named <name>.<field>..., one-element slices and maps, non-nil pointers
// (depth 3), strings "h", nil interfaces and funcs.
func Havoc(name string, p any) {
	v := reflect.ValueOf(p)
	if v.Kind() != reflect.Ptr || v.IsNil() {
		panic("zzverif.Havoc needs a non-nil pointer")
	}
	havocValue(v.Elem(), name, 0)
}

func settable(v reflect.Value) reflect.Value {
	if v.CanSet() {
		return v
	}
	return reflect.NewAt(v.Type(), unsafe.Pointer(v.UnsafeAddr())).Elem()
}

func havocValue(v reflect.Value, name string, depth int) {
	v = settable(v)
	switch v.Kind() {
	case reflect.Bool:
		v.SetBool(get(name)&1 == 1)
	case reflect.Int, reflect.Int8, reflect.Int16, reflect.Int32, reflect.Int64:
		v.SetInt(int64(get(name)))
	case reflect.Uint, reflect.Uint8, reflect.Uint16, reflect.Uint32, reflect.Uint64, reflect.Uintptr:
		v.SetUint(get(name))
	case reflect.Float32:
		v.SetFloat(float64(math.Float32frombits(uint32(get(name)))))
	case reflect.Float64:
		v.SetFloat(math.Float64frombits(get(name)))
	case reflect.String:
		v.SetString("h")
	case reflect.Ptr:
		if depth >= 3 {
			v.Set(reflect.Zero(v.Type()))
			return
		}
		n := reflect.New(v.Type().Elem())
		havocValue(n.Elem(), name+".*", depth+1)
		v.Set(n)
	case reflect.Struct:
		for i := 0; i < v.NumField(); i++ {
			havocValue(v.Field(i), name+"."+v.Type().Field(i).Name, depth+1)
		}
	case reflect.Array:
		for i := 0; i < v.Len(); i++ {
			havocValue(v.Index(i), fmt.Sprintf("%s[%d]", name, i), depth+1)
		}
	case reflect.Slice:
		if depth >= 4 {
			v.Set(reflect.Zero(v.Type()))
			return
		}
		s := reflect.MakeSlice(v.Type(), 1, 1)
		havocValue(s.Index(0), name+"[0]", depth+1)
		v.Set(s)
	case reflect.Map:
		m := reflect.MakeMap(v.Type())
		if depth < 4 {
			k := reflect.New(v.Type().Key()).Elem()
			e := reflect.New(v.Type().Elem()).Elem()
			havocValue(k, name+".key", depth+1)
			havocValue(e, name+".val", depth+1)
			m.SetMapIndex(k, e)
		}
		v.Set(m)
	default:
		v.Set(reflect.Zero(v.Type()))
	}
}

// SameState is deep equality of logical state: nil and empty slices/maps are equal, slices by
// length and elements, maps by content, pointers by pointee.
func SameState(a, b any) bool { return stateDump(a) == stateDump(b) }

func stateDump(x any) string {
	var walk func(v reflect.Value, depth int) string
	walk = func(v reflect.Value, depth int) string {
		if depth > 8 {
			return "<deep>"
		}
		switch v.Kind() {
		case reflect.Ptr:
			if v.IsNil() {
				return "nil"
			}
			return "&" + walk(v.Elem(), depth+1)
		case reflect.Interface:
			if v.IsNil() {
				return "nil"
			}
			return v.Elem().Type().String() + ":" + walk(v.Elem(), depth+1)
		case reflect.Struct:
			var parts []string
			for i := 0; i < v.NumField(); i++ {
				parts = append(parts, walk(v.Field(i), depth+1))
			}
			return "{" + strings.Join(parts, ",") + "}"
		case reflect.Slice, reflect.Array:
			var parts []string
			for i := 0; i < v.Len(); i++ {
				parts = append(parts, walk(v.Index(i), depth+1))
			}
			return "[" + strings.Join(parts, ",") + "]"
		case reflect.Map:
			var parts []string
			for _, k := range v.MapKeys() {
				parts = append(parts, walk(k, depth+1)+"=>"+walk(v.MapIndex(k), depth+1))
			}
			sort.Strings(parts)
			return "map[" + strings.Join(parts, ";") + "]"
		case reflect.Bool:
			return fmt.Sprint(v.Bool())
		case reflect.Int, reflect.Int8, reflect.Int16, reflect.Int32, reflect.Int64:
			return fmt.Sprint(v.Int())
		case reflect.Uint, reflect.Uint8, reflect.Uint16, reflect.Uint32, reflect.Uint64, reflect.Uintptr:
			return fmt.Sprint(v.Uint())
		case reflect.Float32, reflect.Float64:
			return fmt.Sprint(math.Float64bits(v.Float()))
		case reflect.String:
			return fmt.Sprintf("%q", v.String())
		case reflect.Func:
			if v.IsNil() {
				return "nil"
			}
			return "<func>"
		}
		return "<" + v.Kind().String() + ">"
	}
	return walk(reflect.ValueOf(x), 0)
}

// MapHandles returns a deep copy of x in which every value whose named type is typeName
// (import path relative to the module, e.g. "ir.ExpressionHandle") and whose numeric value is
// below len(table) is replaced by table[value]; everything else is unchanged.
func MapHandles(x any, typeName string, table []uint32) any {
	short := typeName
	if i := strings.LastIndex(short, "/"); i >= 0 {
		short = short[i+1:]
	}
	v := reflect.ValueOf(x)
	if !v.IsValid() {
		return x
	}
	return mapNamedValue(v, short, table, 0).Interface()
}

func mapNamedValue(v reflect.Value, short string, table []uint32, depth int) reflect.Value {
	t := v.Type()
	if depth > 12 {
		return v
	}
	if t.PkgPath() != "" && pkgLast(t.PkgPath())+"."+t.Name() == short {
		out := reflect.New(t).Elem()
		switch t.Kind() {
		case reflect.Uint, reflect.Uint8, reflect.Uint16, reflect.Uint32, reflect.Uint64:
			u := v.Uint()
			if u < uint64(len(table)) {
				u = uint64(table[u])
			}
			out.SetUint(u)
		case reflect.Int, reflect.Int8, reflect.Int16, reflect.Int32, reflect.Int64:
			i := v.Int()
			if i >= 0 && i < int64(len(table)) {
				i = int64(table[i])
			}
			out.SetInt(i)
		default:
			return v
		}
		return out
	}
	switch t.Kind() {
	case reflect.Struct:
		out := reflect.New(t).Elem()
		for i := 0; i < v.NumField(); i++ {
			f := v.Field(i)
			if !f.CanInterface() {
				f = reflect.NewAt(f.Type(), unsafe.Pointer(nil)).Elem()
				_ = f
				// unexported fields: copy as is
				cp := reflect.New(t).Elem()
				cp.Set(v)
				settable(out.Field(i)).Set(settable(cp.Field(i)))
				continue
			}
			out.Field(i).Set(mapNamedValue(f, short, table, depth+1))
		}
		return out
	case reflect.Slice:
		if v.IsNil() {
			return v
		}
		out := reflect.MakeSlice(t, v.Len(), v.Len())
		for i := 0; i < v.Len(); i++ {
			out.Index(i).Set(mapNamedValue(v.Index(i), short, table, depth+1))
		}
		return out
	case reflect.Array:
		out := reflect.New(t).Elem()
		for i := 0; i < v.Len(); i++ {
			out.Index(i).Set(mapNamedValue(v.Index(i), short, table, depth+1))
		}
		return out
	case reflect.Ptr:
		if v.IsNil() {
			return v
		}
		out := reflect.New(t.Elem())
		out.Elem().Set(mapNamedValue(v.Elem(), short, table, depth+1))
		return out
	case reflect.Interface:
		if v.IsNil() {
			return v
		}
		out := reflect.New(t).Elem()
		out.Set(mapNamedValue(v.Elem(), short, table, depth+1))
		return out
	}
	return v
}

func pkgLast(p string) string {
	if i := strings.LastIndex(p, "/"); i >= 0 {
		return p[i+1:]
	}
	return p
}

// CheckImplementors (engine only) fails the run as STALE-HARNESS when a type implementing the
// named interface is missing from listed, so that a newly added IR kind cannot go uncovered.
func CheckImplementors(ifaceName string, listed []any) {}
