//go:build verif

package zztpl

import "fmt"

// Layout templates (C07): a family of host-shareable WGSL type trees, their memory layout
// computed HERE from the WGSL specification (section "Memory Layout": AlignOf, SizeOf,
// member offsets, array stride, @align/@size) independently of the lowerer and of every back
// end, and a program that moves a value between every pair of neighbouring scalar leaves.
// A harness runs the real pipeline on the program, executes the emitted text on a symbolic
// byte image of the buffer and compares every leaf word with the reference.

type LType struct {
	K       byte // 'u' u32, 'v' vector of u32, 'h' f16, 'w' vector of f16, 'm' matrix of f32, 'a' fixed array, 's' struct
	N       int  // vector width / array length / matrix columns
	R       int  // matrix rows
	Elem    *LType
	Name    string
	Members []LMember
}

type LMember struct {
	Name        string
	T           *LType
	Align, Size int // 0: attribute absent
}

func RoundUp(a, n int) int { return (n + a - 1) / a * a }

// AlignOf and SizeOf follow the table in the WGSL specification.
func (t *LType) AlignOf() int {
	switch t.K {
	case 'u':
		return 4
	case 'v':
		if t.N == 2 {
			return 8
		}
		return 16
	case 'h':
		return 2
	case 'w':
		if t.N == 2 {
			return 4
		}
		return 8
	case 'm':
		return V(t.R).AlignOf()
	case 'a':
		return t.Elem.AlignOf()
	case 's':
		a := 1
		for _, m := range t.Members {
			if ma := m.alignOf(); ma > a {
				a = ma
			}
		}
		return a
	}
	return 4
}

func (t *LType) SizeOf() int {
	switch t.K {
	case 'u':
		return 4
	case 'v':
		return 4 * t.N
	case 'h':
		return 2
	case 'w':
		return 2 * t.N
	case 'm':
		return t.N * RoundUp(V(t.R).AlignOf(), V(t.R).SizeOf())
	case 'a':
		return t.N * RoundUp(t.Elem.AlignOf(), t.Elem.SizeOf())
	case 's':
		off := 0
		for _, m := range t.Members {
			off = RoundUp(m.alignOf(), off) + m.sizeOf()
		}
		return RoundUp(t.AlignOf(), off)
	}
	return 4
}

func (m LMember) alignOf() int {
	if m.Align != 0 {
		return m.Align
	}
	return m.T.AlignOf()
}

func (m LMember) sizeOf() int {
	if m.Size != 0 {
		return m.Size
	}
	return m.T.SizeOf()
}

func (t *LType) WGSL() string {
	switch t.K {
	case 'u':
		return "u32"
	case 'v':
		return fmt.Sprintf("vec%d<u32>", t.N)
	case 'h':
		return "f16"
	case 'w':
		return fmt.Sprintf("vec%d<f16>", t.N)
	case 'm':
		return fmt.Sprintf("mat%dx%d<f32>", t.N, t.R)
	case 'a':
		return fmt.Sprintf("array<%s, %d>", t.Elem.WGSL(), t.N)
	}
	return t.Name
}

func (t *LType) decls(seen map[string]bool, out *string) {
	switch t.K {
	case 'a':
		t.Elem.decls(seen, out)
	case 's':
		for _, m := range t.Members {
			m.T.decls(seen, out)
		}
		if seen[t.Name] {
			return
		}
		seen[t.Name] = true
		s := "struct " + t.Name + " {\n"
		for _, m := range t.Members {
			s += "  "
			if m.Align != 0 {
				s += fmt.Sprintf("@align(%d) ", m.Align)
			}
			if m.Size != 0 {
				s += fmt.Sprintf("@size(%d) ", m.Size)
			}
			s += m.Name + ": " + m.T.WGSL() + ",\n"
		}
		*out += s + "}\n"
	}
}

type LLeaf struct {
	Path  string // WGSL access path below the buffer variable
	Off   int    // byte offset by the WGSL rules
	Float bool   // f32 leaf (moved through bitcast)
}

func (t *LType) leaves(path string, base int, out *[]LLeaf) {
	switch t.K {
	case 'u':
		*out = append(*out, LLeaf{Path: path, Off: base})
	case 'v':
		for i := 0; i < t.N; i++ {
			*out = append(*out, LLeaf{Path: path + "." + "xyzw"[i:i+1], Off: base + 4*i})
		}
	case 'm':
		stride := RoundUp(V(t.R).AlignOf(), V(t.R).SizeOf())
		for c := 0; c < t.N; c++ {
			for r := 0; r < t.R; r++ {
				*out = append(*out, LLeaf{Path: fmt.Sprintf("%s[%d].%s", path, c, "xyzw"[r:r+1]), Off: base + c*stride + 4*r, Float: true})
			}
		}
	case 'a':
		stride := RoundUp(t.Elem.AlignOf(), t.Elem.SizeOf())
		for i := 0; i < t.N; i++ {
			t.Elem.leaves(fmt.Sprintf("%s[%d]", path, i), base+i*stride, out)
		}
	case 's':
		off := 0
		for _, m := range t.Members {
			off = RoundUp(m.alignOf(), off)
			m.T.leaves(path+"."+m.Name, base+off, out)
			off += m.sizeOf()
		}
	}
}

func (l LLeaf) read() string {
	if l.Float {
		return "bitcast<u32>(" + l.Path + ")"
	}
	return l.Path
}

func U() *LType                  { return &LType{K: 'u'} }
func V(n int) *LType             { return &LType{K: 'v', N: n} }
func H() *LType                  { return &LType{K: 'h'} }
func HV(n int) *LType            { return &LType{K: 'w', N: n} }
func Mat(c, r int) *LType        { return &LType{K: 'm', N: c, R: r} }
func Arr(e *LType, n int) *LType { return &LType{K: 'a', Elem: e, N: n} }
func St(name string, ms ...LMember) *LType {
	return &LType{K: 's', Name: name, Members: ms}
}
func Mem(name string, t *LType) LMember { return LMember{Name: name, T: t} }

// LayoutFocusTypes are the member types placed at the focus position of the outer struct.
func LayoutFocusTypes() []*LType {
	inner := St("Inner", Mem("p", V(2)), Mem("q", U()))
	inner3 := St("Inner3", Mem("v", V(3)), Mem("w", U()))
	innerA := St("InnerA", Mem("x", U()), LMember{Name: "y", T: U(), Align: 16}, Mem("z", U()))
	innerS := St("InnerS", LMember{Name: "x", T: U(), Size: 12}, Mem("y", V(2)))
	return []*LType{
		U(), V(2), V(3), V(4),
		Arr(U(), 3), Arr(V(2), 2), Arr(V(3), 2),
		inner, Arr(inner, 2), inner3, Arr(inner3, 2), innerA, Arr(innerA, 2), innerS,
		St("Outer2", Mem("i", inner3), Mem("k", U()), Mem("j", Arr(inner, 2))),
		Mat(2, 2), Mat(3, 3), Mat(4, 2), Mat(2, 4), Mat(3, 2), Arr(Mat(2, 2), 2), Arr(Mat(2, 3), 2), Arr(Arr(Mat(2, 2), 2), 2),
		St("InnerM", Mem("x", U()), Mem("m", Mat(2, 2)), Mem("y", U())),
	}
}

// LayoutAttrs are the (@align, @size) pairs tried on the focus member (LayoutValid filters
// the pairs WGSL forbids for a given type).
var LayoutAttrs = [][2]int{{0, 0}, {16, 0}, {32, 0}, {0, 36}, {0, 64}, {8, 100}, {64, 68}, {16, 48}}

// LayoutValid: WGSL requires @align to be a multiple of the type's alignment and @size to be
// at least its size.
func LayoutValid(t *LType, attr [2]int) bool {
	if attr[0] != 0 && attr[0]%t.AlignOf() != 0 {
		return false
	}
	if attr[1] != 0 && attr[1] < t.SizeOf() {
		return false
	}
	return true
}

// LayoutRoot builds the outer struct: a leading scalar, the focus member, a scalar that must
// land right behind it, a vec3 that forces 16-byte realignment and a scalar that fits the
// vec3's tail padding.
func LayoutRoot(focus []LMember) *LType {
	ms := []LMember{Mem("a", U())}
	ms = append(ms, focus...)
	ms = append(ms, Mem("c", U()), Mem("d", V(3)), Mem("e", U()))
	return St("P", ms...)
}

// LayoutProgram returns the WGSL text, the leaves and the size of the buffer in words. The
// program rotates the values of all leaves by one position and xors a per-leaf constant, so
// that any leaf read or written at a wrong address changes a compared word.
func LayoutProgram(root *LType) (src string, leaves []LLeaf, words int) {
	decl := ""
	root.decls(map[string]bool{}, &decl)
	root.leaves("s", 0, &leaves)
	body := ""
	for i, l := range leaves {
		body += fmt.Sprintf("  let t%d = %s;\n", i, l.read())
	}
	for i, l := range leaves {
		v := fmt.Sprintf("t%d ^ %du", (i+1)%len(leaves), LayoutKey(i))
		if l.Float {
			v = "bitcast<f32>(" + v + ")"
		}
		body += fmt.Sprintf("  %s = %s;\n", l.Path, v)
	}
	src = decl + "@group(0) @binding(0) var<storage, read_write> s: P;\n@compute @workgroup_size(1) fn main() {\n" + body + "}\n"
	return src, leaves, root.SizeOf() / 4
}

func LayoutKey(i int) uint32 { return uint32(i+1) * 0x01010101 }

// LayoutRef applies the WGSL meaning of LayoutProgram to the byte image (as words).
func LayoutRef(leaves []LLeaf, in []uint32) []uint32 {
	out := append([]uint32(nil), in...)
	for i, l := range leaves {
		out[l.Off/4] = in[leaves[(i+1)%len(leaves)].Off/4] ^ LayoutKey(i)
	}
	return out
}

// ---- uniform address space ----

// RequiredAlignUniform is RequiredAlignOf(T, uniform) of the WGSL specification.
func (t *LType) RequiredAlignUniform() int {
	switch t.K {
	case 'a', 's':
		return RoundUp(16, t.AlignOf())
	}
	return t.AlignOf()
}

// ValidUniform checks the WGSL address-space layout constraints for uniform buffers: every
// member offset is a multiple of the member type's required alignment, array strides are
// multiples of 16, and the distance from a struct-typed member to the next member is at least
// the struct size rounded up to 16.
func (t *LType) ValidUniform() bool {
	switch t.K {
	case 'a':
		if RoundUp(t.Elem.AlignOf(), t.Elem.SizeOf())%16 != 0 {
			return false
		}
		return t.Elem.ValidUniform()
	case 's':
		off := 0
		prevStructEnd := 0
		for _, m := range t.Members {
			off = RoundUp(m.alignOf(), off)
			if off%m.T.RequiredAlignUniform() != 0 || off < prevStructEnd || !m.T.ValidUniform() {
				return false
			}
			prevStructEnd = 0
			if m.T.K == 's' {
				prevStructEnd = off + RoundUp(16, m.T.SizeOf())
			}
			off += m.sizeOf()
		}
	}
	return true
}

// LayoutUniformFocusTypes: focus types for the uniform address space (arrays need a stride
// that is a multiple of 16).
func LayoutUniformFocusTypes() []*LType {
	inner := St("Inner", Mem("p", V(2)), Mem("q", U()))
	inner3 := St("Inner3", Mem("v", V(3)), Mem("w", U()))
	innerV := St("InnerV", Mem("v", V(3)))
	innerA := St("InnerA", Mem("x", U()), LMember{Name: "y", T: U(), Align: 16}, Mem("z", U()))
	innerS := St("InnerS", LMember{Name: "x", T: U(), Size: 12}, Mem("y", V(2)))
	innerArr := St("InnerArr", Mem("r", Arr(V(3), 2)), Mem("t", U()))
	return []*LType{
		U(), V(2), V(3), V(4),
		Arr(V(4), 2), Arr(V(3), 2), Arr(V(2), 2),
		inner, Arr(inner, 2), inner3, Arr(inner3, 2), innerV, Arr(innerV, 2), innerA, Arr(innerA, 2), innerS, innerArr,
		St("Outer2", Mem("i", inner3), Mem("k", U()), LMember{Name: "j", T: Arr(inner, 2), Align: 16}),
		Mat(2, 2), Mat(3, 3), Mat(4, 2), Mat(2, 4), Mat(3, 2), Arr(Mat(2, 2), 2), Arr(Mat(2, 3), 2), Arr(Arr(Mat(2, 2), 2), 2),
		St("InnerM", Mem("x", U()), Mem("m", Mat(2, 2)), Mem("y", U())),
	}
}

// LayoutUniformProgram reads every leaf of the uniform struct into one word of a storage
// array (xor a per-leaf constant).
func LayoutUniformProgram(root *LType) (src string, leaves []LLeaf, words int) {
	decl := ""
	root.decls(map[string]bool{}, &decl)
	root.leaves("u", 0, &leaves)
	body := ""
	for i, l := range leaves {
		body += fmt.Sprintf("  s[%d] = %s ^ %du;\n", i, l.read(), LayoutKey(i))
	}
	src = decl + fmt.Sprintf("@group(0) @binding(0) var<storage, read_write> s: array<u32, %d>;\n@group(0) @binding(1) var<uniform> u: P;\n@compute @workgroup_size(1) fn main() {\n", len(leaves)) + body + "}\n"
	return src, leaves, root.SizeOf() / 4
}

// ---- static layout (member offsets and sizes of every struct of a tree) ----

// StructTable lists, for every struct of the tree, the WGSL offset of each member and the
// struct size.
type StructInfo struct {
	Name    string
	Offsets map[string]int
	Size    int
}

func (t *LType) structTable(seen map[string]bool, out *[]StructInfo) {
	switch t.K {
	case 'a':
		t.Elem.structTable(seen, out)
	case 's':
		if seen[t.Name] {
			return
		}
		seen[t.Name] = true
		info := StructInfo{Name: t.Name, Offsets: map[string]int{}, Size: t.SizeOf()}
		off := 0
		for _, m := range t.Members {
			off = RoundUp(m.alignOf(), off)
			info.Offsets[m.Name] = off
			off += m.sizeOf()
			m.T.structTable(seen, out)
		}
		*out = append(*out, info)
	}
}

func StructTable(root *LType) []StructInfo {
	var out []StructInfo
	root.structTable(map[string]bool{}, &out)
	return out
}

// LayoutF16FocusTypes: member types with 16-bit scalars (storage address space).
func LayoutF16FocusTypes() []*LType {
	innerH := St("InnerH", Mem("v", HV(3)), Mem("w", H()))
	innerHF := St("InnerHF", Mem("h", HV(3)), Mem("i", St("Inner3", Mem("v", V(3)), Mem("w", U()))))
	return []*LType{
		H(), HV(2), HV(3), HV(4), Arr(H(), 3), Arr(HV(3), 2), Arr(HV(2), 3),
		innerH, Arr(innerH, 2), innerHF,
		St("InnerHA", Mem("h", HV(3)), LMember{Name: "u", T: U(), Align: 16}),
		St("InnerHS", LMember{Name: "h", T: HV(3), Size: 12}, Mem("f", U())),
		St("InnerH2", Mem("a", H()), Mem("b", HV(2)), Mem("c", H()), Mem("d", U())),
	}
}

// LayoutDeclProgram declares the tree in a storage buffer and touches one u32 member; used by
// the static layout check (no data flow through 16-bit members).
func LayoutDeclProgram(root *LType, f16 bool) string {
	decl := ""
	root.decls(map[string]bool{}, &decl)
	src := ""
	if f16 {
		src = "enable f16;\n"
	}
	return src + decl + "@group(0) @binding(0) var<storage, read_write> s: P;\n@compute @workgroup_size(1) fn main() {\n  s.a = s.c + 1u;\n}\n"
}
