//go:build verif

// Package zztpl holds the template programs shared by the translation-validation harnesses
// (C01, C03, C04, C05) and the IR behaviour-preservation harnesses (C13): WGSL text and its
// meaning as a Go function on the buffer words, written from the WGSL specification.
package zztpl

import "fmt"

const BufWords = 8

type BinTemplate struct {
	Op  string
	I32 func(a, b int32) int32
	U32 func(a, b uint32) uint32
}

func ShiftAmount(b uint32) uint32 { return b & 31 }

var BinTemplates = []BinTemplate{
	{"+", func(a, b int32) int32 { return a + b }, func(a, b uint32) uint32 { return a + b }},
	{"-", func(a, b int32) int32 { return a - b }, func(a, b uint32) uint32 { return a - b }},
	{"*", func(a, b int32) int32 { return a * b }, func(a, b uint32) uint32 { return a * b }},
	{"/", func(a, b int32) int32 {
		if b == 0 || (a == -2147483648 && b == -1) {
			return a
		}
		return a / b
	}, func(a, b uint32) uint32 {
		if b == 0 {
			return a
		}
		return a / b
	}},
	{"%", func(a, b int32) int32 {
		if b == 0 || (a == -2147483648 && b == -1) {
			return 0
		}
		return a % b
	}, func(a, b uint32) uint32 {
		if b == 0 {
			return 0
		}
		return a % b
	}},
	{"&", func(a, b int32) int32 { return a & b }, func(a, b uint32) uint32 { return a & b }},
	{"|", func(a, b int32) int32 { return a | b }, func(a, b uint32) uint32 { return a | b }},
	{"^", func(a, b int32) int32 { return a ^ b }, func(a, b uint32) uint32 { return a ^ b }},
}

// ---- general template table: WGSL body + its meaning as a Go function on the buffer ----

type Template struct {
	Name string
	Ty   string // element type of buf
	Decl string // module-scope declarations (helpers, structs)
	Body string // body of main
	Ref  func(b []uint32)
}

func I(x uint32) int32 { return int32(x) }
func Bool(c bool) uint32 {
	if c {
		return 1
	}
	return 0
}

var TemplatesA = []Template{
	{"shl-i32", "i32", "", "buf[2] = buf[0] << u32(buf[1]);", func(b []uint32) { b[2] = b[0] << (b[1] & 31) }},
	{"shr-i32", "i32", "", "buf[2] = buf[0] >> u32(buf[1]);", func(b []uint32) { b[2] = uint32(I(b[0]) >> (b[1] & 31)) }},
	{"shl-u32", "u32", "", "buf[2] = buf[0] << buf[1];", func(b []uint32) { b[2] = b[0] << (b[1] & 31) }},
	{"shr-u32", "u32", "", "buf[2] = buf[0] >> buf[1];", func(b []uint32) { b[2] = b[0] >> (b[1] & 31) }},
	{"neg", "i32", "", "buf[2] = -buf[0];", func(b []uint32) { b[2] = -b[0] }},
	{"not", "u32", "", "buf[2] = ~buf[0];", func(b []uint32) { b[2] = ^b[0] }},
	{"select-lt", "i32", "", "buf[2] = select(buf[0], buf[1], buf[0] < buf[1]);", func(b []uint32) {
		if I(b[0]) < I(b[1]) {
			b[2] = b[1]
		} else {
			b[2] = b[0]
		}
	}},
	{"cmp-chain-u32", "u32", "", "buf[2] = u32(buf[0] <= buf[1]) + 2u * u32(buf[0] > buf[1]) + 4u * u32(buf[0] == buf[1]) + 8u * u32(buf[0] != buf[1]) + 16u * u32(buf[0] >= buf[1]);",
		func(b []uint32) {
			b[2] = Bool(b[0] <= b[1]) + 2*Bool(b[0] > b[1]) + 4*Bool(b[0] == b[1]) + 8*Bool(b[0] != b[1]) + 16*Bool(b[0] >= b[1])
		}},
	{"cmp-chain-i32", "i32", "", "buf[2] = i32(buf[0] <= buf[1]) + 2 * i32(buf[0] > buf[1]) + 4 * i32(buf[0] < buf[1]) + 8 * i32(buf[0] >= buf[1]);",
		func(b []uint32) {
			x, y := I(b[0]), I(b[1])
			b[2] = Bool(x <= y) + 2*Bool(x > y) + 4*Bool(x < y) + 8*Bool(x >= y)
		}},
	{"if-else", "i32", "", "if (buf[0] > 3) { buf[2] = buf[0] - buf[1]; } else { buf[3] = buf[1] - buf[0]; }", func(b []uint32) {
		if I(b[0]) > 3 {
			b[2] = b[0] - b[1]
		} else {
			b[3] = b[1] - b[0]
		}
	}},
	{"short-circuit", "i32", "", "if (buf[0] > 0 && buf[1] / buf[0] > 2) { buf[2] = 1; } if (buf[0] == 0 || buf[1] % buf[0] == 0) { buf[3] = 1; }", func(b []uint32) {
		x, y := I(b[0]), I(b[1])
		div := func(p, q int32) int32 {
			if q == 0 || (p == -2147483648 && q == -1) {
				return p
			}
			return p / q
		}
		mod := func(p, q int32) int32 {
			if q == 0 || (p == -2147483648 && q == -1) {
				return 0
			}
			return p % q
		}
		if x > 0 && div(y, x) > 2 {
			b[2] = 1
		}
		if x == 0 || mod(y, x) == 0 {
			b[3] = 1
		}
	}},
	{"switch", "i32", "", "switch buf[0] { case 1: { buf[2] = 10; } case 2, 3: { buf[2] = 20; } default: { buf[2] = buf[1]; } }", func(b []uint32) {
		switch I(b[0]) {
		case 1:
			b[2] = 10
		case 2, 3:
			b[2] = 20
		default:
			b[2] = b[1]
		}
	}},
	{"for-sum", "u32", "", "var s = 0u; for (var i = 0u; i < 3u; i++) { s += buf[i] * (i + 1u); } buf[4] = s;", func(b []uint32) {
		b[4] = b[0]*1 + b[1]*2 + b[2]*3
	}},
	{"loop-break-continue", "u32", "", "var i = 0u; var s = 0u; loop { if (i >= 4u) { break; } if (buf[i] == 7u) { i++; continue; } s += buf[i]; i++; } buf[5] = s;", func(b []uint32) {
		var s uint32
		for i := 0; i < 4; i++ {
			if b[i] != 7 {
				s += b[i]
			}
		}
		b[5] = s
	}},
	{"while-nested-var", "u32", "", "for (var i = 0u; i < 2u; i++) { var j = 0u; while (j < 1u) { j++; } var t = 1u; t += buf[i]; buf[4u + i] = t; }", func(b []uint32) {
		b[4] = 1 + b[0]
		b[5] = 1 + b[1]
	}},
	{"helper-call", "i32", "fn f(x: i32, y: i32) -> i32 { if (x < y) { return y - x; } return x * y; }", "buf[2] = f(buf[0], buf[1]) + f(buf[1], 2);", func(b []uint32) {
		f := func(x, y int32) int32 {
			if x < y {
				return y - x
			}
			return x * y
		}
		b[2] = uint32(f(I(b[0]), I(b[1])) + f(I(b[1]), 2))
	}},
	{"pointer-arg", "u32", "fn bump(p: ptr<function, u32>, d: u32) { *p = *p * 2u + d; }", "var v = buf[0]; bump(&v, buf[1]); bump(&v, 1u); buf[2] = v;", func(b []uint32) {
		v := b[0]
		v = v*2 + b[1]
		v = v*2 + 1
		b[2] = v
	}},
	{"vec-swizzle", "i32", "", "let v = vec3<i32>(buf[0], buf[1], buf[2]); let w = v.zyx + vec3<i32>(1, 2, 3) * v.x; buf[3] = w.x; buf[4] = w.y; buf[5] = w.z;", func(b []uint32) {
		x, y, z := b[0], b[1], b[2]
		b[3] = z + 1*x
		b[4] = y + 2*x
		b[5] = x + 3*x
	}},
	{"struct-array-local", "u32", "struct S { a: u32, b: array<u32, 2> }", "var s: S; s.a = buf[0]; s.b[1] = buf[1]; s.b[0] = s.a + s.b[1]; let t = s; buf[2] = t.b[0]; buf[3] = t.b[1] ^ t.a;", func(b []uint32) {
		b[2] = b[0] + b[1]
		b[3] = b[1] ^ b[0]
	}},
	{"compound-assign", "i32", "", "var x = buf[0]; x += buf[1]; x *= 3; x -= buf[2]; x &= 0xff; x |= 0x100; x ^= buf[3]; x <<= 2u; buf[4] = x;", func(b []uint32) {
		x := b[0]
		x += b[1]
		x *= 3
		x -= b[2]
		x &= 0xff
		x |= 0x100
		x ^= b[3]
		x <<= 2
		b[4] = x
	}},
	{"bitcast", "u32", "", "buf[2] = bitcast<u32>(bitcast<i32>(buf[0]) >> 1u) + u32(i32(buf[1]));", func(b []uint32) {
		b[2] = uint32(I(b[0])>>1) + b[1]
	}},
	{"dynamic-index", "u32", "", "let i = buf[0] & 3u; buf[4u + (i & 1u)] = buf[i] + 5u;", func(b []uint32) {
		i := b[0] & 3
		b[4+(i&1)] = b[i] + 5
	}},
	{"nested-loops-read-before-inner", "u32", "", "var total = 0u; var seen = 0u; for (var i = 0u; i < 3u; i++) { seen = seen + total; for (var j = 0u; j < 2u; j++) { total = total + buf[j]; } } buf[4] = seen; buf[5] = total;", func(b []uint32) {
		t := b[0] + b[1]
		b[4] = 3 * t
		b[5] = 3 * t
	}},
	{"loop-continuing-break-if", "u32", "", "var i = 0u; var s = 0u; loop { s += buf[i]; continuing { i++; break if i >= 3u; } } buf[4] = s; buf[5] = i;", func(b []uint32) {
		b[4] = b[0] + b[1] + b[2]
		b[5] = 3
	}},
	{"switch-in-loop-continue", "u32", "", "var s = 0u; for (var i = 0u; i < 3u; i++) { switch buf[i] & 3u { case 0u: { continue; } case 1u: { s += 1u; } default: { s += buf[i]; break; } } s += 100u; } buf[4] = s;", func(b []uint32) {
		var s uint32
		for i := 0; i < 3; i++ {
			switch b[i] & 3 {
			case 0:
				continue
			case 1:
				s += 1
			default:
				s += b[i]
			}
			s += 100
		}
		b[4] = s
	}},
	{"if-else-if-merge", "u32", "", "var x = buf[0]; var y = 7u; if (buf[1] > 5u) { x = x + 1u; y = x; } else if (buf[1] > 2u) { x = x * 2u; } buf[2] = x; buf[3] = y;", func(b []uint32) {
		x, y := b[0], uint32(7)
		if b[1] > 5 {
			x = x + 1
			y = x
		} else if b[1] > 2 {
			x = x * 2
		}
		b[2] = x
		b[3] = y
	}},
	{"helper-early-return-in-loop", "u32", "fn find(k: u32) -> u32 { for (var i = 0u; i < 4u; i++) { if (buf[i] == k) { return i; } } return 9u; }", "buf[5] = find(buf[4]) + find(buf[0]);", func(b []uint32) {
		find := func(k uint32) uint32 {
			for i := uint32(0); i < 4; i++ {
				if b[i] == k {
					return i
				}
			}
			return 9
		}
		b[5] = find(b[4]) + find(b[0])
	}},
	{"switch-assigns-var", "i32", "", "var r = 5; var q = 1; switch buf[0] { case 0: { r = buf[1]; } case 1, 2: { q = buf[2]; r = q + 1; } default: { } } buf[3] = r; buf[4] = q;", func(b []uint32) {
		r, q := uint32(5), uint32(1)
		switch I(b[0]) {
		case 0:
			r = b[1]
		case 1, 2:
			q = b[2]
			r = q + 1
		}
		b[3] = r
		b[4] = q
	}},
	{"while-with-break-and-accumulators", "u32", "", "var i = 0u; var a = 0u; var c = 1u; while (i < 4u) { if (buf[i] == 9u) { break; } a = a + buf[i]; c = c * 2u; i = i + 1u; } buf[5] = a; buf[6] = c; buf[7] = i;", func(b []uint32) {
		i, a, c := uint32(0), uint32(0), uint32(1)
		for i < 4 {
			if b[i] == 9 {
				break
			}
			a += b[i]
			c *= 2
			i++
		}
		b[5], b[6], b[7] = a, c, i
	}},
	{"helper-return-in-switch-and-nested-loop", "u32", "fn pick(k: u32) -> u32 { switch k & 3u { case 1u: { return 10u; } case 2u: { if (buf[1] > 3u) { return 20u; } } default: { } } for (var i = 0u; i < 2u; i++) { for (var j = 0u; j < 2u; j++) { if (buf[i + j] == 7u) { return 40u + i; } } } return 30u; }", "buf[5] = pick(buf[0]) + pick(buf[4]) * 100u;", func(b []uint32) {
		pick := func(k uint32) uint32 {
			switch k & 3 {
			case 1:
				return 10
			case 2:
				if b[1] > 3 {
					return 20
				}
			}
			for i := uint32(0); i < 2; i++ {
				for j := uint32(0); j < 2; j++ {
					if b[i+j] == 7 {
						return 40 + i
					}
				}
			}
			return 30
		}
		b[5] = pick(b[0]) + pick(b[4])*100
	}},
	{"switch-every-case-breaks", "i32", "", "var a = 0; switch buf[0] { case 1: { a = 1; break; } case 2: { a = buf[1]; break; } default: { a = 2; break; } } buf[2] = a; buf[3] = a + 1;", func(b []uint32) {
		a := uint32(2)
		switch I(b[0]) {
		case 1:
			a = 1
		case 2:
			a = b[1]
		}
		b[2] = a
		b[3] = a + 1
	}},
	{"loop-local-counter-only-in-body", "u32", "", "var acc: u32; loop { acc = acc + 1u; if (acc > 5u) { break; } buf[acc & 7u] = acc; }", func(b []uint32) {
		for acc := uint32(1); acc <= 5; acc++ {
			b[acc&7] = acc
		}
	}},
	{"helper-with-local-called-in-loop", "u32", "fn count(n: u32) -> u32 { var acc = 0u; for (var i = 0u; i < n; i++) { acc += 2u; } return acc; }", "var t = 0u; for (var j = 0u; j < 3u; j++) { t += count(buf[j] & 3u); } buf[4] = t;", func(b []uint32) {
		var t uint32
		for j := 0; j < 3; j++ {
			t += 2 * (b[j] & 3)
		}
		b[4] = t
	}},
	{"const-bool-operand-of-short-circuit", "u32", "const T = true; const F = false;", "if (T && buf[0] > 3u) { buf[2] = 1u; } else { buf[2] = 2u; } if (F || buf[1] == 2u) { buf[3] = 1u; } else { buf[3] = 2u; } if (true && buf[0] == 9u) { buf[4] = 7u; } if (false && buf[0] == 9u) { buf[5] = 7u; } if (true || buf[0] == 9u) { buf[6] = 7u; }", func(b []uint32) {
		b2, b3 := uint32(2), uint32(2)
		if b[0] > 3 {
			b2 = 1
		}
		if b[1] == 2 {
			b3 = 1
		}
		if b[0] == 9 {
			b[4] = 7
		}
		b[2], b[3] = b2, b3
		b[6] = 7
	}},
	{"operand-read-before-later-call-mutates-it", "u32", "var<private> seed: u32 = 1u; fn next() -> u32 { seed = seed * 1664525u + 1013904223u; return seed; } fn bump(p: ptr<function, u32>) -> u32 { *p = *p + 7u; return *p; }",
		"seed = buf[0]; buf[1] = select(seed, 0u, buf[2] == 7u) ^ next(); var x = buf[3]; buf[4] = select(1u, x, buf[2] != 9u) + bump(&x); buf[5] = seed + next(); buf[6] = x * bump(&x);", func(b []uint32) {
			seed := b[0]
			next := func() uint32 { seed = seed*1664525 + 1013904223; return seed }
			old := seed
			if b[2] == 7 {
				old = 0
			}
			b[1] = old ^ next()
			x := b[3]
			bump := func() uint32 { x += 7; return x }
			sel := uint32(1)
			if b[2] != 9 {
				sel = x
			}
			b[4] = sel + bump()
			s0 := seed
			b[5] = s0 + next()
			x0 := x
			b[6] = x0 * bump()
		}},
	{"switch-case-ends-in-conditional-continue", "u32", "", "var acc = 0u; for (var i = 0u; i < 3u; i++) { switch buf[i] & 1u { case 0u: { acc += 1u; if (buf[i] > 5u) { continue; } } case 1u: { acc += 10u; } default: { acc += 100u; } } acc += 1000u; } buf[4] = acc;", func(b []uint32) {
		var acc uint32
		for i := 0; i < 3; i++ {
			switch b[i] & 1 {
			case 0:
				acc += 1
				if b[i] > 5 {
					continue
				}
			case 1:
				acc += 10
			}
			acc += 1000
		}
		b[4] = acc
	}},
	{"pointer-param-private", "i32", "var<private> counter: i32 = 5; fn bump(p: ptr<private, i32>) -> i32 { let old = *p; *p = old + 1; return old; }",
		"let a = bump(&counter); let b = bump(&counter); buf[1] = a * 100 + b; buf[2] = counter + buf[0]; buf[3] = -select(buf[0], 4, buf[4] == 1) + (~select(1, buf[0], buf[4] == 2));", func(b []uint32) {
			s1, s2 := b[0], uint32(1)
			if b[4] == 1 {
				s1 = 4
			}
			if b[4] == 2 {
				s2 = b[0]
			}
			b[3] = -s1 + ^s2
			b[1] = 5*100 + 6
			b[2] = 7 + b[0]
		}},
	{"helper-nested-return-called-in-loop", "u32", "fn classify(k: u32) -> u32 { switch k { case 1u: { return 100u; } default: { } } var r = 0u; for (var i = 0u; i < 2u; i++) { if (k == 7u + i) { return 50u + i; } r += k; } return r + 9u; }",
		"for (var j = 0u; j < 4u; j++) { buf[4u + j] = classify(buf[j]); }", func(b []uint32) {
			classify := func(k uint32) uint32 {
				if k == 1 {
					return 100
				}
				var r uint32
				for i := uint32(0); i < 2; i++ {
					if k == 7+i {
						return 50 + i
					}
					r += k
				}
				return r + 9
			}
			for j := 0; j < 4; j++ {
				b[4+j] = classify(b[j])
			}
		}},
	{"bits-count-reverse-first", "u32", "", "buf[1] = countLeadingZeros(buf[0]); buf[2] = countTrailingZeros(buf[0]); buf[3] = countOneBits(buf[0]); buf[4] = reverseBits(buf[0]); buf[5] = firstLeadingBit(buf[0]); buf[6] = firstTrailingBit(buf[0]);", func(b []uint32) {
		x := b[0]
		b[1] = uint32(RefClz(x))
		b[2] = uint32(RefCtz(x))
		b[3] = uint32(RefPopc(x))
		b[4] = RefRev(x)
		b[5] = uint32(31 - RefClz(x)) // 0 -> 0xFFFFFFFF
		tz := uint32(RefCtz(x))
		b[6] = tz | -(tz >> 5) // 32 -> 0xFFFFFFFF
	}},
	{"bits-signed-first-leading-abs-minmax", "i32", "", "buf[1] = firstLeadingBit(buf[0]); buf[2] = countLeadingZeros(buf[0]); buf[3] = abs(buf[0]); buf[4] = min(buf[0], buf[5]); buf[6] = max(buf[0], buf[5]); buf[7] = clamp(buf[0], -3, 9);", func(b []uint32) {
		x := b[0]
		y := x ^ uint32(int32(x)>>31) // bits that differ from the sign
		b[1] = uint32(31 - RefClz(y))
		b[2] = uint32(RefClz(x))
		m := uint32(int32(x) >> 31)
		b[3] = (x ^ m) - m
		lo, hi := x, b[5]
		if I(hi) < I(lo) {
			lo, hi = hi, lo
		}
		b[4], b[6] = lo, hi
		c := x
		if I(c) < -3 {
			c = 0xFFFFFFFD
		}
		if I(c) > 9 {
			c = 9
		}
		b[7] = c
	}},
	{"bits-extract-insert", "u32", "", "buf[2] = extractBits(buf[0], buf[1] & 31u, 5u); buf[3] = insertBits(buf[0], buf[4], 4u, 8u); buf[5] = extractBits(buf[0], buf[6], buf[7]);", func(b []uint32) {
		ext := func(e, offset, count uint32) uint32 {
			o := offset
			if o > 32 {
				o = 32
			}
			c := count
			if c > 32-o {
				c = 32 - o
			}
			// bits [o, o+c) of e: shift out the bits above, then down (64-bit to keep shifts < width)
			return uint32((uint64(e) << (32 - c - o) & 0xFFFFFFFF) >> (32 - c) & (uint64(1)<<c - 1))
		}
		b[2] = ext(b[0], b[1]&31, 5)
		b[3] = (b[0] &^ 0xFF0) | ((b[4] << 4) & 0xFF0)
		b[5] = ext(b[0], b[6], b[7])
	}},
	{"pack-unpack-4x8", "u32", "", "let v = vec4<u32>(buf[0], buf[1], buf[2], buf[3]); buf[4] = pack4xU8(v) + 1u; let u = unpack4xU8(buf[5]); buf[6] = u.x + u.y * 2u + u.z * 3u + u.w * 4u;", func(b []uint32) {
		b[4] = (b[0]&0xFF | (b[1]&0xFF)<<8 | (b[2]&0xFF)<<16 | (b[3]&0xFF)<<24) + 1
		u := b[5]
		b[6] = u&0xFF + (u>>8&0xFF)*2 + (u>>16&0xFF)*3 + (u>>24)*4
	}},
	{"dot-min-max-clamp-u32", "u32", "", "buf[2] = dot(vec2<u32>(buf[0], 2u), vec2<u32>(3u, buf[1])); buf[3] = min(buf[0], buf[1]) + max(buf[0], 7u) * 2u + clamp(buf[1], 1u, 7u) * 3u;", func(b []uint32) {
		b[2] = b[0]*3 + 2*b[1]
		mn := b[0]
		if b[1] < mn {
			mn = b[1]
		}
		mx := b[0]
		if mx < 7 {
			mx = 7
		}
		c := b[1]
		if c < 1 {
			c = 1
		}
		if c > 7 {
			c = 7
		}
		b[3] = mn + mx*2 + c*3
	}},
	{"loop-body-var-without-initializer", "u32", "", "for (var i = 0u; i < 3u; i++) { var x: u32; var y: vec2<u32>; x += buf[i]; y.x += x; buf[4u + i] = x + y.x + y.y; }", func(b []uint32) {
		for i := 0; i < 3; i++ {
			b[4+i] = 2 * b[i] // x and y start from zero in every iteration
		}
	}},
	{"shadowed-const-array-size", "u32", "const N = 1;", "{ const N = 5; var a: array<u32, N>; a[4] = buf[0]; a[0] = buf[1]; buf[2] = a[4] + a[0] + u32(N); const_assert N == 5; } buf[3] = u32(N);", func(b []uint32) {
		b[2] = b[0] + b[1] + 5 // the inner N (5) sizes the array and is the value read
		b[3] = 1               // the module-scope N again
	}},
	{"constant-expressions-int", "i32", "const A = -7; const B = 2;", "buf[0] = A / B; buf[1] = A % B; buf[2] = (A >> 1u) + (A << 2u); buf[3] = abs(A) + min(A, B) + max(A, B) + clamp(A, -3, 3); buf[4] = select(A, B, A < B) + i32(A == -7) + i32(!(A > B)); buf[5] = (A & 12) | (B ^ 5); buf[6] = -A * B - (A - B); buf[7] = i32(u32(A) >> 28u);", func(b []uint32) {
		A, B := int32(-7), int32(2)
		b[0] = uint32(A / B)
		b[1] = uint32(A % B)
		b[2] = uint32((A >> 1) + (A << 2))
		b[3] = uint32(7 + A + B + (-3))
		b[4] = uint32(B + 1 + 1)
		b[5] = uint32((A & 12) | (B ^ 5))
		b[6] = uint32(-A*B - (A - B))
		b[7] = uint32(A) >> 28
	}},
	{"constant-expressions-bits", "u32", "const X = 0x00F0ABCDu; const Z = 0u;", "buf[0] = countLeadingZeros(X) + countLeadingZeros(Z) * 100u; buf[1] = countTrailingZeros(X) + countTrailingZeros(Z) * 100u; buf[2] = countOneBits(X) + reverseBits(X); buf[3] = firstLeadingBit(X) + firstTrailingBit(X) + firstLeadingBit(Z); buf[4] = extractBits(X, 4u, 8u) + insertBits(X, 0xFFu, 28u, 8u); buf[5] = extractBits(X, 30u, 5u) + extractBits(X, 40u, 3u); buf[6] = (X >> 4u) % 7u + X / 1000u; let pk = pack4xU8(vec4<u32>(1u, 2u, 3u, 260u)); buf[7] = pk + unpack4xU8(X).y;", func(b []uint32) {
		X := uint32(0x00F0ABCD)
		b[0] = uint32(RefClz(X)) + 32*100
		b[1] = uint32(RefCtz(X)) + 32*100
		b[2] = uint32(RefPopc(X)) + RefRev(X)
		b[3] = uint32(31-RefClz(X)) + uint32(RefCtz(X)) + 0xFFFFFFFF
		b[4] = (X >> 4 & 0xFF) + (X&0x0FFFFFFF | 0xF0000000)
		b[5] = (X >> 30) + 0
		b[6] = (X>>4)%7 + X/1000
		b[7] = (1 | 2<<8 | 3<<16 | (260&0xFF)<<24) + (X >> 8 & 0xFF)
	}},
	// ---- round 4: aggregate and vector shapes (single templates only; see pairHeavy) ----
	{"x-vec-compare-any-all-select", "i32", "", "let v = vec3<i32>(buf[0], buf[1], buf[2]); let w = vec3<i32>(buf[3], buf[4], buf[5]); let lt = v < w; buf[6] = select(0, 1, any(lt)); buf[7] = select(0, 1, all(v <= w)); let s = select(v, w, lt); buf[0] = s.x + s.y * 3 + s.z * 5;", func(b []uint32) {
		v := [3]int32{I(b[0]), I(b[1]), I(b[2])}
		w := [3]int32{I(b[3]), I(b[4]), I(b[5])}
		anyLt, allLe := false, true
		var s [3]int32
		for i := 0; i < 3; i++ {
			if v[i] < w[i] {
				anyLt = true
				s[i] = w[i]
			} else {
				s[i] = v[i]
			}
			if !(v[i] <= w[i]) {
				allLe = false
			}
		}
		b[6] = Bool(anyLt)
		b[7] = Bool(allLe)
		b[0] = uint32(s[0] + s[1]*3 + s[2]*5)
	}},
	{"x-array-of-arrays-local", "i32", "", "var a: array<array<i32, 2>, 3>; a[u32(buf[0]) % 3u][u32(buf[1]) & 1u] = buf[2]; a[1][0] += 7; var r = a[u32(buf[3]) % 3u]; r[1] -= 1; buf[4] = r[0]; buf[5] = r[1]; buf[6] = a[2][1]; buf[7] = a[1][0];", func(b []uint32) {
		var a [3][2]uint32
		a[b[0]%3][b[1]&1] = b[2]
		a[1][0] += 7
		r := a[b[3]%3]
		r[1]--
		b[4], b[5], b[6], b[7] = r[0], r[1], a[2][1], a[1][0]
	}},
	{"x-nested-struct-copy", "i32", "struct In { a: i32, b: vec2<i32> }\nstruct Out { x: i32, inner: In, arr: array<In, 2> }", "var o: Out; o.inner = In(buf[0], vec2<i32>(buf[1], buf[2])); o.arr[u32(buf[3]) & 1u] = o.inner; o.arr[1].b.y += 5; let c = o; o.inner.a = 99; o.arr[0].a -= 1; buf[4] = c.inner.a; buf[5] = c.arr[1].b.y; buf[6] = c.arr[0].a; buf[7] = o.inner.a + o.arr[0].a;", func(b []uint32) {
		type in struct{ a, bx, by uint32 }
		var inner in
		var arr [2]in
		inner = in{b[0], b[1], b[2]}
		arr[b[3]&1] = inner
		arr[1].by += 5
		cInner, cArr := inner, arr
		inner.a = 99
		arr[0].a--
		b[4], b[5], b[6], b[7] = cInner.a, cArr[1].by, cArr[0].a, inner.a+arr[0].a
	}},
	{"x-switch-default-shares-clause", "i32", "", "var r = 0; switch buf[0] { case 1, 2: { r = 10; } case 3, default: { r = 20; if buf[1] > 0 { break; } r = 30; } case 4: { r = 40; } } buf[2] = r; var q = 1; switch buf[3] { default: { q = 2; } case 7: { q = 3; } } buf[4] = q;", func(b []uint32) {
		var r uint32
		switch I(b[0]) {
		case 1, 2:
			r = 10
		case 4:
			r = 40
		default:
			r = 20
			if I(b[1]) <= 0 {
				r = 30
			}
		}
		b[2] = r
		if I(b[3]) == 7 {
			b[4] = 3
		} else {
			b[4] = 2
		}
	}},
	{"x-vector-arith-splat-compound", "u32", "", "var v = vec4<u32>(buf[0], buf[1], buf[2], buf[3]); v += vec4<u32>(1u); v = v * 2u; v.y = v.x ^ v.w; v = 3u + v; let h = v.zw - v.xy; v[u32(buf[4]) & 3u] = 9u; buf[4] = v.x; buf[5] = v.y + v.z * 2u + v.w * 4u; buf[6] = h.x; buf[7] = h.y;", func(b []uint32) {
		v := [4]uint32{b[0], b[1], b[2], b[3]}
		for i := range v {
			v[i] = (v[i] + 1) * 2
		}
		v[1] = v[0] ^ v[3]
		for i := range v {
			v[i] += 3
		}
		h0, h1 := v[2]-v[0], v[3]-v[1]
		v[b[4]&3] = 9
		b[4], b[5], b[6], b[7] = v[0], v[1]+v[2]*2+v[3]*4, h0, h1
	}},
	{"x-module-const-array-dynamic-index", "i32", "const T = array<i32, 4>(3, 1, 4, 1);\nconst V = vec4<i32>(2, 7, 1, 8);", "buf[1] = T[u32(buf[0]) & 3u]; buf[2] = V[u32(buf[0]) & 3u]; let t = T; buf[3] = t[u32(buf[4]) & 3u] + T[2]; var s = 0; for (var i = 0u; i < 4u; i++) { s = s * 2 + T[i]; } buf[5] = s;", func(b []uint32) {
		T := [4]uint32{3, 1, 4, 1}
		V := [4]uint32{2, 7, 1, 8}
		b[1] = T[b[0]&3]
		b[2] = V[b[0]&3]
		b[3] = T[b[4]&3] + 4
		b[5] = ((3*2+1)*2+4)*2 + 1
	}},
	{"x-let-pointer-to-element", "i32", "struct P { k: i32, v: vec2<i32> }", "var a: array<i32, 4>; let p = &a[u32(buf[0]) & 3u]; *p = buf[1]; a[0] += 1; buf[2] = *p; buf[3] = a[0]; var s: P; let q = &s.v; (*q).y = buf[4]; (*q).x = (*q).y + 1; s.k = s.v.x * 2; buf[5] = s.k; buf[6] = s.v.y;", func(b []uint32) {
		var a [4]uint32
		i := b[0] & 3
		a[i] = b[1]
		a[0]++
		b[2], b[3] = a[i], a[0]
		vy := b[4]
		vx := vy + 1
		b[5], b[6] = vx*2, vy
	}},
	{"x-bool-conversions-and-increment", "i32", "", "let c = bool(buf[0]); buf[1] = i32(c); buf[2] = i32(u32(buf[3]) > 5u); buf[4] = i32(!c || bool(buf[5])); var i = buf[6]; i++; i++; i--; buf[6] = i; let bv = vec2<bool>(c, buf[5] != 0); let iv = vec2<i32>(bv); buf[7] = iv.x * 2 + iv.y + i32(u32(c));", func(b []uint32) {
		c := b[0] != 0
		b[1] = Bool(c)
		b[2] = Bool(b[3] > 5)
		b[4] = Bool(!c || b[5] != 0)
		b[6] = b[6] + 1
		b[7] = Bool(c)*2 + Bool(b[5] != 0) + Bool(c)
	}},
}

// BinAsTemplate turns an integer binary operator into a template: buf[2] = buf[0] OP buf[1].
func BinAsTemplate(t BinTemplate, signed bool) Template {
	ty := "u32"
	if signed {
		ty = "i32"
	}
	return Template{Name: "binary-" + ty + "-" + t.Op, Ty: ty, Body: "buf[2] = buf[0] " + t.Op + " buf[1];", Ref: func(b []uint32) {
		if signed {
			b[2] = uint32(t.I32(int32(b[0]), int32(b[1])))
		} else {
			b[2] = t.U32(b[0], b[1])
		}
	}}
}

// ---- templates over workgroup memory and invocation builtins ----
// They are executed for local invocation (0,0,0) of an ARBITRARY workgroup (symbolic
// workgroup id) with ARBITRARY stale contents in workgroup memory: WGSL prescribes that every
// var<workgroup> starts zero-initialised in every workgroup.

var WG [3]uint32 // workgroup id of the invocation under evaluation (set by the runner)

var TemplatesW = []Template{
	{"wg-large-array-read-before-write", "u32", "var<workgroup> tile: array<u32, 300>; var<workgroup> cnt: u32;",
		"buf[0] = tile[299] + tile[3] + cnt; tile[5] = buf[1]; buf[2] = tile[5] + tile[256]; buf[3] = tile[255] + 1u;", func(b []uint32) {
			b[0] = 0
			b[2] = b[1]
			b[3] = 1
		}},
	{"wg-struct-and-small-array", "i32", "struct P { a: i32, b: vec2<i32>, c: array<i32, 3> } var<workgroup> p: P; var<workgroup> q: array<vec2<i32>, 2>;",
		"buf[0] = p.a + p.b.y + p.c[2] + q[1].x; p.c[1] = buf[1]; buf[2] = p.c[1] - p.c[0]; buf[3] = q[0].y + 7;", func(b []uint32) {
			b[0] = 0
			b[2] = b[1]
			b[3] = 7
		}},
	{"wg-builtins-in-struct-arg", "u32", "struct In { @builtin(global_invocation_id) gid: vec3<u32>, @builtin(workgroup_id) wid: vec3<u32> } var<workgroup> acc: array<u32, 4>;",
		"#args in: In#buf[0] = acc[in.gid.x & 3u] + in.wid.x; buf[1] = in.gid.y + acc[1]; acc[2] = in.wid.z; buf[2] = acc[2] + acc[3];", func(b []uint32) {
			b[0] = WG[0]
			b[1] = WG[1]
			b[2] = WG[2]
		}},
	{"wg-builtins-direct-args", "u32", "var<workgroup> acc: array<u32, 4>;",
		"#args @builtin(local_invocation_id) lid: vec3<u32>, @builtin(workgroup_id) wid: vec3<u32>, @builtin(local_invocation_index) li: u32#buf[0] = acc[lid.x] + wid.y + li; acc[1] = wid.x; buf[1] = acc[1] + acc[0];", func(b []uint32) {
			b[0] = WG[1]
			b[1] = WG[0]
		}},
	{"wg-pointer-param", "u32", "var<workgroup> slots: array<u32, 4>; fn add(p: ptr<workgroup, array<u32, 4>>, i: u32, v: u32) -> u32 { let old = (*p)[i]; (*p)[i] = old + v; return old; }",
		"let a = add(&slots, 1u, buf[0]); let b = add(&slots, 1u, 3u); buf[1] = a; buf[2] = b; buf[3] = slots[1] + slots[2];", func(b []uint32) {
			b[1] = 0
			b[2] = b[0]
			b[3] = b[0] + 3
		}},
}

// Source renders a template as a WGSL module. A body that starts with
// "#args <params>#" declares entry-point parameters.
func Source(t Template) string {
	args, body := "", t.Body
	if len(body) > 6 && body[:6] == "#args " {
		for i := 6; i < len(body); i++ {
			if body[i] == '#' {
				args, body = body[6:i], body[i+1:]
				break
			}
		}
	}
	return fmt.Sprintf("@group(0) @binding(0) var<storage, read_write> buf: array<%s, 8>;\n%s\n@compute @workgroup_size(1) fn main(%s) {\n%s\n}", t.Ty, t.Decl, args, body)
}

// Reference bit counting, written bit by bit / by binary search from the WGSL definitions (the
// evaluators use branch-free SWAR formulations, so agreement is checked by the solver).
func RefPopc(x uint32) int {
	n := uint32(0)
	for i := uint(0); i < 32; i++ {
		n += x >> i & 1
	}
	return int(n)
}

func RefRev(x uint32) uint32 {
	var r uint32
	for i := uint(0); i < 32; i++ {
		r |= (x >> i & 1) << (31 - i)
	}
	return r
}

func RefClz(x uint32) int {
	if x == 0 {
		return 32
	}
	n := 0
	if x>>16 == 0 {
		n += 16
		x <<= 16
	}
	if x>>24 == 0 {
		n += 8
		x <<= 8
	}
	if x>>28 == 0 {
		n += 4
		x <<= 4
	}
	if x>>30 == 0 {
		n += 2
		x <<= 2
	}
	if x>>31 == 0 {
		n++
	}
	return n
}

func RefCtz(x uint32) int {
	if x == 0 {
		return 32
	}
	return 31 - RefClz(x&-x)
}

// ProbeNames are the templates every other template is sequentially composed with in the
// thorough tier ({ body1 } { body2 }: statement-to-statement interactions such as baked
// temporaries, helper emission and naming across statements). Loop probes are left out: a
// loop after a loop squares the unrolled path formula and the solver runs past its budget.
var ProbeNames = []string{"struct-array-local", "helper-call", "switch", "compound-assign", "dynamic-index", "pointer-arg", "if-else"}

// pairHeavy: templates whose meaning is a deep arithmetic term (bit counting, packing, dot
// products); composing them adds nothing to the statement-interaction purpose of the pairs
// and their queries time out when a second template's term is stacked on top. They are
// decided singly by tv_templates. The "x-" templates (round 4: aggregates, vectors, constant
// tables) are also decided singly only: they were added without time to budget their pairs.
func pairHeavy(name string) bool {
	for _, p := range []string{"bits-", "pack-", "dot-", "constant-expressions-bits", "x-"} {
		if len(name) >= len(p) && name[:len(p)] == p {
			return true
		}
	}
	return false
}

// pairExcluded: compositions whose queries ran past the solver budget (120 s) on the
// unchanged tree: two dynamic-index clamps stacked on a pointer-argument call.
func pairExcluded(a, b string) bool {
	return (a == "dynamic-index" && b == "pointer-arg") || (a == "pointer-arg" && b == "dynamic-index")
}

// Pairs returns the sequential compositions t1;t2 of every template with every probe of the
// same element type (at most one of the two may have module-scope declarations).
func Pairs() []Template {
	var out []Template
	for _, a := range TemplatesA {
		for _, pn := range ProbeNames {
			var b Template
			for _, t := range TemplatesA {
				if t.Name == pn {
					b = t
				}
			}
			if b.Name == "" || b.Ty != a.Ty || (a.Decl != "" && b.Decl != "") || a.Name == b.Name || pairHeavy(a.Name) || pairExcluded(a.Name, b.Name) {
				continue
			}
			if len(a.Body) > 5 && a.Body[:6] == "#args " {
				continue
			}
			ra, rb := a.Ref, b.Ref
			out = append(out, Template{Name: a.Name + "+" + b.Name, Ty: a.Ty, Decl: a.Decl + b.Decl,
				Body: "{ " + a.Body + " }\n{ " + b.Body + " }", Ref: func(w []uint32) { ra(w); rb(w) }})
		}
	}
	return out
}
