//go:build verif

package naga

import (
	"github.com/gogpu/naga/internal/zzspv"
	"github.com/gogpu/naga/internal/zztpl"
	zz "github.com/gogpu/naga/internal/zzverif"
	"github.com/gogpu/naga/spirv"
)

// Structural validity (C02) of what the real pipeline emits: the universal block / merge /
// branch / id rules of zzspv.CheckStructure hold for every template program under each option
// set, and for image loads and stores on every texture shape under every bounds-check policy
// (the policies wrap the access in conditional code).

func zzCheckSPIRVStructure(src string, opts spirv.Options, what string) {
	ast, err := Parse(src)
	if err != nil {
		zz.Reach("rejected")
		return
	}
	mod, err := LowerWithSource(ast, src)
	if err != nil {
		zz.Reach("rejected")
		return
	}
	out, err := GenerateSPIRV(mod, opts)
	if err != nil {
		zz.Reach("rejected")
		return
	}
	for _, p := range zzspv.CheckStructure(out) {
		zz.Fail("emitted SPIR-V is structurally invalid (" + what + "): " + p)
	}
	zz.Reach("end")
}

func ZZ_C02_structure_templates() {
	all := append([]zztpl.Template{}, zztpl.TemplatesA...)
	all = append(all, zztpl.TemplatesW...)
	t := all[zz.Choice("template", len(all))]
	zz.Cell(t.Name)
	o := spirv.DefaultOptions()
	switch zz.Choice("options", 3) {
	case 1:
		o.Debug = true
	case 2:
		o.Version = spirv.Version1_5
	}
	zzCheckSPIRVStructure(zztpl.Source(t), o, t.Name)
}

var zzImagePrograms = []struct{ name, decl, body string }{
	{"load-2d", "@group(0) @binding(1) var t: texture_2d<f32>;", "let v = textureLoad(t, vec2<i32>(i32(buf[0]), 1), i32(buf[1])); buf[2] = u32(v.x);"},
	{"load-2d-array", "@group(0) @binding(1) var t: texture_2d_array<f32>;", "let v = textureLoad(t, vec2<i32>(i32(buf[0]), 1), i32(buf[1]), 0); buf[2] = u32(v.x);"},
	{"load-3d", "@group(0) @binding(1) var t: texture_3d<f32>;", "let v = textureLoad(t, vec3<i32>(i32(buf[0]), 1, 2), 0); buf[2] = u32(v.x);"},
	{"load-multisampled", "@group(0) @binding(1) var t: texture_multisampled_2d<f32>;", "let v = textureLoad(t, vec2<i32>(i32(buf[0]), 1), i32(buf[1])); buf[2] = u32(v.x);"},
	{"load-depth", "@group(0) @binding(1) var t: texture_depth_2d;", "let v = textureLoad(t, vec2<i32>(i32(buf[0]), 1), 0); buf[2] = u32(v);"},
	{"load-storage", "@group(0) @binding(1) var t: texture_storage_2d<r32uint, read_write>;", "let v = textureLoad(t, vec2<i32>(i32(buf[0]), 1)); buf[2] = v.x;"},
	{"store-storage", "@group(0) @binding(1) var t: texture_storage_2d<rgba8unorm, write>;", "textureStore(t, vec2<i32>(i32(buf[0]), 1), vec4<f32>(1.0));"},
	{"load-in-branch-and-loop", "@group(0) @binding(1) var t: texture_2d<f32>;", "var s = 0u; for (var i = 0u; i < 2u; i++) { if (buf[i] > 3u) { s += u32(textureLoad(t, vec2<i32>(i32(i), 0), 0).x); } } buf[2] = s;"},
}

func ZZ_C02_structure_image_bounds_checks() {
	p := zzImagePrograms[zz.Choice("program", len(zzImagePrograms))]
	o := spirv.DefaultOptions()
	o.BoundsCheckPolicies.ImageLoad = spirv.BoundsCheckPolicy(zz.Choice("image-load-policy", 3))
	o.BoundsCheckPolicies.ImageStore = spirv.BoundsCheckPolicy(zz.Choice("image-store-policy", 3))
	zz.Cell(p.name)
	src := "@group(0) @binding(0) var<storage, read_write> buf: array<u32, 8>;\n" + p.decl + "\n@compute @workgroup_size(1) fn main() {\n" + p.body + "\n}"
	zzCheckSPIRVStructure(src, o, p.name)
}
