//go:build verif

package codegen

import (
	zz "github.com/gogpu/naga/internal/zzverif"
	"github.com/gogpu/naga/ir"
)

// Remap completeness of the MSL pipeline-constant pass (its own copy of the remappers).
func ZZ_C13_msl_adjust_expressions() {
	k := zz.Choice("kind", ir.ZZNumHavocExprs)
	// ExprAlias (6) and ExprPhi (7) exist only inside the DXIL pass pipeline
	zz.Assume(k != 6 && k != 7)
	table, raw := ir.ZZHandleTable(4)
	e := ir.ZZHavocExpr(k)
	want := zz.MapHandles(ir.Expression{Kind: e}, "ir.ExpressionHandle", raw)
	got := ir.Expression{Kind: adjustExprHandles(e, table)}
	zz.Assert(zz.SameState(got, want), "MSL pipeline-constant remapper: an expression handle was not mapped (or something else changed)")
	zz.Reach("end")
}

func ZZ_C13_msl_adjust_statements() {
	k := zz.Choice("kind", ir.ZZNumHavocStmts)
	table, raw := ir.ZZHandleTable(4)
	st := ir.Statement{Kind: ir.ZZHavocStmt(k)}
	want := zz.MapHandles(st, "ir.ExpressionHandle", raw)
	out := adjustBlockHandles(ir.Block{st}, table, nil)
	zz.Assert(len(out) == 1, "a non-emit statement was dropped or duplicated")
	if len(out) == 1 {
		zz.Assert(zz.SameState(out[0], want), "MSL pipeline-constant remapper: a statement handle was not mapped (or something else changed)")
	}
	zz.Reach("end")
}
