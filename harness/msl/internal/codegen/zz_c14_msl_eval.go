//go:build verif

package codegen

import (
	zz "github.com/gogpu/naga/internal/zzverif"
	"github.com/gogpu/naga/ir"
)

// The MSL backend has its own evaluator for pipeline constants. For i32/u32/f32 operands and
// + - * / it must give the typed WGSL result (integers: no overflow, truncated division;
// f32: correctly rounded), for every operand value.
func ZZ_C14_msl_eval_binary() {
	op := []ir.BinaryOperator{ir.BinaryAdd, ir.BinarySubtract, ir.BinaryMultiply, ir.BinaryDivide}[zz.Choice("op", 4)]
	ty := zz.Choice("type", 3) // 0 i32, 1 u32, 2 f32
	switch ty {
	case 0:
		a, b := zz.I32("a"), zz.I32("b")
		if op == ir.BinaryMultiply {
			a, b = int32(zz.I16("a16")), int32(zz.I16("b16")) // bound: 16-bit operands for the float multiplier
		}
		var want int64
		switch op {
		case ir.BinaryAdd:
			want = int64(a) + int64(b)
		case ir.BinarySubtract:
			want = int64(a) - int64(b)
		case ir.BinaryMultiply:
			want = int64(a) * int64(b)
		default:
			zz.Assume(b != 0)
			want = int64(a) / int64(b)
		}
		zz.Assume(want == int64(int32(want)))
		got := evalBinaryOp(op, ir.LiteralI32(a), ir.LiteralI32(b))
		zz.Assert(got != nil && zz.Same(got, ir.LiteralValue(ir.LiteralI32(int32(want)))), "MSL pipeline-constant evaluator: i32 result differs from WGSL")
	case 1:
		a, b := zz.U32("a"), zz.U32("b")
		if op == ir.BinaryMultiply {
			a, b = uint32(zz.U16("a16")), uint32(zz.U16("b16"))
		}
		var want uint64
		ok := true
		switch op {
		case ir.BinaryAdd:
			want = uint64(a) + uint64(b)
		case ir.BinarySubtract:
			ok = a >= b
			want = uint64(a - b)
		case ir.BinaryMultiply:
			want = uint64(a) * uint64(b)
		default:
			zz.Assume(b != 0)
			want = uint64(a / b)
		}
		zz.Assume(ok && want <= 0xFFFFFFFF)
		got := evalBinaryOp(op, ir.LiteralU32(a), ir.LiteralU32(b))
		zz.Assert(got != nil && zz.Same(got, ir.LiteralValue(ir.LiteralU32(uint32(want)))), "MSL pipeline-constant evaluator: u32 result differs from WGSL")
	default:
		a, b := zz.F32("a"), zz.F32("b")
		zz.Assume(a == a && b == b && a-a == 0 && b-b == 0)
		var want float32
		switch op {
		case ir.BinaryAdd:
			want = float32(float64(a) + float64(b))
		case ir.BinarySubtract:
			want = float32(float64(a) - float64(b))
		case ir.BinaryMultiply:
			want = float32(float64(a) * float64(b))
		default:
			zz.Assume(b != 0)
			want = float32(float64(a) / float64(b))
		}
		got := evalBinaryOp(op, ir.LiteralF32(a), ir.LiteralF32(b))
		zz.Assert(got != nil && zz.Same(got, ir.LiteralValue(ir.LiteralF32(want))), "MSL pipeline-constant evaluator: f32 result differs from WGSL")
	}
	zz.Reach("end")
}
