//go:build verif

package codegen

import (
	zz "github.com/gogpu/naga/internal/zzverif"
	"github.com/gogpu/naga/ir"
)

// The resource map used for an entry point depends only on (options, module, entry-point name):
// whatever map an earlier entry point left in the writer (arbitrary content), the map computed
// for this entry point equals the one a fresh writer computes. Explicit map present / absent x
// FakeMissingBindings on / off, binding numbers symbolic.
func ZZ_C17_msl_resource_map_history_free() {
	mapped := zz.Flag("entryHasExplicitMap")
	fake := zz.Flag("fakeMissingBindings")
	g0, b0 := zz.U32("group0"), zz.U32("binding0")
	g1, b1 := zz.U32("group1"), zz.U32("binding1")
	slot := zz.U8("slot")
	m := &ir.Module{Types: []ir.Type{{Inner: ir.ScalarType{Kind: ir.ScalarUint, Width: 4}}},
		GlobalVariables: []ir.GlobalVariable{
			{Name: "a", Space: ir.SpaceStorage, Type: 0, Binding: &ir.ResourceBinding{Group: g0, Binding: b0}},
			{Name: "b", Space: ir.SpaceUniform, Type: 0, Binding: &ir.ResourceBinding{Group: g1, Binding: b1}},
		}}
	zz.Assume(!(g0 == g1 && b0 == b1))
	mkOpts := func() *Options {
		o := &Options{FakeMissingBindings: fake}
		o.PerEntryPointMap = map[string]EntryPointResources{
			"other": {Resources: map[ir.ResourceBinding]BindTarget{{Group: g0, Binding: b0}: {Buffer: &slot}}},
		}
		if mapped {
			s2 := slot + 1
			o.PerEntryPointMap["main"] = EntryPointResources{Resources: map[ir.ResourceBinding]BindTarget{{Group: g1, Binding: b1}: {Buffer: &s2}}}
		}
		return o
	}
	used := newWriter(m, mkOpts(), &PipelineOptions{})
	zz.Havoc("prev", &used.currentResourceMap) // what the previously written entry point left behind
	used.computeResourceMap("main")
	fresh := newWriter(m, mkOpts(), &PipelineOptions{})
	fresh.computeResourceMap("main")
	zz.Assert(zz.SameState(used.currentResourceMap, fresh.currentResourceMap), "resource map of an entry point depends on the entry point written before it")
	zz.Reach("end")
}
