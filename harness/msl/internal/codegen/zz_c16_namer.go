//go:build verif

package codegen

import (
	zz "github.com/gogpu/naga/internal/zzverif"
)

// A reference list of words that are certainly reserved in MSL (keywords, types, intrinsics
// that naga emits unqualified) - compiled from the MSL reference, independent of keywords.go.
var zzMSLReserved = []string{"if", "do", "for", "int", "bool", "uint", "void", "case", "else", "true", "main", "float", "half", "char", "short", "long",
	"break", "while", "const", "false", "return", "struct", "switch", "double", "default", "continue", "class", "template", "typename",
	"using", "namespace", "kernel", "vertex", "fragment", "device", "constant", "thread", "threadgroup", "sampler", "unsigned",
	"signed", "static", "inline", "new", "delete", "this", "operator", "auto", "enum", "union", "goto", "typedef", "sizeof",
	"volatile", "register", "extern", "friend", "private", "public", "protected", "virtual", "try", "catch", "throw", "nullptr",
	"float4", "int2", "uint3", "half4", "float4x4", "texture2d", "metal", "and", "or", "not", "xor", "bitand", "bitor",
	"compl", "export", "mutable", "explicit", "constexpr", "decltype", "noexcept", "alignas", "alignof", "asm", "wchar_t",
	"char16_t", "char32_t", "static_assert", "thread_local", "uchar", "ushort", "size_t", "ptrdiff_t", "atomic_uint", "atomic_int",
	// <metal_math> macros
	"M_PI", "M_PI_2", "M_PI_4", "M_1_PI", "M_2_PI", "M_E", "M_LN2", "M_LN10", "M_LOG2E", "M_SQRT2", "M_SQRT1_2"}

func zzIsIdent(s string) bool {
	if len(s) == 0 {
		return false
	}
	ok := true
	for i := 0; i < len(s); i++ {
		c := s[i]
		letter := (c >= 'a' && c <= 'z') || (c >= 'A' && c <= 'Z') || c == '_'
		digit := c >= '0' && c <= '9'
		if !(letter || (digit && i > 0)) {
			ok = false
		}
	}
	return ok
}

// zzLabel returns a symbolic label of length n that is a WGSL identifier over ASCII
// ([A-Za-z_][A-Za-z0-9_]*, not "_", not starting with "__"); n == 0 gives the empty label
// (anonymous entity).
func zzLabel(name string, n int) string {
	s := zz.Str(name, n)
	for i := 0; i < n; i++ {
		c := s[i]
		letter := (c >= 'a' && c <= 'z') || (c >= 'A' && c <= 'Z') || c == '_'
		digit := c >= '0' && c <= '9'
		zz.Assume(letter || (digit && i > 0))
	}
	if n == 1 {
		zz.Assume(s[0] != '_')
	}
	if n >= 2 {
		zz.Assume(!(s[0] == '_' && s[1] == '_'))
	}
	return s
}

func zzCheckName(got string, what string) {
	zz.Assert(zzIsIdent(got), what+": not a legal MSL identifier")
	for _, kw := range zzMSLReserved {
		zz.Assert(got != kw, what+": emitted name is a reserved MSL word")
	}
	zz.Assert(got != "naga_div" && got != "naga_mod" && got != "naga_abs" && got != "naga_neg" && got != "naga_f2i32" && got != "naga_f2u32",
		what+": emitted name equals a naga helper name")
}

// U1: two user labels (every ASCII content of length 0..3 / 0..2) named in one scope get
// distinct, legal, non-reserved spellings.
func ZZ_C16_msl_namer_pair() {
	n1 := zz.Choice("len1", 4)
	n2 := zz.Choice("len2", 3)
	l1, l2 := zzLabel("a", n1), zzLabel("b", n2)
	nm := newNamer()
	r1 := nm.call(l1)
	r2 := nm.call(l2)
	zzCheckName(r1, "first name")
	zzCheckName(r2, "second name")
	zz.Assert(r1 != r2, "two entities in one scope received the same spelling")
	zz.Reach("end")
}

// U1b: the trailing-underscore / trailing-digit family: labels over the alphabet {a, 1, _}
// up to length 4, three calls in one scope (x, y, x again): all spellings distinct.
func ZZ_C16_msl_namer_suffix_family() {
	mk := func(name string, n int) string {
		s := zz.Str(name, n)
		for i := 0; i < n; i++ {
			zz.Assume(s[i] == 'a' || (s[i] == '1' && i > 0) || s[i] == '_')
		}
		if n == 1 {
			zz.Assume(s[0] != '_')
		}
		if n >= 2 {
			zz.Assume(!(s[0] == '_' && s[1] == '_'))
		}
		return s
	}
	l1 := mk("a", zz.Choice("len1", 4)+1)
	l2 := mk("b", zz.Choice("len2", 4)+1)
	nm := newNamer()
	r1, r2, r3 := nm.call(l1), nm.call(l2), nm.call(l1)
	zz.Assert(zzIsIdent(r1) && zzIsIdent(r2) && zzIsIdent(r3), "not a legal identifier")
	zz.Assert(r1 != r2 && r1 != r3 && r2 != r3, "two entities in one scope received the same spelling")
	zz.Reach("end")
}

// U1c: one label (every identifier of length 1..4) given to three entities of one scope: the
// suffixed spellings must not run into a reserved word either (M_PI -> M_PI_, M_PI_1, M_PI_2).
func ZZ_C16_msl_namer_repeated_label() {
	l := zzLabel("a", zz.Choice("len", 4)+1)
	nm := newNamer()
	r1, r2, r3 := nm.call(l), nm.call(l), nm.call(l)
	zzCheckName(r1, "first use")
	zzCheckName(r2, "second use")
	zzCheckName(r3, "third use")
	zz.Assert(r1 != r2 && r1 != r3 && r2 != r3, "two entities in one scope received the same spelling")
	zz.Reach("end")
}
