//go:build verif

package codegen

import (
	"fmt"

	zz "github.com/gogpu/naga/internal/zzverif"
	"github.com/gogpu/naga/ir"
)

// The pass-through-globals analysis (memoised, transitive over the call graph) terminates
// for EVERY call graph over three helper functions with up to two calls each - including
// self-calls and cycles, which WGSL forbids but which the back end must survive (C10: no
// stack overflow, no hang) - and on acyclic graphs it returns exactly the globals reachable
// through calls.
func ZZ_C10_msl_passthrough_terminates() {
	const nf = 3
	mod := &ir.Module{GlobalVariables: []ir.GlobalVariable{
		{Name: "g0", Space: ir.SpaceWorkGroup}, {Name: "g1", Space: ir.SpaceFunction}, {Name: "g2", Space: ir.SpaceWorkGroup},
	}}
	var calls [nf][]int
	var uses [nf]int
	user := zz.Choice("user", nf)  // the one helper that uses a global directly ...
	which := zz.Choice("which", 3) // ... and which global (g1 is in function space: never passed through)
	for i := 0; i < nf; i++ {
		var body ir.Block
		for k := 0; k < 2; k++ {
			c := zz.Choice(fmt.Sprintf("f%d-call%d", i, k), nf+1)
			if c < nf {
				st := ir.Statement{Kind: ir.StmtCall{Function: ir.FunctionHandle(c)}}
				if k == 1 { // second call sits in a nested construct
					st = ir.Statement{Kind: ir.StmtIf{Accept: ir.Block{st}}}
				}
				body = append(body, st)
				calls[i] = append(calls[i], c)
			}
		}
		uses[i] = 3 // none
		if i == user {
			uses[i] = which
		}
		var exprs []ir.Expression
		if uses[i] < 3 {
			exprs = append(exprs, ir.Expression{Kind: ir.ExprGlobalVariable{Variable: ir.GlobalVariableHandle(uses[i])}})
		}
		mod.Functions = append(mod.Functions, ir.Function{Name: fmt.Sprintf("f%d", i), Body: body, Expressions: exprs})
	}
	w := &Writer{module: mod, funcPassThroughGlobals: map[ir.FunctionHandle][]uint32{}}
	zz.Bounded(2_000_000, 200, "MSL pass-through-globals analysis does not terminate on a cyclic call graph (stack overflow in msl.Compile)")
	w.analyzeFuncPassThroughGlobals()
	zz.Bounded(0, 0, "")
	// acyclic graphs: exact transitive closure
	acyclic := true
	for i := 0; i < nf; i++ {
		for _, c := range calls[i] {
			if c <= i {
				acyclic = false
			}
		}
	}
	if acyclic {
		for i := nf - 1; i >= 0; i-- {
			var want [3]bool
			var visit func(f int)
			visit = func(f int) {
				if uses[f] < 3 && needsPassThrough(mod.GlobalVariables[uses[f]].Space) {
					want[uses[f]] = true
				}
				for _, c := range calls[f] {
					visit(c)
				}
			}
			visit(i)
			got := w.funcPassThroughGlobals[ir.FunctionHandle(i)]
			var have [3]bool
			for _, h := range got {
				if h < 3 {
					have[h] = true
				}
			}
			zz.Assert(have == want, "pass-through globals of a helper differ from the globals reachable through its calls")
			for k := 1; k < len(got); k++ {
				zz.Assert(got[k-1] < got[k], "pass-through globals are not in declaration order")
			}
		}
	}
	zz.Reach("end")
}
