//go:build verif

package codegen

import (
	zz "github.com/gogpu/naga/internal/zzverif"
	"github.com/gogpu/naga/ir"
)

// Hardened-operator helpers (naga_abs, naga_neg) are emitted once per registered
// (scalar kind, scalar width, vector size): after any two registrations every requested
// signature must have a helper of exactly that type (otherwise the call binds, by implicit
// conversion, to a helper of another width and computes a different value) and no signature
// is emitted twice.
func ZZ_C04_msl_helper_registry() {
	which := zz.Choice("helper", 2)
	mk := func(n string) (ir.ScalarType, ir.VectorSize) {
		k := ir.ScalarKind(zz.U8(n + "kind"))
		w := zz.U8(n + "width")
		v := ir.VectorSize(zz.U8(n + "vec"))
		zz.Assume((w == 4 || w == 8) && (v == 0 || (v >= 2 && v <= 4)) && k <= 4)
		return ir.ScalarType{Kind: k, Width: w}, v
	}
	s1, v1 := mk("a_")
	s2, v2 := mk("b_")
	w := newWriter(&ir.Module{}, &Options{}, &PipelineOptions{})
	var list []absHelper
	if which == 0 {
		w.registerAbsHelper(s1, v1)
		w.registerAbsHelper(s2, v2)
		list = w.absHelpers
	} else {
		w.registerNegHelper(s1, v1)
		w.registerNegHelper(s2, v2)
		list = w.negHelpers
	}
	has := func(s ir.ScalarType, v ir.VectorSize) int {
		n := 0
		for _, h := range list {
			if h.scalar == s && h.vecSize == v {
				n++
			}
		}
		return n
	}
	zz.Assert(has(s1, v1) == 1, "first requested helper signature missing or duplicated")
	zz.Assert(has(s2, v2) == 1, "second requested helper signature missing (a call of this type would bind to a helper of another type) or duplicated")
	same := s1 == s2 && v1 == v2
	if same {
		zz.Assert(len(list) == 1, "one signature registered twice")
	} else {
		zz.Assert(len(list) == 2, "helper count")
	}
	zz.Reach("end")
}
