//go:build verif

package naga

import (
	"fmt"

	"github.com/gogpu/naga/internal/zzspv"
	zz "github.com/gogpu/naga/internal/zzverif"
	"github.com/gogpu/naga/spirv"
)

// Translation validation of the real pipeline (Parse -> LowerWithSource -> Validate ->
// GenerateSPIRV): a template program is compiled, the emitted SPIR-V is executed by the
// reference executor on SYMBOLIC buffer contents, and the final buffer is compared with the
// WGSL meaning of the template (a Go closure written from the WGSL specification).

const zzBufWords = 8

// zzCompileAndRun compiles src and runs its entry point on the given initial buffer words
// (binding 0 of group 0: array<i32|u32|f32, 8>). Returns the final buffer words.
func zzCompileAndRun(src string, in []uint32, opts spirv.Options) ([]uint32, bool) {
	ast, err := Parse(src)
	zz.Assert(err == nil, "template does not parse: "+src)
	if err != nil {
		return nil, false
	}
	mod, err := LowerWithSource(ast, src)
	zz.Assert(err == nil, "template does not lower: "+src)
	if err != nil {
		return nil, false
	}
	verrs, err := Validate(mod)
	zz.Assert(err == nil && len(verrs) == 0, "template rejected by the validator: "+src)
	out, err := GenerateSPIRV(mod, opts)
	zz.Assert(err == nil, "SPIR-V backend rejected the template: "+src)
	if err != nil {
		return nil, false
	}
	ex, ok := zzspv.NewExec(out)
	zz.Assert(ok, "emitted SPIR-V is not a well-formed instruction stream")
	if !ok {
		return nil, false
	}
	res := ex.RunEntry(map[[2]uint32][]uint32{{0, 0}: in})
	buf, ok := res[[2]uint32{0, 0}]
	zz.Assert(ok, "storage buffer (group 0, binding 0) not found in the emitted module")
	if !ok {
		return nil, false
	}
	return zzspv.Flatten(buf, nil), true
}

func zzInputs() []uint32 {
	in := make([]uint32, zzBufWords)
	for i := range in {
		in[i] = zz.U32(fmt.Sprintf("buf%d", i))
	}
	return in
}

func zzOptions() spirv.Options {
	o := spirv.DefaultOptions()
	switch zz.Choice("options", 3) {
	case 1:
		o.Debug = true
	case 2:
		o.Version = spirv.Version1_5
	}
	return o
}

type zzBinTemplate struct {
	op  string
	i32 func(a, b int32) int32
	u32 func(a, b uint32) uint32
}

func zzShiftAmount(b uint32) uint32 { return b & 31 }

var zzBinTemplates = []zzBinTemplate{
	{"+", func(a, b int32) int32 { return a + b }, func(a, b uint32) uint32 { return a + b }},
	{"-", func(a, b int32) int32 { return a - b }, func(a, b uint32) uint32 { return a - b }},
	{"*", func(a, b int32) int32 { return a * b }, func(a, b uint32) uint32 { return a * b }},
	{"/", func(a, b int32) int32 {
		if b == 0 || (a == -2147483648 && b == -1) {
			return a
		}
		return a / b
	}, func(a, b uint32) uint32 {
		if b == 0 {
			return a
		}
		return a / b
	}},
	{"%", func(a, b int32) int32 {
		if b == 0 || (a == -2147483648 && b == -1) {
			return 0
		}
		return a % b
	}, func(a, b uint32) uint32 {
		if b == 0 {
			return 0
		}
		return a % b
	}},
	{"&", func(a, b int32) int32 { return a & b }, func(a, b uint32) uint32 { return a & b }},
	{"|", func(a, b int32) int32 { return a | b }, func(a, b uint32) uint32 { return a | b }},
	{"^", func(a, b int32) int32 { return a ^ b }, func(a, b uint32) uint32 { return a ^ b }},
}

// T1: buf[2] = buf[0] OP buf[1] for the integer arithmetic/bitwise operators on i32 and u32.
func ZZ_C01_tv_integer_binary() {
	t := zzBinTemplates[zz.Choice("op", len(zzBinTemplates))]
	signed := zz.Flag("signed")
	ty := "u32"
	if signed {
		ty = "i32"
	}
	src := fmt.Sprintf(`@group(0) @binding(0) var<storage, read_write> buf: array<%s, 8>;
@compute @workgroup_size(1) fn main() { buf[2] = buf[0] %s buf[1]; }`, ty, t.op)
	in := zzInputs()
	out, ok := zzCompileAndRun(src, in, zzOptions())
	if ok {
		zz.Assert(len(out) == zzBufWords, "buffer size changed")
		var want uint32
		if signed {
			want = uint32(t.i32(int32(in[0]), int32(in[1])))
		} else {
			want = t.u32(in[0], in[1])
		}
		for i := range out {
			if i == 2 {
				zz.Assert(out[i] == want, "SPIR-V result of the integer operator differs from the WGSL value")
			} else {
				zz.Assert(out[i] == in[i], "a buffer element that the program does not write was modified")
			}
		}
	}
	zz.Reach("end")
}

// ---- general template table: WGSL body + its meaning as a Go function on the buffer ----

type zzTemplate struct {
	name string
	ty   string // element type of buf
	decl string // module-scope declarations (helpers, structs)
	body string // body of main
	ref  func(b []uint32)
}

func zzI(x uint32) int32 { return int32(x) }
func zzBool(c bool) uint32 {
	if c {
		return 1
	}
	return 0
}

func zzRunTemplate(t zzTemplate) {
	src := fmt.Sprintf("@group(0) @binding(0) var<storage, read_write> buf: array<%s, 8>;\n%s\n@compute @workgroup_size(1) fn main() {\n%s\n}", t.ty, t.decl, t.body)
	zz.Cell(t.name)
	in := zzInputs()
	want := append([]uint32(nil), in...)
	t.ref(want)
	out, ok := zzCompileAndRun(src, in, zzOptions())
	if ok {
		zz.Assert(len(out) == zzBufWords, "buffer size changed")
		for i := range out {
			zz.Assert(out[i] == want[i], "template "+t.name+": final buffer differs from the WGSL meaning")
		}
	}
	zz.Reach("end")
}

var zzTemplatesA = []zzTemplate{
	{"shl-i32", "i32", "", "buf[2] = buf[0] << u32(buf[1]);", func(b []uint32) { b[2] = b[0] << (b[1] & 31) }},
	{"shr-i32", "i32", "", "buf[2] = buf[0] >> u32(buf[1]);", func(b []uint32) { b[2] = uint32(zzI(b[0]) >> (b[1] & 31)) }},
	{"shl-u32", "u32", "", "buf[2] = buf[0] << buf[1];", func(b []uint32) { b[2] = b[0] << (b[1] & 31) }},
	{"shr-u32", "u32", "", "buf[2] = buf[0] >> buf[1];", func(b []uint32) { b[2] = b[0] >> (b[1] & 31) }},
	{"neg", "i32", "", "buf[2] = -buf[0];", func(b []uint32) { b[2] = -b[0] }},
	{"not", "u32", "", "buf[2] = ~buf[0];", func(b []uint32) { b[2] = ^b[0] }},
	{"select-lt", "i32", "", "buf[2] = select(buf[0], buf[1], buf[0] < buf[1]);", func(b []uint32) {
		if zzI(b[0]) < zzI(b[1]) {
			b[2] = b[1]
		} else {
			b[2] = b[0]
		}
	}},
	{"cmp-chain-u32", "u32", "", "buf[2] = u32(buf[0] <= buf[1]) + 2u * u32(buf[0] > buf[1]) + 4u * u32(buf[0] == buf[1]) + 8u * u32(buf[0] != buf[1]) + 16u * u32(buf[0] >= buf[1]);",
		func(b []uint32) {
			b[2] = zzBool(b[0] <= b[1]) + 2*zzBool(b[0] > b[1]) + 4*zzBool(b[0] == b[1]) + 8*zzBool(b[0] != b[1]) + 16*zzBool(b[0] >= b[1])
		}},
	{"cmp-chain-i32", "i32", "", "buf[2] = i32(buf[0] <= buf[1]) + 2 * i32(buf[0] > buf[1]) + 4 * i32(buf[0] < buf[1]) + 8 * i32(buf[0] >= buf[1]);",
		func(b []uint32) {
			x, y := zzI(b[0]), zzI(b[1])
			b[2] = zzBool(x <= y) + 2*zzBool(x > y) + 4*zzBool(x < y) + 8*zzBool(x >= y)
		}},
	{"if-else", "i32", "", "if (buf[0] > 3) { buf[2] = buf[0] - buf[1]; } else { buf[3] = buf[1] - buf[0]; }", func(b []uint32) {
		if zzI(b[0]) > 3 {
			b[2] = b[0] - b[1]
		} else {
			b[3] = b[1] - b[0]
		}
	}},
	{"short-circuit", "i32", "", "if (buf[0] > 0 && buf[1] / buf[0] > 2) { buf[2] = 1; } if (buf[0] == 0 || buf[1] % buf[0] == 0) { buf[3] = 1; }", func(b []uint32) {
		x, y := zzI(b[0]), zzI(b[1])
		div := func(p, q int32) int32 {
			if q == 0 || (p == -2147483648 && q == -1) {
				return p
			}
			return p / q
		}
		mod := func(p, q int32) int32 {
			if q == 0 || (p == -2147483648 && q == -1) {
				return 0
			}
			return p % q
		}
		if x > 0 && div(y, x) > 2 {
			b[2] = 1
		}
		if x == 0 || mod(y, x) == 0 {
			b[3] = 1
		}
	}},
	{"switch", "i32", "", "switch buf[0] { case 1: { buf[2] = 10; } case 2, 3: { buf[2] = 20; } default: { buf[2] = buf[1]; } }", func(b []uint32) {
		switch zzI(b[0]) {
		case 1:
			b[2] = 10
		case 2, 3:
			b[2] = 20
		default:
			b[2] = b[1]
		}
	}},
	{"for-sum", "u32", "", "var s = 0u; for (var i = 0u; i < 3u; i++) { s += buf[i] * (i + 1u); } buf[4] = s;", func(b []uint32) {
		b[4] = b[0]*1 + b[1]*2 + b[2]*3
	}},
	{"loop-break-continue", "u32", "", "var i = 0u; var s = 0u; loop { if (i >= 4u) { break; } if (buf[i] == 7u) { i++; continue; } s += buf[i]; i++; } buf[5] = s;", func(b []uint32) {
		var s uint32
		for i := 0; i < 4; i++ {
			if b[i] != 7 {
				s += b[i]
			}
		}
		b[5] = s
	}},
	{"while-nested-var", "u32", "", "for (var i = 0u; i < 2u; i++) { var j = 0u; while (j < 1u) { j++; } var t = 1u; t += buf[i]; buf[4u + i] = t; }", func(b []uint32) {
		b[4] = 1 + b[0]
		b[5] = 1 + b[1]
	}},
	{"helper-call", "i32", "fn f(x: i32, y: i32) -> i32 { if (x < y) { return y - x; } return x * y; }", "buf[2] = f(buf[0], buf[1]) + f(buf[1], 2);", func(b []uint32) {
		f := func(x, y int32) int32 {
			if x < y {
				return y - x
			}
			return x * y
		}
		b[2] = uint32(f(zzI(b[0]), zzI(b[1])) + f(zzI(b[1]), 2))
	}},
	{"pointer-arg", "u32", "fn bump(p: ptr<function, u32>, d: u32) { *p = *p * 2u + d; }", "var v = buf[0]; bump(&v, buf[1]); bump(&v, 1u); buf[2] = v;", func(b []uint32) {
		v := b[0]
		v = v*2 + b[1]
		v = v*2 + 1
		b[2] = v
	}},
	{"vec-swizzle", "i32", "", "let v = vec3<i32>(buf[0], buf[1], buf[2]); let w = v.zyx + vec3<i32>(1, 2, 3) * v.x; buf[3] = w.x; buf[4] = w.y; buf[5] = w.z;", func(b []uint32) {
		x, y, z := b[0], b[1], b[2]
		b[3] = z + 1*x
		b[4] = y + 2*x
		b[5] = x + 3*x
	}},
	{"struct-array-local", "u32", "struct S { a: u32, b: array<u32, 2> }", "var s: S; s.a = buf[0]; s.b[1] = buf[1]; s.b[0] = s.a + s.b[1]; let t = s; buf[2] = t.b[0]; buf[3] = t.b[1] ^ t.a;", func(b []uint32) {
		b[2] = b[0] + b[1]
		b[3] = b[1] ^ b[0]
	}},
	{"compound-assign", "i32", "", "var x = buf[0]; x += buf[1]; x *= 3; x -= buf[2]; x &= 0xff; x |= 0x100; x ^= buf[3]; x <<= 2u; buf[4] = x;", func(b []uint32) {
		x := b[0]
		x += b[1]
		x *= 3
		x -= b[2]
		x &= 0xff
		x |= 0x100
		x ^= b[3]
		x <<= 2
		b[4] = x
	}},
	{"bitcast", "u32", "", "buf[2] = bitcast<u32>(bitcast<i32>(buf[0]) >> 1u) + u32(i32(buf[1]));", func(b []uint32) {
		b[2] = uint32(zzI(b[0])>>1) + b[1]
	}},
	{"dynamic-index", "u32", "", "let i = buf[0] & 3u; buf[4u + (i & 1u)] = buf[i] + 5u;", func(b []uint32) {
		i := b[0] & 3
		b[4+(i&1)] = b[i] + 5
	}},
}

func ZZ_C01_tv_templates() {
	zzRunTemplate(zzTemplatesA[zz.Choice("template", len(zzTemplatesA))])
}
