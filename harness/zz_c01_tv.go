//go:build verif

package naga

import (
	"fmt"

	"github.com/gogpu/naga/internal/zzspv"
	"github.com/gogpu/naga/internal/zztpl"
	zz "github.com/gogpu/naga/internal/zzverif"
	"github.com/gogpu/naga/spirv"
)

// Translation validation of the real pipeline (Parse -> LowerWithSource -> Validate ->
// GenerateSPIRV): a template program is compiled, the emitted SPIR-V is executed by the
// reference executor on SYMBOLIC buffer contents, and the final buffer is compared with the
// WGSL meaning of the template (a Go closure written from the WGSL specification).

// zzCompileAndRun compiles src and runs its entry point on the given initial buffer words
// (binding 0 of group 0: array<i32|u32|f32, 8>). Returns the final buffer words.
func zzCompileAndRun(src string, in []uint32, opts spirv.Options) ([]uint32, bool) {
	ast, err := Parse(src)
	zz.Assert(err == nil, "template does not parse: "+src)
	if err != nil {
		return nil, false
	}
	mod, err := LowerWithSource(ast, src)
	zz.Assert(err == nil, "template does not lower: "+src)
	if err != nil {
		return nil, false
	}
	verrs, err := Validate(mod)
	zz.Assert(err == nil && len(verrs) == 0, "template rejected by the validator: "+src)
	out, err := GenerateSPIRV(mod, opts)
	zz.Assert(err == nil, "SPIR-V backend rejected the template: "+src)
	if err != nil {
		return nil, false
	}
	ex, ok := zzspv.NewExec(out)
	zz.Assert(ok, "emitted SPIR-V is not a well-formed instruction stream")
	if !ok {
		return nil, false
	}
	res := ex.RunEntry(map[[2]uint32][]uint32{{0, 0}: in})
	buf, ok := res[[2]uint32{0, 0}]
	zz.Assert(ok, "storage buffer (group 0, binding 0) not found in the emitted module")
	if !ok {
		return nil, false
	}
	return zzspv.Flatten(buf, nil), true
}

func zzOptions() spirv.Options {
	o := spirv.DefaultOptions()
	switch zz.Choice("options", 3) {
	case 1:
		o.Debug = true
	case 2:
		o.Version = spirv.Version1_5
	}
	return o
}

// T1: buf[2] = buf[0] OP buf[1] for the integer arithmetic/bitwise operators on i32 and u32.
func ZZ_C01_tv_integer_binary() {
	t := zzBinTemplates[zz.Choice("op", len(zzBinTemplates))]
	signed := zz.Flag("signed")
	ty := "u32"
	if signed {
		ty = "i32"
	}
	src := fmt.Sprintf(`@group(0) @binding(0) var<storage, read_write> buf: array<%s, 8>;
@compute @workgroup_size(1) fn main() { buf[2] = buf[0] %s buf[1]; }`, ty, t.Op)
	in := zzInputs()
	out, ok := zzCompileAndRun(src, in, zzOptions())
	if ok {
		zz.Assert(len(out) == zzBufWords, "buffer size changed")
		var want uint32
		if signed {
			want = uint32(t.I32(int32(in[0]), int32(in[1])))
		} else {
			want = t.U32(in[0], in[1])
		}
		for i := range out {
			if i == 2 {
				zz.Assert(out[i] == want, "SPIR-V result of the integer operator differs from the WGSL value")
			} else {
				zz.Assert(out[i] == in[i], "a buffer element that the program does not write was modified")
			}
		}
	}
	zz.Reach("end")
}

func zzRunTemplate(t zzTemplate) {
	src := fmt.Sprintf("@group(0) @binding(0) var<storage, read_write> buf: array<%s, 8>;\n%s\n@compute @workgroup_size(1) fn main() {\n%s\n}", t.Ty, t.Decl, t.Body)
	zz.Cell(t.Name)
	in := zzInputs()
	want := append([]uint32(nil), in...)
	t.Ref(want)
	out, ok := zzCompileAndRun(src, in, zzOptions())
	if ok {
		zz.Assert(len(out) == zzBufWords, "buffer size changed")
		for i := range out {
			zz.Assert(out[i] == want[i], "template "+t.Name+": final buffer differs from the WGSL meaning")
		}
	}
	zz.Reach("end")
}

func ZZ_C01_tv_templates() {
	zzRunTemplate(zzTemplatesA[zz.Choice("template", len(zzTemplatesA))])
}

// Thorough tier: every template followed by each probe template in one entry point.
func ZZ_C01_tv_template_pairs() {
	if !zz.Thorough() {
		zz.Reach("end")
		return
	}
	pairs := zztpl.Pairs()
	zzRunTemplate(pairs[zz.Choice("pair", len(pairs))])
}
