//go:build verif

package naga

import (
	"fmt"

	"github.com/gogpu/naga/glsl"
	"github.com/gogpu/naga/hlsl"
	"github.com/gogpu/naga/internal/zzclike"
	zz "github.com/gogpu/naga/internal/zzverif"
	"github.com/gogpu/naga/msl"
)

// User identifiers never clash with the names the back ends GENERATE (helper functions,
// wrapper structs, entry-point names, synthesized block members): a program whose function /
// struct / private variable is called like such a generated name, and which makes the back end
// emit that helper, must still yield text without redefinitions that computes the WGSL meaning
// (a call that binds to the wrong one of two same-named functions changes the result).
var zzSuspiciousFunctionNames = []string{"naga_abs", "naga_div", "naga_mod", "naga_neg", "naga_f2i32", "naga_extractBits", "ConstructS", "main_", "helper"}
var zzSuspiciousStructNames = []string{"DefaultConstructible", "type_1", "type_2", "FragmentInput_main", "S"}
var zzSuspiciousGlobalNames = []string{"nagaSamplerHeap", "_group_0_binding_0_cs", "buf_1", "_naga_zi_0", "g"}

func zzNameClashSource(fname, sname, gname string) string {
	return "struct " + sname + " { a: i32, b: i32 }\n" +
		"@group(0) @binding(0) var<storage, read_write> buf: array<i32, 8>;\n" +
		"var<private> " + gname + ": i32 = 3;\n" +
		"fn " + fname + "(x: i32) -> i32 { return x * 2 + 1; }\n" +
		"@compute @workgroup_size(1) fn main() {\n" +
		"  let s = " + sname + "(buf[0], 5);\n" +
		"  buf[1] = abs(buf[2]) + buf[3] / buf[4] + buf[3] % buf[4] + (-buf[2]) + " + fname + "(s.a) + s.b + " + gname + " + extractBits(buf[5], 4u, 8u);\n" +
		"}\n"
}

func zzNameClashRef(b []uint32) {
	x2 := int32(b[2])
	abs := x2
	if abs < 0 {
		abs = -abs
	}
	p, q := int32(b[3]), int32(b[4])
	div, mod := p, int32(0)
	if q != 0 && !(p == -2147483648 && q == -1) {
		div, mod = p/q, p%q
	}
	ext := int32(b[5]<<20) >> 24 // bits [4,12) sign-extended
	b[1] = uint32(abs + div + mod + (-x2) + (int32(b[0])*2 + 1) + 5 + 3 + ext)
}

func zzNameClash(backend int) {
	// 45 combinations in which every function name meets every struct name once (the global
	// name follows the struct name)
	k := zz.Choice("names", len(zzSuspiciousFunctionNames)*len(zzSuspiciousStructNames))
	fname := zzSuspiciousFunctionNames[k%len(zzSuspiciousFunctionNames)]
	sname := zzSuspiciousStructNames[k/len(zzSuspiciousFunctionNames)]
	gname := zzSuspiciousGlobalNames[(k+k/len(zzSuspiciousFunctionNames))%len(zzSuspiciousGlobalNames)]
	zz.Cell(fname + "/" + sname)
	in := zzInputs()
	// keep the GLSL run away from the known unguarded division (C05 finding); assumptions are
	// placed before the code they constrain
	if backend == 2 {
		zz.Assume(in[4] != 0 && !(in[3] == 0x80000000 && in[4] == 0xFFFFFFFF))
	}
	src := zzNameClashSource(fname, sname, gname)
	ast, err := Parse(src)
	zz.Assert(err == nil, "program does not parse")
	if err != nil {
		return
	}
	mod, err := LowerWithSource(ast, src)
	zz.Assert(err == nil, "program does not lower")
	if err != nil {
		return
	}
	var text, entry string
	var d zzclike.Dialect
	switch backend {
	case 0:
		t, info, err := hlsl.Compile(mod, hlsl.DefaultOptions())
		zz.Assert(err == nil, "HLSL backend rejected the program")
		if err != nil {
			return
		}
		text, entry, d = t, "main", zzclike.HLSL
		if info != nil {
			if n, ok := info.EntryPointNames["main"]; ok && n != "" {
				entry = n
			}
		}
	case 1:
		t, info, err := msl.Compile(mod, msl.DefaultOptions())
		zz.Assert(err == nil, "MSL backend rejected the program")
		if err != nil {
			return
		}
		text, entry, d = t, "main_", zzclike.MSL
		if n, ok := info.EntryPointNames["main"]; ok && n != "" {
			entry = n
		}
	default:
		o := glsl.DefaultOptions()
		o.LangVersion = glsl.Version430
		t, _, err := glsl.Compile(mod, o)
		zz.Assert(err == nil, "GLSL backend rejected the program")
		if err != nil {
			return
		}
		text, entry, d = t, "main", zzclike.GLSL
	}
	prog, perr := zzclike.Parse(text, d)
	zz.Assert(perr == "", "emitted text is outside the reference grammar: "+perr)
	if perr != "" {
		return
	}
	for _, dup := range prog.Dups {
		zz.Fail("emitted text redefines a name (user identifier clashes with a generated one): " + dup)
	}
	want := append([]uint32(nil), in...)
	zzNameClashRef(want)
	prog.WorkgroupSize = [3]uint32{1, 1, 1}
	out, rerr := prog.Run(entry, in)
	zz.Assert(rerr == "", "emitted text cannot be executed by the reference evaluator: "+rerr)
	if rerr == "" && len(out) == len(want) {
		zz.Assert(out[1] == want[1], "with these identifiers the emitted text computes a different value (a call or name binds to the wrong entity)")
	}
	zz.Reach("end")
}

func ZZ_C16_generated_names_hlsl() { zzNameClash(0) }
func ZZ_C16_generated_names_msl()  { zzNameClash(1) }
func ZZ_C16_generated_names_glsl() { zzNameClash(2) }

// Second shape: names the HLSL writer derives from USER names outside its namer — the struct
// and array constructors Construct<Type>, the typedef ret_<function> of an array-returning
// function and the entry point interface structs <Stage>Input_<ep> / <Stage>Output_<ep> — met
// by user declarations of exactly that name (and, for the constructors, signature).
var zzDerivedFunctionNames = []string{"ConstructPair", "Constructarray2_int_", "pick2"}
var zzDerivedStructNames = []string{"ret_pick", "Holder"}

func zzDerivedNameSource(fname, sname string) string {
	return "struct Pair { a: i32, b: i32 }\n" +
		"struct " + sname + " { a: i32 }\n" +
		"@group(0) @binding(0) var<storage, read_write> buf: array<i32, 8>;\n" +
		"fn " + fname + "(arg0: i32, arg1: i32) -> i32 { return arg0 - arg1; }\n" +
		"fn pick(x: i32) -> array<i32, 2> { return array<i32, 2>(x, x + 1); }\n" +
		"@compute @workgroup_size(1) fn main() {\n" +
		"  let s = Pair(buf[0], 5);\n" +
		"  var r: " + sname + ";\n" +
		"  r.a = pick(buf[2])[1];\n" +
		"  buf[1] = s.a * 2 + s.b + r.a + " + fname + "(buf[3], buf[4]);\n" +
		"}\n"
}

func zzDerivedNames(backend int) {
	fname := zzDerivedFunctionNames[zz.Choice("name", len(zzDerivedFunctionNames))]
	sname := zzDerivedStructNames[zz.Choice("struct", len(zzDerivedStructNames))]
	zz.Cell("derived/" + fname + "/" + sname)
	in := zzInputs()
	src := zzDerivedNameSource(fname, sname)
	var out []uint32
	var ok bool
	switch backend {
	case 0:
		out, ok = zzCompileAndRunHLSL(src, in, [3]uint32{}, nil)
	case 1:
		out, ok = zzCompileAndRunMSL(src, in, [3]uint32{}, nil)
	default:
		out, ok = zzCompileAndRunGLSL(src, in, [3]uint32{}, nil)
	}
	if ok && len(out) == len(in) {
		want := int32(in[0])*2 + 5 + (int32(in[2]) + 1) + (int32(in[3]) - int32(in[4]))
		zz.Assert(out[1] == uint32(want), "with these identifiers the emitted text computes a different value (a call or name binds to the wrong entity)")
	}
	zz.Reach("end")
}

func ZZ_C16_derived_names_hlsl() { zzDerivedNames(0) }
func ZZ_C16_derived_names_msl()  { zzDerivedNames(1) }
func ZZ_C16_derived_names_glsl() { zzDerivedNames(2) }

// Entry point interface structs: a vertex/fragment pair whose user structs are called like the
// structs the HLSL writer generates for the entry points; the emitted text must not define a
// struct twice (HLSL; the MSL writer routes its interface structs through its namer).
func ZZ_C16_interface_struct_names() {
	vsName := []string{"VertexOutput_vs", "VertexOut"}[zz.Choice("vs", 2)]
	fsName := []string{"FragmentInput_fs", "FragIn"}[zz.Choice("fs", 2)]
	zz.Cell(vsName + "/" + fsName)
	src := "struct " + vsName + " { @builtin(position) p: vec4<f32>, @location(0) c: f32 }\n" +
		"struct " + fsName + " { @location(0) c: f32 }\n" +
		"@vertex fn vs() -> " + vsName + " { return " + vsName + "(vec4<f32>(0.5), 1.0); }\n" +
		"@fragment fn fs(i: " + fsName + ") -> @location(0) vec4<f32> { return vec4<f32>(i.c); }\n"
	ast, err := Parse(src)
	zz.Assert(err == nil, "program does not parse")
	if err != nil {
		return
	}
	mod, err := LowerWithSource(ast, src)
	zz.Assert(err == nil, "program does not lower")
	if err != nil {
		return
	}
	text, _, err := hlsl.Compile(mod, hlsl.DefaultOptions())
	zz.Assert(err == nil, "HLSL backend rejected the program")
	d := zzclike.HLSL
	prog, perr := zzclike.Parse(text, d)
	zz.Assert(perr == "", "emitted text is outside the reference grammar: "+perr)
	if perr != "" {
		return
	}
	for _, dup := range prog.Dups {
		zz.Fail("emitted text redefines a name (user identifier clashes with a generated one): " + dup)
	}
	zz.Reach("end")
}

// Third shape: the predeclared float helpers. A user function called like the helper that
// the writer emits for modf / frexp, with the helper's parameter list, in a program that uses
// the builtin: the emitted text must not define one signature twice (checked on the parsed
// text; the float helpers themselves are not executed).
func ZZ_C16_float_helper_names() {
	name := []string{"naga_modf", "naga_frexp", "plain"}[zz.Choice("name", 3)]
	sname := []string{"_modf_result_f32", "_frexp_result_f32", "Holder"}[zz.Choice("struct", 3)]
	backend := zz.Choice("backend", 3)
	zz.Cell(fmt.Sprintf("float-helper/%s/%s/%d", name, sname, backend))
	src := "fn " + name + "(x: f32) -> f32 { return x * 2.0; }\n" +
		"struct " + sname + " { a: f32 }\n" +
		"@group(0) @binding(0) var<storage, read_write> s: array<f32, 8>;\n" +
		"@compute @workgroup_size(1) fn main() {\n" +
		"  let m = modf(s[0]);\n  let f = frexp(s[1]);\n" +
		"  var u: " + sname + ";\n  u.a = m.fract;\n" +
		"  s[2] = u.a + f.fract + " + name + "(s[3]);\n}\n"
	ast, err := Parse(src)
	zz.Assert(err == nil, "program does not parse")
	if err != nil {
		return
	}
	mod, err := LowerWithSource(ast, src)
	zz.Assert(err == nil, "program does not lower")
	if err != nil {
		return
	}
	var text string
	var d zzclike.Dialect
	switch backend {
	case 0:
		t, _, err := hlsl.Compile(mod, hlsl.DefaultOptions())
		zz.Assert(err == nil, "HLSL backend rejected the program")
		text, d = t, zzclike.HLSL
	case 1:
		t, _, err := msl.Compile(mod, msl.DefaultOptions())
		zz.Assert(err == nil, "MSL backend rejected the program")
		text, d = t, zzclike.MSL
	default:
		o := glsl.DefaultOptions()
		o.LangVersion = glsl.Version430
		t, _, err := glsl.Compile(mod, o)
		zz.Assert(err == nil, "GLSL backend rejected the program")
		text, d = t, zzclike.GLSL
	}
	prog, perr := zzclike.Parse(text, d)
	zz.Assert(perr == "", "emitted text is outside the reference grammar: "+perr)
	if perr != "" {
		return
	}
	for _, dup := range prog.Dups {
		zz.Fail("emitted text redefines a name (user identifier clashes with a generated one): " + dup)
	}
	zz.Reach("end")
}

// GLSL interface block names (<Type>_block_<n><Stage>) share the global namespace with struct
// types: a user struct of exactly that name next to a buffer of type Foo.
func ZZ_C16_glsl_block_names() {
	sname := []string{"Foo_block_0Compute", "Foo_block_1Compute", "Holder"}[zz.Choice("struct", 3)]
	zz.Cell("block/" + sname)
	src := "struct Foo { a: u32, b: u32 }\nstruct " + sname + " { c: u32 }\n" +
		"@group(0) @binding(0) var<storage, read_write> s: Foo;\n" +
		"@compute @workgroup_size(1) fn main() {\n  var t: " + sname + ";\n  t.c = s.a;\n  s.b = t.c + 1u;\n}\n"
	in := []uint32{zz.U32("a"), zz.U32("b")}
	if out, ok := zzCompileAndRunGLSL(src, in, [3]uint32{}, nil); ok && len(out) == 2 {
		zz.Assert(out[0] == in[0] && out[1] == in[0]+1, "with these identifiers the emitted text computes a different value")
	}
	zz.Reach("end")
}
