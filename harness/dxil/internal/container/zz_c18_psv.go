//go:build verif

package container

import (
	zz "github.com/gogpu/naga/internal/zzverif"
)

// The PSV0 part is self-describing (DxilPipelineStateValidation.h, ReadOrWrite): walking it
// from the counts in its own runtime-info header must end exactly at the end of the part.
// EncodePSV0 runs on a PSVInfo whose signature vector counts (0..255), element counts,
// resource count, string-table length, semantic-index count and ViewID flag are symbolic or
// enumerated; the reference walker below is written from the DXC layout:
//
//	u32 size; RuntimeInfo[size]; u32 nRes; [u32 resSize; res[nRes]]; u32 strBytes; str;
//	u32 nIdx; u32 idx[nIdx]; [u32 elemSize; elems[in+out+patch]];
//	if UsesViewID: for each stream with out vectors: u32 mask[ceil(out/8)];
//	for each stream with out vectors and in vectors > 0: u32 table[ceil(out/8) * in * 4]
func zzPSVU32(b []byte, at int) (uint32, bool) {
	if at < 0 || at+4 > len(b) {
		return 0, false
	}
	return uint32(b[at]) | uint32(b[at+1])<<8 | uint32(b[at+2])<<16 | uint32(b[at+3])<<24, true
}

func ZZ_C18_psv0_self_consistent() {
	nIn := 2 * zz.Choice("sig-input-elements", 2)
	nOut := 2 * zz.Choice("sig-output-elements", 2)
	info := PSVInfo{
		ShaderStage:      PSVShaderKind(zz.Choice("stage", 2)), // pixel, vertex
		SigInputVectors:  zz.U8("sig-input-vectors"),
		SigOutputVectors: zz.U8("sig-output-vectors"),
		UsesViewID:       zz.Flag("uses-view-id"),
	}
	zz.Assume(info.SigInputVectors <= 3 && info.SigOutputVectors <= 33) // the part size is concretised by the allocation: keep the number of distinct sizes small
	info.SigInputElements, info.SigOutputElements = uint8(nIn), uint8(nOut)
	for i := 0; i < nIn; i++ {
		info.PSVSigInputs = append(info.PSVSigInputs, PSVSignatureElement{Rows: 1, StartRow: uint8(i)})
	}
	for i := 0; i < nOut; i++ {
		info.PSVSigOutputs = append(info.PSVSigOutputs, PSVSignatureElement{Rows: 1, StartRow: uint8(i)})
	}
	for i := 0; i < 2*zz.Choice("resources", 2); i++ {
		info.ResourceBindings = append(info.ResourceBindings, PSVResourceBinding{LowerBound: uint32(i), UpperBound: uint32(i)})
	}
	info.StringTable = make([]byte, 5*zz.Choice("string-bytes", 2))
	info.SemanticIndexTable = make([]uint32, 2*zz.Choice("semantic-indexes", 2))

	out := EncodePSV0(info)

	// independent walk
	pos := 0
	size, ok := zzPSVU32(out, pos)
	zz.Assert(ok && size >= 36, "PSV0: runtime info size missing or too small for PSVRuntimeInfo1")
	if !ok || size < 36 {
		return
	}
	rti := pos + 4
	pos = rti + int(size)
	zz.Assert(pos <= len(out), "PSV0: runtime info runs past the end of the part")
	if pos > len(out) {
		return
	}
	usesViewID := out[rti+25] != 0
	eIn, eOut, ePatch := int(out[rti+28]), int(out[rti+29]), int(out[rti+30])
	vIn := uint32(out[rti+31])
	vOut := [4]uint32{uint32(out[rti+32]), uint32(out[rti+33]), uint32(out[rti+34]), uint32(out[rti+35])}
	nRes, ok := zzPSVU32(out, pos)
	zz.Assert(ok, "PSV0: resource count missing")
	pos += 4
	if nRes > 0 {
		rs, ok := zzPSVU32(out, pos)
		zz.Assert(ok && rs >= 16, "PSV0: resource record size missing")
		pos += 4 + int(nRes)*int(rs)
	}
	sb, ok := zzPSVU32(out, pos)
	zz.Assert(ok && sb%4 == 0, "PSV0: string table size missing or not a multiple of 4")
	pos += 4 + int(sb)
	ni, ok := zzPSVU32(out, pos)
	zz.Assert(ok, "PSV0: semantic index count missing")
	pos += 4 + 4*int(ni)
	if eIn+eOut+ePatch > 0 {
		es, ok := zzPSVU32(out, pos)
		zz.Assert(ok && es >= 16, "PSV0: signature element size missing")
		pos += 4 + (eIn+eOut+ePatch)*int(es)
	}
	maskDwords := func(v uint32) uint32 { return (v + 7) / 8 }
	if usesViewID {
		for _, ov := range vOut {
			if ov > 0 {
				pos += 4 * int(maskDwords(ov))
			}
		}
	}
	for _, ov := range vOut {
		if ov > 0 && vIn > 0 {
			pos += 4 * int(maskDwords(ov)*vIn*4)
		}
	}
	if usesViewID {
		zz.Cell("with-view-id")
	} else {
		zz.Cell("without-view-id")
	}
	zz.Assert(pos == len(out), "PSV0: the structures its header describes do not end at the end of the part")
	zz.Reach("end")
}
