//go:build verif

package container

import (
	zz "github.com/gogpu/naga/internal/zzverif"
)

func zzU32(b []byte, off int) uint32 {
	return uint32(b[off]) | uint32(b[off+1])<<8 | uint32(b[off+2])<<16 | uint32(b[off+3])<<24
}

var zzPartLens = []int{0, 1, 3, 4, 5, 8, 20}

// zzCheckContainer is the reference DXBC reader: header, part table and parts must be
// mutually consistent and in bounds. Returns the (offset,size) of every part body.
func zzCheckContainer(out []byte, wantFourCC []uint32, wantData [][]byte) {
	zz.Assert(len(out) >= 32, "container shorter than its header")
	if len(out) < 32 {
		return
	}
	zz.Assert(zzU32(out, 0) == 0x43425844, "magic is not DXBC")
	zz.Assert(out[20] == 1 && out[21] == 0 && out[22] == 0 && out[23] == 0, "container version is not 1.0")
	zz.Assert(zzU32(out, 24) == uint32(len(out)), "FileSize field differs from the byte length")
	n := int(zzU32(out, 28))
	zz.Assert(n == len(wantFourCC), "part count field differs from the number of parts added")
	if n != len(wantFourCC) {
		return
	}
	prevEnd := 32 + 4*n
	for i := 0; i < n; i++ {
		off := int(zzU32(out, 32+4*i))
		zz.Assert(off == prevEnd, "part offset does not follow the previous part (gap or overlap)")
		zz.Assert(off+8 <= len(out), "part header out of bounds")
		if off != prevEnd || off+8 > len(out) {
			return
		}
		zz.Assert(zzU32(out, off) == wantFourCC[i], "part FourCC changed")
		sz := int(zzU32(out, off+4))
		zz.Assert(sz == len(wantData[i]), "part size field differs from the data length")
		zz.Assert(off+8+sz <= len(out), "part body out of bounds")
		if sz != len(wantData[i]) || off+8+sz > len(out) {
			return
		}
		for j := 0; j < sz; j++ {
			zz.Assert(out[off+8+j] == wantData[i][j], "part body byte changed")
		}
		prevEnd = off + 8 + sz
	}
	zz.Assert(prevEnd == len(out), "trailing bytes after the last part")
}

// U2a: Container.Bytes for up to 3 raw parts of every listed length with arbitrary content and FourCC.
func ZZ_C18_container_raw() {
	np := zz.Choice("nparts", 4)
	c := New()
	var fcs []uint32
	var datas [][]byte
	for i := 0; i < np; i++ {
		ln := zzPartLens[zz.Choice("len"+string(rune('0'+i)), len(zzPartLens))]
		fc := zz.U32("fourcc" + string(rune('0'+i)))
		d := zz.Bytes("part"+string(rune('0'+i)), ln)
		c.AddRawPart(fc, d)
		fcs = append(fcs, fc)
		datas = append(datas, d)
	}
	out := c.Bytes()
	zzCheckContainer(out, fcs, datas)
	zz.Reach("end")
}

// U2b: AddDXILPart program header for every shader kind / version / bitcode length 0..9,
// together with features and hash parts.
func ZZ_C18_container_dxil() {
	kind := zz.U32("kind")
	zz.Assume(kind < 16)
	major := zz.U32("major")
	zz.Assume(major < 16)
	minor := zz.U32("minor")
	zz.Assume(minor < 16)
	bl := zz.Choice("bitcodeLen", 4) * 4 // bitcode is always a whole number of 32-bit words
	bc := zz.Bytes("bitcode", bl)
	feat := zz.U64("features")
	c := New()
	withFeat := zz.Bool("withFeatures")
	if withFeat {
		c.AddFeaturesPart(feat)
	}
	c.AddDXILPart(kind, major, minor, bc)
	c.AddHashPart()
	out := c.Bytes()
	// locate the DXIL part through the part table
	n := int(zzU32(out, 28))
	want := 2
	if withFeat {
		want = 3
	}
	zz.Assert(n == want, "part count")
	idx := 0
	if withFeat {
		off := int(zzU32(out, 32))
		zz.Assert(zzU32(out, off) == 0x30494653, "SFI0 fourcc")
		zz.Assert(zzU32(out, off+4) == 8, "SFI0 size")
		lo, hi := zzU32(out, off+8), zzU32(out, off+12)
		zz.Assert(uint64(lo)|uint64(hi)<<32 == feat, "feature flags changed")
		idx = 1
	}
	off := int(zzU32(out, 32+4*idx))
	zz.Assert(zzU32(out, off) == 0x4C495844, "DXIL fourcc")
	psz := int(zzU32(out, off+4))
	zz.Assert(psz == 24+bl, "DXIL part size")
	body := off + 8
	zz.Assert(zzU32(out, body) == kind<<16|major<<4|minor, "program version word")
	zz.Assert(zzU32(out, body+4)*4 == uint32(psz), "program size in dwords does not cover the part")
	zz.Assert(zzU32(out, body+8) == 0x4C495844, "DXIL magic")
	zz.Assert(zzU32(out, body+12) == 0x100|minor, "DXIL version")
	zz.Assert(zzU32(out, body+16) == 16, "bitcode offset")
	zz.Assert(zzU32(out, body+20) == uint32(bl), "bitcode size")
	for j := 0; j < bl; j++ {
		zz.Assert(out[body+24+j] == bc[j], "bitcode byte changed")
	}
	hoff := int(zzU32(out, 32+4*(idx+1)))
	zz.Assert(zzU32(out, hoff) == 0x48534148, "HASH fourcc")
	zz.Assert(zzU32(out, hoff+4) == 20, "HASH size")
	zz.Assert(hoff+8+20 == len(out), "HASH part is not last/in bounds")
	zz.Assert(zzU32(out, 24) == uint32(len(out)), "FileSize")
	zz.Reach("end")
}

// ---- reference retail hash (INF-0004): standard MD5 compression over a re-laid-out tail ----

var zzMD5S = [64]uint{
	7, 12, 17, 22, 7, 12, 17, 22, 7, 12, 17, 22, 7, 12, 17, 22,
	5, 9, 14, 20, 5, 9, 14, 20, 5, 9, 14, 20, 5, 9, 14, 20,
	4, 11, 16, 23, 4, 11, 16, 23, 4, 11, 16, 23, 4, 11, 16, 23,
	6, 10, 15, 21, 6, 10, 15, 21, 6, 10, 15, 21, 6, 10, 15, 21}

var zzMD5K = [64]uint32{
	0xd76aa478, 0xe8c7b756, 0x242070db, 0xc1bdceee, 0xf57c0faf, 0x4787c62a, 0xa8304613, 0xfd469501,
	0x698098d8, 0x8b44f7af, 0xffff5bb1, 0x895cd7be, 0x6b901122, 0xfd987193, 0xa679438e, 0x49b40821,
	0xf61e2562, 0xc040b340, 0x265e5a51, 0xe9b6c7aa, 0xd62f105d, 0x02441453, 0xd8a1e681, 0xe7d3fbc8,
	0x21e1cde6, 0xc33707d6, 0xf4d50d87, 0x455a14ed, 0xa9e3e905, 0xfcefa3f8, 0x676f02d9, 0x8d2a4c8a,
	0xfffa3942, 0x8771f681, 0x6d9d6122, 0xfde5380c, 0xa4beea44, 0x4bdecfa9, 0xf6bb4b60, 0xbebfbc70,
	0x289b7ec6, 0xeaa127fa, 0xd4ef3085, 0x04881d05, 0xd9d4d039, 0xe6db99e5, 0x1fa27cf8, 0xc4ac5665,
	0xf4292244, 0x432aff97, 0xab9423a7, 0xfc93a039, 0x655b59c3, 0x8f0ccc92, 0xffeff47d, 0x85845dd1,
	0x6fa87e4f, 0xfe2ce6e0, 0xa3014314, 0x4e0811a1, 0xf7537e82, 0xbd3af235, 0x2ad7d2bb, 0xeb86d391}

// zzMD5Compress is RFC 1321's block function written from the RFC's pseudo code.
func zzMD5Compress(st *[4]uint32, blk []byte) {
	var m [16]uint32
	for i := 0; i < 16; i++ {
		m[i] = zzU32(blk, 4*i)
	}
	a, b, c, d := st[0], st[1], st[2], st[3]
	for i := 0; i < 64; i++ {
		var f uint32
		var g int
		switch {
		case i < 16:
			f = (b & c) | (^b & d)
			g = i
		case i < 32:
			f = (d & b) | (^d & c)
			g = (5*i + 1) % 16
		case i < 48:
			f = b ^ c ^ d
			g = (3*i + 5) % 16
		default:
			f = c ^ (b | ^d)
			g = (7 * i) % 16
		}
		f = f + a + zzMD5K[i] + m[g]
		a = d
		d = c
		c = b
		b = b + (f<<zzMD5S[i] | f>>(32-zzMD5S[i]))
	}
	st[0] += a
	st[1] += b
	st[2] += c
	st[3] += d
}

func zzLE32(v uint32) []byte { return []byte{byte(v), byte(v >> 8), byte(v >> 16), byte(v >> 24)} }

// zzRetailLayout builds the byte stream that the INF-0004 hash feeds to the MD5 block function.
func zzRetailLayout(data []byte) []byte {
	l := len(data)
	rem := l % 64
	full := l - rem
	var msg []byte
	msg = append(msg, data[:full]...)
	if rem < 56 {
		msg = append(msg, zzLE32(uint32(l)<<3)...)
		msg = append(msg, data[full:]...)
		msg = append(msg, 0x80)
		for len(msg)%64 != 60 {
			msg = append(msg, 0)
		}
		msg = append(msg, zzLE32(uint32(l)<<1|1)...)
	} else {
		msg = append(msg, data[full:]...)
		msg = append(msg, 0x80)
		for len(msg)%64 != 0 {
			msg = append(msg, 0)
		}
		msg = append(msg, zzLE32(uint32(l)<<3)...)
		for len(msg)%64 != 60 {
			msg = append(msg, 0)
		}
		msg = append(msg, zzLE32(uint32(l)<<1|1)...)
	}
	return msg
}

var zzHashLens = []int{0, 1, 3, 4, 54, 55, 56, 57, 59, 60, 63, 64, 65, 119, 120, 121, 127, 128, 130}

// U3a: the blocks that retailMD5 feeds to the compression function equal the reference layout,
// for every message content at every boundary length (all padding regimes).
func ZZ_C18_retail_blocks() {
	var l int
	if zz.Thorough() {
		l = zz.Choice("len", 131)
	} else {
		l = zzHashLens[zz.Choice("len", len(zzHashLens))]
	}
	data := zz.Bytes("msg", l)
	want := zzRetailLayout(data)
	// replicate retailMD5's driver loop, asking the real block builder for each block
	byteCount := uint32(len(data))
	leftOver := byteCount & 0x3f
	var padAmount uint32
	two := false
	if leftOver < 56 {
		padAmount = 56 - leftOver
	} else {
		padAmount = 120 - leftOver
		two = true
	}
	n := (byteCount + padAmount + 8) >> 6
	zz.Assert(int(n)*64 == len(want), "number of blocks differs from the reference layout")
	next := n - 1
	if two {
		next = n - 2
	}
	off := uint32(0)
	for i := uint32(0); i < n; i++ {
		px := retailMD5Block(data, byteCount, off, i, n, &next, two, padAmount)
		zz.Assert(len(px) == 16, "block is not 16 words")
		for k := 0; k < 16 && k < len(px); k++ {
			zz.Assert(px[k] == zzU32(want, int(i)*64+4*k), "block word differs from the INF-0004 layout")
		}
		off += 64
	}
	zz.Reach("end")
}

// U3b: md5Transform is RFC 1321's block function for every state and every block.
func ZZ_C18_md5_transform() {
	var st, st2 [4]uint32
	for i := range st {
		st[i] = zz.U32("st" + string(rune('0'+i)))
		st2[i] = st[i]
	}
	blk := zz.Bytes("blk", 64)
	px := bytesToUint32s(blk)
	md5Transform(&st, px)
	zzMD5Compress(&st2, blk)
	for i := range st {
		zz.Assert(st[i] == st2[i], "md5Transform differs from RFC 1321")
	}
	zz.Reach("end")
}

// zzUFCompress abstracts the MD5 block function as an uninterpreted function of
// (state, block): U3b proves md5Transform = RFC 1321 separately, so here both sides
// use the same abstraction and the query is about the driver (block count, offsets,
// chaining, digest placement).
func zzUFCompress(st *[4]uint32, m []uint32) {
	a := []uint32{st[0], st[1], st[2], st[3]}
	a = append(a, m...)
	n0 := zz.UFU32("md5_0", a...)
	n1 := zz.UFU32("md5_1", a...)
	n2 := zz.UFU32("md5_2", a...)
	n3 := zz.UFU32("md5_3", a...)
	st[0], st[1], st[2], st[3] = n0, n1, n2, n3
}

// U3c: end to end: ComputeRetailHash writes exactly bytes 4..20 with the reference hash of
// bytes 20.., for containers of length 20+L with arbitrary content, L over every
// padding regime. The block function is abstracted (see zzUFCompress).
func ZZ_C18_retail_hash_e2e() {
	var l int
	if zz.Thorough() {
		l = zz.Choice("len", 200)
	} else {
		l = zzHashLens[zz.Choice("len", len(zzHashLens))]
	}
	buf := zz.Bytes("c", 20+l)
	orig := append([]byte(nil), buf...)
	native := zz.Native()
	if !native {
		zz.Override("dxil/internal/container.md5Transform", func(st *[4]uint32, px []uint32) { zzUFCompress(st, px) })
	}
	ComputeRetailHash(buf)
	st := [4]uint32{0x67452301, 0xefcdab89, 0x98badcfe, 0x10325476}
	msg := zzRetailLayout(orig[20:])
	for o := 0; o < len(msg); o += 64 {
		if native {
			zzMD5Compress(&st, msg[o:o+64])
		} else {
			var m []uint32
			for k := 0; k < 16; k++ {
				m = append(m, zzU32(msg, o+4*k))
			}
			zzUFCompress(&st, m)
		}
	}
	for i := 0; i < 4; i++ {
		zz.Assert(buf[i] == orig[i], "bytes before the digest were modified")
		zz.Assert(zzU32(buf, 4+4*i) == st[i], "digest differs from the reference retail hash")
	}
	for i := 20; i < len(buf); i++ {
		zz.Assert(buf[i] == orig[i], "hashed content was modified")
	}
	zz.Reach("end")
}

// U3d: SetBypassHash / short inputs never index out of range and touch only bytes 4..20.
func ZZ_C18_bypass() {
	l := zz.Choice("len", 40)
	buf := zz.Bytes("c", l)
	orig := append([]byte(nil), buf...)
	SetBypassHash(buf)
	ComputeRetailHashShort := l < 20
	for i := 0; i < l; i++ {
		if i >= 4 && i < 20 && !ComputeRetailHashShort {
			zz.Assert(buf[i] == 1, "bypass sentinel byte")
		} else {
			zz.Assert(buf[i] == orig[i], "byte outside the digest field modified")
		}
	}
	zz.Reach("end")
}
