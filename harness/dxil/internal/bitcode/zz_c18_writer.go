//go:build verif

package bitcode

import (
	zz "github.com/gogpu/naga/internal/zzverif"
)

// ---- reference LLVM 3.7 bitstream reader (independent of the writer) ----

type zzReader struct {
	data []byte
	pos  int // bit position
}

func (r *zzReader) bit() uint64 {
	b := r.data[r.pos>>3]
	v := uint64(b>>(uint(r.pos)&7)) & 1
	r.pos++
	return v
}

func (r *zzReader) fixed(n int) uint64 {
	var v uint64
	for i := 0; i < n; i++ {
		v |= r.bit() << uint(i)
	}
	return v
}

// vbr decodes a VBR(w) number; ok=false if it does not terminate within 64+w bits of payload.
func (r *zzReader) vbr(w int) (uint64, bool) {
	var v uint64
	shift := 0
	for {
		c := r.fixed(w)
		payload := c & (uint64(1)<<uint(w-1) - 1)
		if shift < 64 {
			v |= payload << uint(shift)
		} else if payload != 0 {
			return 0, false
		}
		if c>>uint(w-1)&1 == 0 {
			return v, true
		}
		shift += w - 1
		if shift > 64+w {
			return 0, false
		}
	}
}

func (r *zzReader) align32() bool {
	ok := true
	for r.pos%32 != 0 {
		if r.bit() != 0 {
			ok = false
		}
	}
	return ok
}

func (r *zzReader) word() uint32 {
	return uint32(r.fixed(32))
}

var zzVBRWidths = []uint{2, 3, 4, 5, 6, 7, 8, 32}

// U1a: WriteVBR round-trips through an independent reader for every 64-bit value,
// at every starting bit offset 0..31, for the widths the serializer uses.
func ZZ_C18_writeVBR_roundtrip() {
	width := zzVBRWidths[zz.Choice("width", len(zzVBRWidths))]
	pre := uint(zz.Choice("prebits", 32))
	zz.Unwind(80)
	w := NewWriter(2)
	var preVal uint32
	if pre > 0 {
		preVal = zz.U32("preval")
		zz.Assume(uint64(preVal) < uint64(1)<<pre)
		w.WriteBits(preVal, pre)
	}
	v := zz.U64("v")
	if !zz.Thorough() {
		// quick tier: values below 2^40 (thorough: all 64 bits)
		zz.Assume(v < 1<<40)
	}
	w.WriteVBR(v, width)
	out := w.Bytes()
	zz.Assert(len(out)%4 == 0, "output not 32-bit aligned")
	r := &zzReader{data: out}
	if pre > 0 {
		zz.Assert(r.fixed(int(pre)) == uint64(preVal), "bits written before the VBR were disturbed")
	}
	got, ok := r.vbr(int(width))
	zz.Assert(ok, "VBR does not terminate")
	zz.Assert(got == v, "VBR decodes to a different value")
	zz.Assert(r.align32(), "padding bits not zero")
	zz.Assert(r.pos == len(out)*8, "trailing data after the VBR")
	zz.Reach("end")
}

// U1b: WriteFixed round trip for widths 1..32. (WriteFixed has no caller outside tests;
// widths above 32 with a small value break WriteBits' documented width<=32 precondition and
// are outside the claim.)
func ZZ_C18_writeFixed_roundtrip() {
	width := uint(zz.Choice("width", 32) + 1)
	pre := uint(zz.Choice("prebits", 4) * 9) // 0, 9, 18, 27
	w := NewWriter(2)
	var preVal uint32
	if pre > 0 {
		preVal = zz.U32("preval")
		zz.Assume(uint64(preVal) < uint64(1)<<pre)
		w.WriteBits(preVal, pre)
	}
	v := zz.U64("v")
	zz.Assume(v < uint64(1)<<width)
	w.WriteFixed(v, width)
	out := w.Bytes()
	r := &zzReader{data: out}
	if pre > 0 {
		zz.Assert(r.fixed(int(pre)) == uint64(preVal), "bits before the field were disturbed")
	}
	zz.Assert(r.fixed(int(width)) == v, "fixed field decodes to a different value")
	zz.Assert(r.align32(), "padding bits not zero")
	zz.Assert(r.pos == len(out)*8, "trailing data")
	zz.Reach("end")
}

// U1c: one step of WriteBits from an arbitrary valid writer state (inductive step).
// Invariant: bufBits < 32, buf < 2^bufBits, len(data)%4 == 0.
func ZZ_C18_writeBits_step() {
	n := zz.Uint("bufBits")
	zz.Assume(n < 32)
	buf := zz.U64("buf")
	zz.Assume(buf < uint64(1)<<n)
	old := zz.Bytes("data", 4)
	w := &Writer{data: append([]byte(nil), old...), buf: buf, bufBits: n, abbrevWidth: 2}
	width := zz.Uint("width")
	zz.Assume(width >= 1 && width <= 32)
	d := zz.U32("d")
	zz.Assume(uint64(d) < uint64(1)<<width)
	w.WriteBits(d, width)
	// stream tail before: buf (n bits); after: [flushed word] ++ buf'
	want := buf | uint64(d)<<n
	total := n + width
	if total >= 32 {
		zz.Assert(len(w.data) == 8, "a full word must be flushed")
		if len(w.data) == 8 {
			word := uint64(w.data[4]) | uint64(w.data[5])<<8 | uint64(w.data[6])<<16 | uint64(w.data[7])<<24
			zz.Assert(word|w.buf<<32 == want, "bit stream content changed")
		}
		zz.Assert(w.bufBits == total-32, "bit count wrong after flush")
	} else {
		zz.Assert(len(w.data) == 4, "premature flush")
		zz.Assert(w.buf == want, "bit stream content changed")
		zz.Assert(w.bufBits == total, "bit count wrong")
	}
	zz.Assert(w.bufBits < 32, "invariant: bufBits < 32")
	zz.Assert(w.buf < uint64(1)<<w.bufBits, "invariant: buf < 2^bufBits")
	for i := 0; i < 4; i++ {
		zz.Assert(w.data[i] == old[i], "earlier output bytes modified")
	}
	zz.Reach("end")
}

// U1d: EncodeSignedVBR is inverted by LLVM's decodeSignRotatedValue on all int64.
func ZZ_C18_signedVBR() {
	v := zz.I64("v")
	e := EncodeSignedVBR(v)
	var dec int64
	switch {
	case e&1 == 0:
		dec = int64(e >> 1)
	case e != 1:
		dec = -int64(e >> 1)
	default:
		dec = -1 << 63
	}
	zz.Assert(dec == v, "sign-rotated value does not decode to the input")
	zz.Reach("end")
}

// U1e: char6 encoding agrees with the LLVM alphabet and with IsChar6String.
func ZZ_C18_char6() {
	const alphabet = "abcdefghijklmnopqrstuvwxyzABCDEFGHIJKLMNOPQRSTUVWXYZ0123456789._"
	ch := zz.U8("ch")
	valid := IsChar6String(string([]byte{ch}))
	inAlpha := false
	for i := 0; i < len(alphabet); i++ {
		if alphabet[i] == ch {
			inAlpha = true
		}
	}
	zz.Assert(valid == inAlpha, "IsChar6String disagrees with the LLVM char6 alphabet")
	if valid {
		c := EncodeChar6(ch)
		zz.Assert(c < 64, "char6 code out of range")
		if c < 64 {
			zz.Assert(alphabet[c] == ch, "char6 code decodes to a different character")
		}
	}
	zz.Reach("end")
}

// U1f: block structure: ENTER_SUBBLOCK / records / nested block / END_BLOCK parse back with
// consistent lengths for all block ids, abbreviation widths, record codes and operand values.
func ZZ_C18_blocks() {
	outerAbbrev := uint(2)
	w := NewWriter(outerAbbrev)
	id1 := zz.Uint("id1")
	zz.Assume(id1 < 1<<16)
	ab1 := uint(zz.Choice("ab1", 4) + 2) // 2..5
	code := zz.Uint("code")
	zz.Assume(code < 1<<12)
	nops := zz.Choice("nops", 3)
	ops := make([]uint64, nops)
	for i := range ops {
		ops[i] = zz.U64("op" + string(rune('0'+i)))
		zz.Assume(ops[i] < 1<<20)
	}
	nested := zz.Bool("nested")
	id2 := zz.Uint("id2")
	zz.Assume(id2 < 256)
	w.EnterBlock(id1, ab1)
	w.EmitRecord(code, ops)
	if nested {
		w.EnterBlock(id2, 3)
		w.EmitRecord(1, []uint64{7})
		w.ExitBlock()
	}
	w.ExitBlock()
	out := w.Bytes()
	zz.Assert(len(out)%4 == 0, "output not word aligned")
	r := &zzReader{data: out}
	zz.Assert(r.fixed(int(outerAbbrev)) == EnterSubblock, "missing ENTER_SUBBLOCK")
	bid, ok := r.vbr(8)
	zz.Assert(ok && bid == uint64(id1), "block id")
	nab, ok := r.vbr(4)
	zz.Assert(ok && nab == uint64(ab1), "new abbrev width")
	zz.Assert(r.align32(), "alignment padding before block length not zero")
	blen := r.word()
	bodyStart := r.pos
	zz.Assert(r.fixed(int(ab1)) == UnabbrevRecord, "missing UNABBREV_RECORD")
	c, ok := r.vbr(6)
	zz.Assert(ok && c == uint64(code), "record code")
	n, ok := r.vbr(6)
	zz.Assert(ok && n == uint64(nops), "operand count")
	for i := 0; i < nops; i++ {
		o, ok := r.vbr(6)
		zz.Assert(ok && o == ops[i], "operand value")
	}
	if nested {
		zz.Assert(r.fixed(int(ab1)) == EnterSubblock, "nested ENTER_SUBBLOCK")
		b2, ok := r.vbr(8)
		zz.Assert(ok && b2 == uint64(id2), "nested block id")
		a2, ok := r.vbr(4)
		zz.Assert(ok && a2 == 3, "nested abbrev width")
		zz.Assert(r.align32(), "nested alignment")
		l2 := r.word()
		s2 := r.pos
		zz.Assert(r.fixed(3) == UnabbrevRecord, "nested record")
		c2, _ := r.vbr(6)
		n2, _ := r.vbr(6)
		o2, _ := r.vbr(6)
		zz.Assert(c2 == 1 && n2 == 1 && o2 == 7, "nested record content")
		zz.Assert(r.fixed(3) == EndBlock, "nested END_BLOCK")
		zz.Assert(r.align32(), "nested end alignment")
		zz.Assert(int(l2)*32 == r.pos-s2, "nested block length word does not match the body")
	}
	zz.Assert(r.fixed(int(ab1)) == EndBlock, "missing END_BLOCK")
	zz.Assert(r.align32(), "end alignment")
	zz.Assert(int(blen)*32 == r.pos-bodyStart, "block length word does not match the body")
	zz.Assert(r.pos == len(out)*8, "trailing bytes")
	zz.Reach("end")
}
