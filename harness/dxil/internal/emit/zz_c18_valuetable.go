//go:build verif

package emit

import (
	"fmt"

	"github.com/gogpu/naga/dxil/internal/module"
)

// ZZCheckValueTable checks the value numbering of a finalized DXIL module the way the LLVM
// bitcode reader builds it: module-level values are the global variables, the functions and
// the constants, in that order; inside a function body the parameters and then the results of
// the value-producing instructions follow. Every value operand (as listed by the emitter's own
// valueOperandIndices) must denote a value of that table, and the values must have the types
// the instruction requires (binary operators and comparisons on equal types, select arms equal
// to the result, call arguments equal to the callee's parameter types, return value equal to
// the function's return type, conditions i1, load/store/GEP bases pointers).
func ZZCheckValueTable(m *module.Module) []string {
	var problems []string
	bad := func(format string, a ...any) { problems = append(problems, fmt.Sprintf(format, a...)) }
	base := len(m.GlobalVars) + len(m.Functions) + len(m.Constants)
	moduleTypes := make([]*module.Type, 0, base)
	for _, gv := range m.GlobalVars {
		if gv.ValueID != len(moduleTypes) {
			bad("global variable %s has value id %d, expected %d", gv.Name, gv.ValueID, len(moduleTypes))
		}
		moduleTypes = append(moduleTypes, &module.Type{Kind: module.TypePointer, PointerElem: gv.VarType, PointerAddrSpace: gv.AddrSpace})
	}
	for _, f := range m.Functions {
		if f.ValueID != len(moduleTypes) {
			bad("function %s has value id %d, expected %d", f.Name, f.ValueID, len(moduleTypes))
		}
		moduleTypes = append(moduleTypes, &module.Type{Kind: module.TypePointer, PointerElem: f.FuncType})
	}
	for _, c := range m.Constants {
		if c.ValueID != len(moduleTypes) {
			bad("constant has value id %d, expected %d", c.ValueID, len(moduleTypes))
		}
		moduleTypes = append(moduleTypes, c.ConstType)
	}
	for _, f := range m.Functions {
		if f.IsDeclaration || len(f.BasicBlocks) == 0 {
			continue
		}
		types := append([]*module.Type(nil), moduleTypes...)
		if f.FuncType != nil {
			types = append(types, f.FuncType.ParamTypes...)
		}
		for _, bb := range f.BasicBlocks {
			for _, in := range bb.Instructions {
				if in.HasValue {
					if in.ValueID != len(types) {
						bad("%s: result value id %d is not the next id %d", f.Name, in.ValueID, len(types))
					}
					types = append(types, in.ResultType)
				}
			}
		}
		n := len(types)
		tyOf := func(id int) *module.Type {
			if id < 0 || id >= n {
				return nil
			}
			return types[id]
		}
		for bi, bb := range f.BasicBlocks {
			for ii, in := range bb.Instructions {
				where := fmt.Sprintf("%s bb%d #%d kind %d", f.Name, bi, ii, in.Kind)
				ops := valueOperandIndices(in)
				for _, idx := range ops {
					if idx >= len(in.Operands) {
						continue
					}
					if id := in.Operands[idx]; id < 0 || id >= n {
						bad("%s: operand %d = %d does not refer to a defined value (table size %d)", where, idx, id, n)
					}
				}
				op := func(i int) *module.Type {
					if i < len(in.Operands) {
						return tyOf(in.Operands[i])
					}
					return nil
				}
				switch in.Kind {
				case module.InstrBinOp:
					if a, b := op(0), op(1); a != nil && b != nil {
						if !zzSameType(a, b) || !zzSameType(a, in.ResultType) {
							bad("%s: binary operator on values of types %s and %s giving %s", where, zzTypeString(a), zzTypeString(b), zzTypeString(in.ResultType))
						}
					}
				case module.InstrCmp:
					if a, b := op(0), op(1); a != nil && b != nil && !zzSameType(a, b) {
						bad("%s: comparison of values of types %s and %s", where, zzTypeString(a), zzTypeString(b))
					}
				case module.InstrSelect:
					if c, a, b := op(0), op(1), op(2); c != nil && a != nil && b != nil {
						if !zzIsI1(c) || !zzSameType(a, b) || !zzSameType(a, in.ResultType) {
							bad("%s: select with types %s ? %s : %s giving %s", where, zzTypeString(c), zzTypeString(a), zzTypeString(b), zzTypeString(in.ResultType))
						}
					}
				case module.InstrLoad:
					if p := op(0); p != nil {
						if p.Kind != module.TypePointer || !zzSameType(p.PointerElem, in.ResultType) {
							bad("%s: load through %s giving %s", where, zzTypeString(p), zzTypeString(in.ResultType))
						}
					}
				case module.InstrStore:
					if p, v := op(0), op(1); p != nil && v != nil {
						if p.Kind != module.TypePointer || !zzSameType(p.PointerElem, v) {
							bad("%s: store of %s through %s", where, zzTypeString(v), zzTypeString(p))
						}
					}
				case module.InstrCall:
					if in.CalledFunc != nil && in.CalledFunc.FuncType != nil {
						pts := in.CalledFunc.FuncType.ParamTypes
						if len(pts) != len(in.Operands) {
							bad("%s: call of %s with %d arguments, %d parameters", where, in.CalledFunc.Name, len(in.Operands), len(pts))
						} else {
							for k := range pts {
								if a := op(k); a != nil && !zzSameType(a, pts[k]) {
									bad("%s: call of %s: argument %d has type %s, parameter has %s", where, in.CalledFunc.Name, k, zzTypeString(a), zzTypeString(pts[k]))
								}
							}
						}
					}
				case module.InstrBr:
					if len(in.Operands) >= 3 {
						if c := op(2); c != nil && !zzIsI1(c) {
							bad("%s: branch condition of type %s", where, zzTypeString(c))
						}
					}
				case module.InstrRet:
					if in.ReturnValue >= 0 {
						t := tyOf(in.ReturnValue)
						if t == nil {
							bad("%s: return value %d does not refer to a defined value", where, in.ReturnValue)
						} else if f.FuncType != nil && !zzSameType(t, f.FuncType.RetType) {
							bad("%s: return of %s from a function returning %s", where, zzTypeString(t), zzTypeString(f.FuncType.RetType))
						}
					}
				case module.InstrPhi:
					for _, inc := range in.PhiIncomings {
						t := tyOf(inc.ValueID)
						if t == nil {
							bad("%s: phi incoming %d does not refer to a defined value", where, inc.ValueID)
						} else if !zzSameType(t, in.ResultType) {
							bad("%s: phi incoming of type %s for a phi of type %s", where, zzTypeString(t), zzTypeString(in.ResultType))
						}
					}
				}
			}
		}
	}
	return problems
}

func zzIsI1(t *module.Type) bool { return t != nil && t.Kind == module.TypeInteger && t.IntBits == 1 }

func zzSameType(a, b *module.Type) bool {
	if a == b {
		return true
	}
	if a == nil || b == nil || a.Kind != b.Kind {
		return false
	}
	switch a.Kind {
	case module.TypeInteger:
		return a.IntBits == b.IntBits
	case module.TypeFloat:
		return a.FloatBits == b.FloatBits
	case module.TypePointer:
		return a.PointerAddrSpace == b.PointerAddrSpace && zzSameType(a.PointerElem, b.PointerElem)
	case module.TypeArray, module.TypeVector:
		return a.ElemCount == b.ElemCount && zzSameType(a.ElemType, b.ElemType)
	case module.TypeStruct:
		if a.StructName != b.StructName || len(a.StructElems) != len(b.StructElems) {
			return false
		}
		for i := range a.StructElems {
			if !zzSameType(a.StructElems[i], b.StructElems[i]) {
				return false
			}
		}
		return true
	case module.TypeFunction:
		if !zzSameType(a.RetType, b.RetType) || len(a.ParamTypes) != len(b.ParamTypes) {
			return false
		}
		for i := range a.ParamTypes {
			if !zzSameType(a.ParamTypes[i], b.ParamTypes[i]) {
				return false
			}
		}
		return true
	}
	return true
}

func zzTypeString(t *module.Type) string {
	if t == nil {
		return "<nil>"
	}
	switch t.Kind {
	case module.TypeVoid:
		return "void"
	case module.TypeInteger:
		return fmt.Sprintf("i%d", t.IntBits)
	case module.TypeFloat:
		return fmt.Sprintf("f%d", t.FloatBits)
	case module.TypePointer:
		return zzTypeString(t.PointerElem) + "*"
	case module.TypeArray:
		return fmt.Sprintf("[%d x %s]", t.ElemCount, zzTypeString(t.ElemType))
	case module.TypeVector:
		return fmt.Sprintf("<%d x %s>", t.ElemCount, zzTypeString(t.ElemType))
	case module.TypeStruct:
		return "%" + t.StructName
	case module.TypeFunction:
		return "fn"
	}
	return fmt.Sprintf("kind%d", t.Kind)
}
