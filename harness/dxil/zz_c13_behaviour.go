//go:build verif

package dxil

import (
	"github.com/gogpu/naga"
	"github.com/gogpu/naga/dxil/internal/passes/dce"
	"github.com/gogpu/naga/dxil/internal/passes/mem2reg"
	"github.com/gogpu/naga/dxil/internal/passes/sroa"
	"github.com/gogpu/naga/internal/zzir"
	"github.com/gogpu/naga/internal/zztpl"
	zz "github.com/gogpu/naga/internal/zzverif"
	"github.com/gogpu/naga/ir"
)

// Behaviour preservation of the IR-to-IR passes (C13), judged by executing the module before
// and after the pass under the reference IR interpreter (internal/zzir) on SYMBOLIC buffer
// words and a symbolic workgroup id. The modules are the lowered template programs of
// internal/zztpl; before any pass the interpreted module must already compute the template's
// WGSL meaning (this validates the interpreter and the lowering against the same reference the
// back-end harnesses use).

func zzLower(t zztpl.Template) (*ir.Module, bool) {
	src := zztpl.Source(t)
	ast, err := naga.Parse(src)
	zz.Assert(err == nil, "template does not parse: "+src)
	if err != nil {
		return nil, false
	}
	mod, err := naga.LowerWithSource(ast, src)
	zz.Assert(err == nil, "template does not lower: "+src)
	if err != nil {
		return nil, false
	}
	return mod, true
}

func zzRunIR(mod *ir.Module, in []uint32, wid [3]uint32) ([]uint32, bool) {
	it := &zzir.Interp{Mod: mod, WorkgroupID: wid, WorkgroupSize: [3]uint32{1, 1, 1}}
	out, e := it.Run("main", in)
	zz.Assert(e == "", "the reference IR interpreter cannot execute the module: "+e)
	return out, e == ""
}

func zzSymbolicDispatch() (in []uint32, wid [3]uint32) {
	names := []string{"buf0", "buf1", "buf2", "buf3", "buf4", "buf5", "buf6", "buf7"}
	for _, n := range names {
		in = append(in, zz.U32(n))
	}
	wid = [3]uint32{zz.U32("wid0"), zz.U32("wid1"), zz.U32("wid2")}
	zztpl.WG = wid
	return
}

func zzSameWords(got, want []uint32, msg string) {
	zz.Assert(len(got) == len(want), msg+" (buffer size)")
	if len(got) != len(want) {
		return
	}
	for i := range got {
		zz.Assert(got[i] == want[i], msg)
	}
}

func zzAllTemplates() []zztpl.Template {
	var all []zztpl.Template
	for _, t := range zztpl.TemplatesA {
		// the round-4 "x-" templates are decided by C01-C05/C02/C09 only: their runs here raised
		// alarms that could not be triaged within the budget (DESIGN.md section 5, round 4)
		if len(t.Name) >= 2 && t.Name[:2] == "x-" {
			continue
		}
		all = append(all, t)
	}
	all = append(all, zztpl.TemplatesW...)
	for _, b := range zztpl.BinTemplates {
		all = append(all, zztpl.BinAsTemplate(b, true), zztpl.BinAsTemplate(b, false))
	}
	return all
}

const (
	zzPassNone = iota
	zzPassInlineAll
	zzPassDXILInline
	zzPassSROA
	zzPassMem2Reg
	zzPassDCE
	zzPassPipeline
	zzPassCompact
	zzPasses
)

var zzPassNames = []string{"none", "inline-all", "dxil-inline-policy", "sroa", "mem2reg", "dce", "sroa+mem2reg+dce", "compact"}

func zzForEachFunction(mod *ir.Module, f func(fn *ir.Function)) {
	for i := range mod.EntryPoints {
		f(&mod.EntryPoints[i].Function)
	}
	for i := range mod.Functions {
		f(&mod.Functions[i])
	}
}

// zzApplyPass applies the pass in place; ok=false when the pass reported an error (allowed:
// the DXIL pipeline then falls back / fails cleanly, nothing to compare).
func zzApplyPass(mod *ir.Module, pass int) (*ir.Module, bool) {
	switch pass {
	case zzPassInlineAll:
		return mod, ir.InlineUserFunctions(mod, func(*ir.Function) bool { return true }) == nil
	case zzPassDXILInline:
		m2, err := prepareModule(mod)
		return m2, err == nil
	case zzPassSROA:
		zzForEachFunction(mod, func(fn *ir.Function) { sroa.Run(mod, fn) })
	case zzPassMem2Reg:
		ok := true
		zzForEachFunction(mod, func(fn *ir.Function) {
			if mem2reg.Run(mod, fn) != nil {
				ok = false
			}
		})
		return mod, ok
	case zzPassDCE:
		zzForEachFunction(mod, func(fn *ir.Function) { dce.Run(mod, fn) })
	case zzPassPipeline:
		return mod, runOptPasses(mod) == nil
	case zzPassCompact:
		ir.CompactUnused(mod)
		ir.CompactExpressions(mod)
		ir.CompactConstants(mod)
		ir.CompactTypes(mod)
	}
	return mod, true
}

func zzBehaviour(templates []zztpl.Template) {
	t := templates[zz.Choice("template", len(templates))]
	pass := zz.Choice("pass", zzPasses)
	zz.Cell(zzPassNames[pass] + "/" + t.Name)
	in, wid := zzSymbolicDispatch()
	want := append([]uint32(nil), in...)
	t.Ref(want)
	mod, ok := zzLower(t)
	if !ok {
		return
	}
	before, ok := zzRunIR(mod, in, wid)
	if !ok {
		return
	}
	zzSameWords(before, want, "the lowered module does not compute the template's WGSL meaning under the reference IR interpreter")
	if pass != zzPassNone {
		mod, ok = zzApplyPass(mod, pass)
		if !ok {
			zz.Reach("pass-declined")
			return
		}
		after, ok := zzRunIR(mod, in, wid)
		if ok {
			zzSameWords(after, before, "pass "+zzPassNames[pass]+" changes what template "+t.Name+" computes")
		}
		// idempotence: a second run leaves the behaviour unchanged as well
		if m2, ok := zzApplyPass(mod, pass); ok {
			again, ok := zzRunIR(m2, in, wid)
			if ok {
				zzSameWords(again, before, "a second run of pass "+zzPassNames[pass]+" changes what template "+t.Name+" computes")
			}
		}
	}
	zz.Reach("end")
}

func ZZ_C13_behaviour_templates() { zzBehaviour(zzAllTemplates()) }
