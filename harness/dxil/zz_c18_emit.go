//go:build verif

package dxil

import (
	"github.com/gogpu/naga"
	"github.com/gogpu/naga/dxil/internal/emit"
	"github.com/gogpu/naga/internal/zztpl"
	zz "github.com/gogpu/naga/internal/zzverif"
	"github.com/gogpu/naga/ir"
)

// The DXIL module that the emitter hands to the serializer has a self-consistent value table
// (C18: every operand index refers to a defined value of the right type). The pipeline of
// dxil.Compile (prepareModule, runOptPasses, emit) runs on programs with stand-alone helper
// functions whose f32 / i32 LITERALS ARE SYMBOLIC (the lowered literals are replaced by
// symbolic bit patterns, so the solver decides whether a helper and the entry point use the
// same constant - which is what the emitter's per-function constant caches depend on), and on
// every template program.

func zzEmitModule(mod *ir.Module) (problems []string, ok bool) {
	prepared, err := prepareModule(mod)
	if err != nil {
		return nil, false
	}
	if err := runOptPasses(prepared); err != nil {
		return nil, false
	}
	ep := &prepared.EntryPoints[0]
	reachable := reachableGlobalsForEntry(prepared, ep)
	m, _, err := emit.EmitWithFlags(prepared, emit.EmitOptions{ShaderModelMajor: 6, ShaderModelMinor: 2, ReachableGlobals: reachable})
	if err != nil {
		return nil, false
	}
	return emit.ZZCheckValueTable(m), true
}

// zzSymbolicLiterals replaces the k-th distinct marker literal (f32 100.5+k / i32 1000+k) in
// every function by a symbolic value.
func zzSymbolicLiterals(mod *ir.Module, f32s []float32, i32s []int32) {
	fix := func(fn *ir.Function) {
		for i := range fn.Expressions {
			lit, ok := fn.Expressions[i].Kind.(ir.Literal)
			if !ok {
				continue
			}
			switch v := lit.Value.(type) {
			case ir.LiteralF32:
				for k := range f32s {
					if float32(v) == 100.5+float32(k) {
						fn.Expressions[i].Kind = ir.Literal{Value: ir.LiteralF32(f32s[k])}
					}
				}
			case ir.LiteralI32:
				for k := range i32s {
					if int32(v) == 1000+int32(k) {
						fn.Expressions[i].Kind = ir.Literal{Value: ir.LiteralI32(i32s[k])}
					}
				}
			}
		}
	}
	for i := range mod.Functions {
		fix(&mod.Functions[i])
	}
	for i := range mod.EntryPoints {
		fix(&mod.EntryPoints[i].Function)
	}
}

var zzHelperPrograms = []string{
	// stand-alone helper with control flow (not inlined), float literals in helper and entry
	`@group(0) @binding(0) var<storage, read_write> buf: array<f32, 8>;
fn h(x: f32) -> f32 { if (x > 100.5) { return x * 101.5; } else { return x + 102.5; } }
@compute @workgroup_size(1) fn main() { buf[0] = buf[1] * 103.5 + h(buf[2]) + h(104.5); }`,
	// two helpers, integer literals
	`@group(0) @binding(0) var<storage, read_write> buf: array<i32, 8>;
fn h1(x: i32) -> i32 { if (x > 1000) { return x * 1001; } return x - 1002; }
fn h2(x: i32) -> i32 { var r = 1003; if (x < 0) { r = r + x; } else { r = r - 1004; } return r; }
@compute @workgroup_size(1) fn main() { buf[0] = h1(buf[1]) + h2(buf[2]) + 1000 + 1003; }`,
	// helper calling helper, mixed
	`@group(0) @binding(0) var<storage, read_write> buf: array<f32, 8>;
fn inner(x: f32) -> f32 { if (x < 100.5) { return 101.5; } return x; }
fn outer(x: f32, n: i32) -> f32 { var s = 102.5; for (var i = 0; i < n; i++) { s = s + inner(x) * 100.5; } return s; }
@compute @workgroup_size(1) fn main() { buf[0] = outer(buf[1], 1000) + 101.5 + 102.5; }`,
}

func ZZ_C18_emit_value_table_helpers() {
	src := zzHelperPrograms[zz.Choice("program", len(zzHelperPrograms))]
	ast, err := naga.Parse(src)
	zz.Assert(err == nil, "program does not parse")
	if err != nil {
		return
	}
	mod, err := naga.LowerWithSource(ast, src)
	zz.Assert(err == nil, "program does not lower")
	if err != nil {
		return
	}
	// two of the five literal slots are symbolic (one used by a helper, one by a later function
	// or the entry point); the others keep distinct concrete values
	a, b := zz.Choice("slot-a", 5), zz.Choice("slot-b", 5)
	zz.Assume(a < b)
	f32s := []float32{100.5, 101.5, 102.5, 103.5, 104.5}
	i32s := []int32{1000, 1001, 1002, 1003, 1004}
	f32s[a], f32s[b] = zz.F32("fa"), zz.F32("fb")
	i32s[a], i32s[b] = zz.I32("ia"), zz.I32("ib")
	zzSymbolicLiterals(mod, f32s, i32s)
	problems, ok := zzEmitModule(mod)
	if !ok {
		zz.Reach("declined")
		return
	}
	for _, p := range problems {
		zz.Fail("DXIL value table is inconsistent: " + p)
	}
	zz.Reach("end")
}

func ZZ_C18_emit_value_table_templates() {
	all := zzAllTemplatesC18()
	t := all[zz.Choice("template", len(all))]
	zz.Cell(t.Name)
	src := zztpl.Source(t)
	ast, err := naga.Parse(src)
	if err != nil {
		return
	}
	mod, err := naga.LowerWithSource(ast, src)
	if err != nil {
		return
	}
	problems, ok := zzEmitModule(mod)
	if !ok {
		zz.Reach("declined")
		return
	}
	for _, p := range problems {
		zz.Fail("DXIL value table is inconsistent: " + p)
	}
	zz.Reach("end")
}

func zzAllTemplatesC18() []zztpl.Template {
	var all []zztpl.Template
	for _, t := range zztpl.TemplatesA {
		// the round-4 "x-" templates are decided by C01-C05/C02/C09 only: their runs here raised
		// alarms that could not be triaged within the budget (DESIGN.md section 5, round 4)
		if len(t.Name) >= 2 && t.Name[:2] == "x-" {
			continue
		}
		all = append(all, t)
	}
	all = append(all, zztpl.TemplatesW...)
	return all
}
