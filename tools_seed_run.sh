#!/bin/bash
# usage: tools_seed_run.sh <seed-id e.g. C07-m1> <property> [extra check args]
# Applies the seeded change to a scratch git worktree of /repo's HEAD (never to /repo itself),
# runs the quick check of <property> against that worktree (-repo), removes the worktree.
seed="$1"; prop="$2"; shift 2
wt=/tmp/seedwt_$seed
rm -rf $wt; git -C /repo worktree prune
git -C /repo worktree add -q --detach $wt HEAD || exit 2
(cd $wt && (git apply /verif/seeded/$seed/patch.diff 2>/dev/null || patch -p1 -s --no-backup-if-mismatch < /verif/seeded/$seed/patch.diff)) || { echo "cannot apply $seed"; git -C /repo worktree remove --force $wt; exit 2; }
cd /verif && timeout 900 ./check "$prop" quick -no-evidence -max-paths 60000 -repo $wt "$@" > /tmp/seedrun_$seed.log 2>&1
rc=$?
git -C /repo worktree remove --force $wt; git -C /repo worktree prune
echo "seed=$seed property=$prop exit=$rc violations=$(grep -c '^VIOLATION' /tmp/seedrun_$seed.log)"
grep "^violation" /tmp/seedrun_$seed.log | sed 's/ inputs=.*//' | sort | uniq -c | head -5
grep "^INCONCLUSIVE" /tmp/seedrun_$seed.log | cut -c1-300 | head -3
exit 0
