#!/bin/bash
# usage: tools_seed_run.sh <seed-id e.g. C07-m1> <property> [extra check args]
# applies the seeded change to /repo, runs the quick check, restores /repo.
seed="$1"; prop="$2"; shift 2
cd /repo || exit 2
if [ -n "$(git status --porcelain)" ]; then echo "/repo not clean" >&2; exit 2; fi
git apply /verif/seeded/$seed/patch.diff 2>/dev/null || patch -p1 -s --no-backup-if-mismatch < /verif/seeded/$seed/patch.diff || { echo "cannot apply $seed"; git checkout -- .; exit 2; }
cd /verif && timeout 900 ./check "$prop" quick -no-evidence -max-paths 60000 "$@" > /tmp/seedrun_$seed.log 2>&1
rc=$?
git -C /repo checkout -- .
find /repo -name '*.orig' -o -name '*.rej' | xargs -r rm -f
echo "seed=$seed property=$prop exit=$rc violations=$(grep -c '^VIOLATION' /tmp/seedrun_$seed.log)"
grep "^violation" /tmp/seedrun_$seed.log | sed 's/ inputs=.*//' | sort | uniq -c | head -5
grep "^INCONCLUSIVE" /tmp/seedrun_$seed.log | cut -c1-300 | head -3
exit 0
