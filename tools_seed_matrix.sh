#!/bin/bash
# Runs every seeded change against the quick check of its property (tools_seed_run.sh: patch
# applied to a scratch git worktree of /repo's HEAD, never to /repo itself) and records the
# detecting harnesses in seeded/<id>/meta.json and seeded/MATRIX.txt.
cd /verif
out=/verif/seeded/MATRIX.txt
: > $out.tmp
for d in seeded/*/; do
  s=$(basename $d); p=${s%%-*}
  [ -f $d/patch.diff ] || continue
  log=$(./tools_seed_run.sh $s $p 2>&1)
  viol=$(echo "$log" | grep "violation:" | sed -E 's/.*violation: [^ ]*\.(ZZ_[A-Za-z0-9_]+):.*/\1/' | sort -u | tr '\n' ' ')
  ex=$(echo "$log" | grep -o "exit=[0-9]*" | head -1)
  echo "$s $ex $viol" >> $out.tmp
  python3 - "$s" "$p" "$viol" <<'PY'
import json,sys
s,p,v=sys.argv[1:4]
f=f'/verif/seeded/{s}/meta.json'
d=json.load(open(f))
d['detected_by']=(f'{p} quick check: '+v.strip()) if v.strip() else 'not detected by any registered check (see DESIGN.md §5)'
json.dump(d,open(f,'w'),indent=1)
PY
done
mv $out.tmp $out
true
